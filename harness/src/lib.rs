//! Shared drivers for the conformance harness (see /verif/DESIGN.md §2).
pub mod io;
