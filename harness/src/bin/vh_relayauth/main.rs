//! Conformance drivers for relay authentication / admission / revocation.
//! Subcommands: c03 (handshake), c07 (admission guard, fault injection + e2e), c08 (revocation race).
use vh::io::Args;

mod acl;
mod c03;
mod c07;
mod c08;
mod memio;

fn main() {
    let args = Args::parse();
    match args.sub.as_str() {
        "c03" => c03::run(&args),
        "c07" => c07::run(&args),
        "c07e" => c07::run_e2e(&args),
        "c08" => c08::run(&args),
        other => {
            eprintln!("unknown subcommand {other}");
            std::process::exit(2);
        }
    }
}
