//! Recording `AccessControl` shared by the C07 / C08 drivers.
use std::{
    collections::HashSet,
    sync::{Arc, Mutex},
};

use iroh_base::EndpointId;
use iroh_relay::server::{Access, AccessControl, ClientRequest, ConnectionId};

#[derive(Debug, Clone, PartialEq)]
pub struct AcEvent {
    /// "connect" | "disconnect"
    pub kind: &'static str,
    pub endpoint: EndpointId,
    pub conn: ConnectionId,
    pub allowed: bool,
}

#[derive(Debug, Default)]
pub struct RecAc {
    pub log: Mutex<Vec<AcEvent>>,
    pub deny: Mutex<HashSet<EndpointId>>,
}

impl RecAc {
    pub fn new() -> Arc<Self> {
        Arc::new(Self::default())
    }
    pub fn deny(&self, id: EndpointId) {
        self.deny.lock().unwrap().insert(id);
    }
    pub fn events(&self) -> Vec<AcEvent> {
        self.log.lock().unwrap().clone()
    }
    /// Connection ids admitted for `id`, in admission order.
    pub fn admitted(&self, id: EndpointId) -> Vec<ConnectionId> {
        self.events().iter().filter(|e| e.kind == "connect" && e.allowed && e.endpoint == id).map(|e| e.conn).collect()
    }
}

impl AccessControl for RecAc {
    async fn on_connect(&self, request: &ClientRequest) -> Access {
        let allowed = !self.deny.lock().unwrap().contains(&request.endpoint_id());
        self.log.lock().unwrap().push(AcEvent { kind: "connect", endpoint: request.endpoint_id(), conn: request.connection_id(), allowed });
        if allowed { Access::Allow } else { Access::Deny { reason: None } }
    }
    fn on_disconnect(&self, endpoint_id: EndpointId, connection_id: ConnectionId) {
        self.log.lock().unwrap().push(AcEvent { kind: "disconnect", endpoint: endpoint_id, conn: connection_id, allowed: true });
    }
}
