//! In-memory `BytesStreamSink + ExportKeyingMaterial` pair with an operation log and fault injection.
//!
//! Every operation the code under test performs on the stream (`read`, `ready`, `write`, `flush`,
//! `close`) is appended to a shared log together with the frame tag it concerns, and a
//! [`FaultPlan`] can make exactly one of them fail (the stream stays broken afterwards, like a
//! websocket after an I/O error), or *panic* inside it (a bug in an embedder's stream adapter): the
//! panic unwinds whichever task polled the stream.
use std::{
    pin::Pin,
    sync::{Arc, Mutex},
    task::{Context, Poll},
};

use bytes::Bytes;
use iroh_relay::ExportKeyingMaterial;
use n0_error::{AnyError, anyerr};
use n0_future::{Sink, Stream};
use tokio::sync::mpsc;

/// Message of the panics raised by a [`FaultPlan`] with `panic = true`.
pub const INJECTED_PANIC: &str = "injected stream adapter panic";

/// One stream operation performed by the code under test.
#[derive(Debug, Clone, PartialEq, Eq, serde::Serialize)]
pub struct Op {
    /// "read" | "ready" | "write" | "flush" | "close"
    pub kind: &'static str,
    /// For `write`: tag byte of the frame; for `flush`: tag of the last written frame (255 if none);
    /// for `read`: tag of the frame returned (254 = end of stream).
    pub tag: u8,
    /// Whether the operation was made to fail.
    pub failed: bool,
}

#[derive(Debug, Default)]
pub struct IoLog {
    pub ops: Vec<Op>,
    /// Frames accepted by `start_send` (also when a later flush fails).
    pub sent: Vec<Bytes>,
}

/// Fail the `nth` (1-based) operation of `kind` whose tag is `tag` (`None`: any tag).
#[derive(Debug, Clone)]
pub struct FaultPlan {
    pub kind: String,
    pub tag: Option<u8>,
    pub nth: usize,
    /// The operation does not return an error: the adapter panics (the polling task unwinds).
    pub panic: bool,
}

#[derive(Debug)]
pub struct MemStream {
    rx: mpsc::UnboundedReceiver<Bytes>,
    tx: Option<mpsc::UnboundedSender<Bytes>>,
    secret: Option<u64>,
    pub log: Arc<Mutex<IoLog>>,
    fault: Option<FaultPlan>,
    seen: usize,
    broken: bool,
    last_written: u8,
}

/// Returns the two ends of an in-memory message pipe; each end exports keying material from its
/// own secret (`None`: this end cannot export).
pub fn pair(secret_a: Option<u64>, secret_b: Option<u64>) -> (MemStream, MemStream) {
    let (atx, brx) = mpsc::unbounded_channel();
    let (btx, arx) = mpsc::unbounded_channel();
    (MemStream::new(arx, atx, secret_a), MemStream::new(brx, btx, secret_b))
}

impl MemStream {
    fn new(rx: mpsc::UnboundedReceiver<Bytes>, tx: mpsc::UnboundedSender<Bytes>, secret: Option<u64>) -> Self {
        Self { rx, tx: Some(tx), secret, log: Default::default(), fault: None, seen: 0, broken: false, last_written: 255 }
    }

    pub fn with_fault(mut self, fault: Option<FaultPlan>) -> Self {
        self.fault = fault;
        self
    }

    /// Closes the sending half: the peer reads end-of-stream after the queued frames.
    pub fn close_tx(&mut self) {
        self.tx = None;
    }

    /// Records the op and decides whether it fails.
    fn op(&mut self, kind: &'static str, tag: u8) -> Result<(), AnyError> {
        let mut fail = self.broken;
        let mut panic = false;
        if !fail {
            if let Some(f) = &self.fault {
                if f.kind == kind && f.tag.is_none_or(|t| t == tag) {
                    self.seen += 1;
                    if self.seen == f.nth {
                        fail = true;
                        self.broken = true;
                        panic = f.panic;
                    }
                }
            }
        }
        self.log.lock().unwrap().ops.push(Op { kind, tag, failed: fail }); // lock released before a panic
        if panic {
            panic!("{INJECTED_PANIC} in {kind}");
        }
        if fail { Err(anyerr!("injected {kind} failure")) } else { Ok(()) }
    }
}

impl ExportKeyingMaterial for MemStream {
    fn export_keying_material<T: AsMut<[u8]>>(&self, output: T, label: &[u8], context: Option<&[u8]>) -> Option<T> {
        export(self.secret?, output, label, context)
    }
}

/// Keyed-hash stand-in for the TLS exporter (same construction as the crate's own test helper).
pub fn export<T: AsMut<[u8]>>(secret: u64, mut output: T, label: &[u8], context: Option<&[u8]>) -> Option<T> {
    let label_key = blake3::hash(label);
    let context_key = blake3::keyed_hash(label_key.as_bytes(), context.unwrap_or(&[]));
    let mut hasher = blake3::Hasher::new_keyed(context_key.as_bytes());
    hasher.update(&secret.to_le_bytes());
    hasher.finalize_xof().fill(output.as_mut());
    Some(output)
}

impl Stream for MemStream {
    type Item = Result<Bytes, AnyError>;

    fn poll_next(mut self: Pin<&mut Self>, cx: &mut Context<'_>) -> Poll<Option<Self::Item>> {
        if self.broken {
            return Poll::Ready(Some(Err(anyerr!("stream broken"))));
        }
        match self.rx.poll_recv(cx) {
            Poll::Pending => Poll::Pending,
            Poll::Ready(item) => {
                let tag = item.as_ref().map(|b| b.first().copied().unwrap_or(253)).unwrap_or(254);
                match self.op("read", tag) {
                    Err(e) => Poll::Ready(Some(Err(e))),
                    Ok(()) => Poll::Ready(item.map(Ok)),
                }
            }
        }
    }
}

impl Sink<Bytes> for MemStream {
    type Error = AnyError;

    fn poll_ready(mut self: Pin<&mut Self>, _cx: &mut Context<'_>) -> Poll<Result<(), AnyError>> {
        let t = self.last_written;
        Poll::Ready(self.op("ready", t))
    }

    fn start_send(mut self: Pin<&mut Self>, item: Bytes) -> Result<(), AnyError> {
        let tag = item.first().copied().unwrap_or(253);
        self.op("write", tag)?;
        self.last_written = tag;
        self.log.lock().unwrap().sent.push(item.clone());
        if let Some(tx) = &self.tx {
            tx.send(item).ok(); // a vanished peer is not an error for a buffered write
        }
        Ok(())
    }

    fn poll_flush(mut self: Pin<&mut Self>, _cx: &mut Context<'_>) -> Poll<Result<(), AnyError>> {
        let t = self.last_written;
        Poll::Ready(self.op("flush", t))
    }

    fn poll_close(mut self: Pin<&mut Self>, _cx: &mut Context<'_>) -> Poll<Result<(), AnyError>> {
        let t = self.last_written;
        let r = self.op("close", t);
        self.tx = None;
        Poll::Ready(r)
    }
}
