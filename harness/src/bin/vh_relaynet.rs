//! Conformance drivers for the relay network-edge properties (group "relaynet").
//! Subcommands:
//!   c13   raw HTTP requests against the captive-portal probe of a real `Server::spawn`
//!         (specs/relay/CaptivePortal.tla)
//!   c15   dial_happy_eyeballs under tokio's paused clock with a scripted resolver and an injected
//!         connector (specs/relay/RelayDial.tla)
//!   c11   websocket-upgrade version negotiation: scripted client -> real server, real client ->
//!         scripted server, real client -> real server (specs/relay/RelayHttpNegotiate.tla)
use std::time::Duration;

use serde::{Deserialize, Serialize};
use vh::io::{Args, NdjsonOut, read_ndjson};

fn main() {
    let args = Args::parse();
    match args.sub.as_str() {
        "c13" => c13::run(&args),
        "c11" => c11::run(&args),
        "c15" => c15::run(&args),
        other => {
            eprintln!("unknown subcommand {other}");
            std::process::exit(2);
        }
    }
}

fn hex(b: &[u8]) -> String {
    data_encoding::HEXLOWER.encode(b)
}
fn unhex(s: &str) -> Vec<u8> {
    data_encoding::HEXLOWER.decode(s.as_bytes()).expect("hex")
}

/// Environment problems (bind, connect to our own loopback listener, timeouts of the harness) end the
/// run with exit code 3 and a message: the check turns that into a tool error, never a violation.
fn env_fail(msg: impl std::fmt::Display) -> ! {
    eprintln!("ENV-ERROR: {msg}");
    std::process::exit(3);
}

/// Raw HTTP/1.1 plumbing shared by the drivers: the requests are concrete bytes produced by the
/// check module from TLC's abstract cases; nothing here interprets them.
mod rawhttp {
    use tokio::{
        io::{AsyncReadExt, AsyncWriteExt},
        net::TcpStream,
    };

    use super::*;

    #[derive(Serialize, Default, Debug, Clone)]
    pub struct Head {
        /// 0 when no parsable status line came back
        pub status: u16,
        /// (lower-cased name, value bytes as hex) in wire order
        pub headers: Vec<(String, String)>,
    }

    /// Sends `req` and reads one response head (up to the empty line).
    pub async fn exchange(stream: &mut TcpStream, req: &[u8]) -> std::io::Result<Head> {
        stream.write_all(req).await?;
        stream.flush().await?;
        read_head(stream).await
    }

    pub async fn read_head(stream: &mut TcpStream) -> std::io::Result<Head> {
        let mut buf = Vec::with_capacity(1024);
        let mut tmp = [0u8; 4096];
        let end = loop {
            if let Some(p) = find(&buf, b"\r\n\r\n") {
                break p;
            }
            let n = stream.read(&mut tmp).await?;
            if n == 0 {
                return Ok(Head::default());
            }
            buf.extend_from_slice(&tmp[..n]);
            if buf.len() > 1 << 20 {
                return Ok(Head::default());
            }
        };
        let head = &buf[..end];
        let mut lines = head.split(|b| *b == b'\n').map(|l| l.strip_suffix(b"\r").unwrap_or(l));
        let status_line = lines.next().unwrap_or_default();
        let status = std::str::from_utf8(status_line)
            .ok()
            .and_then(|l| l.split(' ').nth(1))
            .and_then(|c| c.parse::<u16>().ok())
            .unwrap_or(0);
        let mut headers = Vec::new();
        for l in lines {
            if let Some(colon) = l.iter().position(|b| *b == b':') {
                let name = String::from_utf8_lossy(&l[..colon]).to_ascii_lowercase();
                let mut v = &l[colon + 1..];
                while let [b' ' | b'\t', r @ ..] = v {
                    v = r;
                }
                while let [r @ .., b' ' | b'\t'] = v {
                    v = r;
                }
                headers.push((name, hex(v)));
            }
        }
        Ok(Head { status, headers })
    }

    fn find(h: &[u8], n: &[u8]) -> Option<usize> {
        h.windows(n.len()).position(|w| w == n)
    }

    /// Reads one message head byte by byte, so that nothing after the empty line is consumed (the
    /// bytes that follow belong to the upgraded protocol).  Returns the raw head.
    pub async fn read_head_exact(stream: &mut TcpStream) -> std::io::Result<Vec<u8>> {
        let mut buf = Vec::with_capacity(512);
        while !buf.ends_with(b"\r\n\r\n") {
            match stream.read_u8().await {
                Ok(b) => buf.push(b),
                Err(e) if e.kind() == std::io::ErrorKind::UnexpectedEof => break,
                Err(e) => return Err(e),
            }
            if buf.len() > 1 << 16 {
                break;
            }
        }
        Ok(buf)
    }

    /// Parses a head read by [`read_head_exact`] (request or response: for a request `status` is 0).
    pub fn parse_head(raw: &[u8]) -> Head {
        let mut lines = raw.split(|b| *b == b'\n').map(|l| l.strip_suffix(b"\r").unwrap_or(l));
        let first = lines.next().unwrap_or_default();
        let status = std::str::from_utf8(first)
            .ok()
            .filter(|l| l.starts_with("HTTP/"))
            .and_then(|l| l.split(' ').nth(1))
            .and_then(|c| c.parse::<u16>().ok())
            .unwrap_or(0);
        let mut headers = Vec::new();
        for l in lines {
            if let Some(colon) = l.iter().position(|b| *b == b':') {
                let name = String::from_utf8_lossy(&l[..colon]).to_ascii_lowercase();
                let mut v = &l[colon + 1..];
                while let [b' ' | b'\t', r @ ..] = v {
                    v = r;
                }
                while let [r @ .., b' ' | b'\t'] = v {
                    v = r;
                }
                headers.push((name, hex(v)));
            }
        }
        Head { status, headers }
    }

    impl Head {
        pub fn values(&self, name: &str) -> Vec<String> {
            self.headers.iter().filter(|(n, _)| n == name).map(|(_, v)| v.clone()).collect()
        }
    }

    /// SHA-1 (RFC 3174), only for computing `Sec-WebSocket-Accept` in the scripted server.
    pub fn sha1(data: &[u8]) -> [u8; 20] {
        let mut h: [u32; 5] = [0x67452301, 0xEFCDAB89, 0x98BADCFE, 0x10325476, 0xC3D2E1F0];
        let mut msg = data.to_vec();
        msg.push(0x80);
        while msg.len() % 64 != 56 {
            msg.push(0);
        }
        msg.extend_from_slice(&((data.len() as u64) * 8).to_be_bytes());
        for chunk in msg.chunks(64) {
            let mut w = [0u32; 80];
            for i in 0..16 {
                w[i] = u32::from_be_bytes([chunk[4 * i], chunk[4 * i + 1], chunk[4 * i + 2], chunk[4 * i + 3]]);
            }
            for i in 16..80 {
                w[i] = (w[i - 3] ^ w[i - 8] ^ w[i - 14] ^ w[i - 16]).rotate_left(1);
            }
            let (mut a, mut b, mut c, mut d, mut e) = (h[0], h[1], h[2], h[3], h[4]);
            for (i, wi) in w.iter().enumerate() {
                let (f, k) = match i {
                    0..=19 => ((b & c) | (!b & d), 0x5A827999),
                    20..=39 => (b ^ c ^ d, 0x6ED9EBA1),
                    40..=59 => ((b & c) | (b & d) | (c & d), 0x8F1BBCDC),
                    _ => (b ^ c ^ d, 0xCA62C1D6u32),
                };
                let t = a.rotate_left(5).wrapping_add(f).wrapping_add(e).wrapping_add(k).wrapping_add(*wi);
                e = d;
                d = c;
                c = b.rotate_left(30);
                b = a;
                a = t;
            }
            h[0] = h[0].wrapping_add(a);
            h[1] = h[1].wrapping_add(b);
            h[2] = h[2].wrapping_add(c);
            h[3] = h[3].wrapping_add(d);
            h[4] = h[4].wrapping_add(e);
        }
        let mut out = [0u8; 20];
        for (i, x) in h.iter().enumerate() {
            out[4 * i..4 * i + 4].copy_from_slice(&x.to_be_bytes());
        }
        out
    }

    pub fn ws_accept(key: &[u8]) -> String {
        let mut d = key.to_vec();
        d.extend_from_slice(b"258EAFA5-E914-47DA-95CA-C5AB0DC85B11");
        data_encoding::BASE64.encode(&sha1(&d))
    }
}

/// C13: captive-portal probe.  Two real servers: "portal" (relay with TLS, so the probe has its own
/// plain listener `run_captive_portal_service`) and "relay" (no TLS: the probe is a handler of the relay
/// HTTP server).  Every case is one fresh TCP connection carrying the concrete request bytes.
mod c13 {
    use std::net::{Ipv4Addr, SocketAddr};

    use iroh_relay::server::{RelayConfig, Server, ServerConfig, testing};
    use tokio::net::TcpStream;

    use super::*;

    #[derive(Deserialize)]
    struct Case {
        listener: String,
        /// the complete request, hex
        request: String,
    }
    #[derive(Serialize)]
    struct Obs {
        case: usize,
        status: u16,
        /// values (hex) of every `x-iroh-response` header of the response
        response_headers: Vec<String>,
        err: Option<String>,
    }

    async fn spawn(tls: bool) -> (Server, SocketAddr) {
        let relay = if tls {
            testing::relay_config()
        } else {
            let mut r = RelayConfig::new((Ipv4Addr::LOCALHOST, 0));
            r.key_cache_capacity = Some(1024);
            r
        };
        let mut config = ServerConfig::default();
        config.relay = Some(relay);
        let server = Server::spawn(config)
            .await
            .unwrap_or_else(|e| env_fail(format!("Server::spawn: {e:#}")));
        let addr = server.http_addr().unwrap_or_else(|| env_fail("no http addr"));
        if tls && server.https_addr().is_none() {
            env_fail("TLS relay has no https addr");
        }
        (server, addr)
    }

    async fn one(addr: SocketAddr, req: &[u8]) -> Result<rawhttp::Head, String> {
        let fut = async {
            let mut s = TcpStream::connect(addr).await.map_err(|e| format!("connect: {e}"))?;
            rawhttp::exchange(&mut s, req).await.map_err(|e| format!("io: {e}"))
        };
        match tokio::time::timeout(Duration::from_secs(20), fut).await {
            Ok(r) => r,
            Err(_) => env_fail("no response from the loopback server within 20 s"),
        }
    }

    pub fn run(args: &Args) {
        let cases: Vec<Case> = read_ndjson(&args.path("in"));
        let mut out = NdjsonOut::create(&args.path("out"));
        let rt = tokio::runtime::Builder::new_multi_thread().worker_threads(2).enable_all().build().unwrap();
        rt.block_on(async {
            let (_portal, portal_addr) = spawn(true).await;
            let (_relay, relay_addr) = spawn(false).await;
            for (case, c) in cases.iter().enumerate() {
                let addr = match c.listener.as_str() {
                    "portal" => portal_addr,
                    "relay" => relay_addr,
                    other => panic!("unknown listener {other}"),
                };
                let obs = match one(addr, &unhex(&c.request)).await {
                    Ok(h) => Obs {
                        case,
                        status: h.status,
                        response_headers: h
                            .headers
                            .iter()
                            .filter(|(n, _)| n == "x-iroh-response")
                            .map(|(_, v)| v.clone())
                            .collect(),
                        err: None,
                    },
                    Err(e) => Obs { case, status: 0, response_headers: vec![], err: Some(e) },
                };
                out.emit(&obs);
            }
        });
        out.finish();
    }
}

/// C11: relay protocol version negotiation.
///
/// mode "srv": the check's concrete upgrade request goes over a fresh TCP connection to a real
///   non-TLS `Server::spawn`; observed: status, `Sec-WebSocket-Protocol` / `Sec-WebSocket-Version` of the
///   answer.  After a 101 the driver completes the relay handshake by hand (challenge signature), which
///   makes the server call its `AccessControl` with the `ClientRequest` — its `protocol_version()` is what
///   the server settled on — and then connects a second time with the same key, which makes the server
///   send its "same endpoint connected" notice to the first connection: a `Status` frame (type 13) when it
///   speaks v2, a `Health` frame (type 11) when it speaks v1.
/// mode "cli": the real `ClientBuilder::connect` dials a scripted TCP server that answers the upgrade with
///   the check's status / sub-protocol header, then (after a 101 that the client accepted) runs the real
///   server side of the relay handshake and sends one `Status` and one `Health` frame: the client decodes
///   exactly the one its version allows.
/// mode "e2e": the real client against the real server, same observations on both sides.
/// mode "connect": the whole `ClientBuilder::connect` pipeline (specs/relay/RelayClientConnect.tla): client
///   configuration (scheme, TLS config present, auth token) against a scripted relay (listening or not, its answer,
///   its behaviour in the relay handshake); observed: the connect result's class and what the relay saw.
mod c11 {
    use std::{
        collections::HashMap,
        net::{Ipv4Addr, SocketAddr},
        pin::Pin,
        sync::{Arc, Mutex},
        task::{Context, Poll},
    };

    use bytes::Bytes;
    use futures_util::{Sink, SinkExt, Stream, StreamExt};
    use iroh_base::{EndpointId, RelayUrl, SecretKey};
    use iroh_dns::dns::DnsResolver;
    use iroh_relay::{
        ExportKeyingMaterial,
        client::{ClientBuilder, ConnectError},
        http::ProtocolVersion,
        protos::{
            handshake,
            relay::{RelayToClientMsg, Status},
        },
        server::{Access, AccessControl, ClientRequest, RelayConfig, Server, ServerConfig},
        tls::{CaTlsConfig, default_provider},
    };
    use n0_error::AnyError;
    use tokio::{
        io::AsyncWriteExt,
        net::{TcpListener, TcpStream},
    };
    use tokio_websockets::{Message, WebSocketStream};

    use super::*;

    const WAIT: Duration = Duration::from_secs(20);

    #[derive(Deserialize, Clone)]
    struct Case {
        mode: String,
        /// srv: the complete upgrade request (hex)
        #[serde(default)]
        request: String,
        /// cli: the scripted server's status and `Sec-WebSocket-Protocol` value (hex) / none
        #[serde(default)]
        status: u16,
        #[serde(default)]
        proto: Option<String>,
        // mode "connect" (specs/relay/RelayClientConnect.tla): the client's configuration ...
        #[serde(default)]
        scheme: String,
        #[serde(default)]
        tls_config: bool,
        #[serde(default)]
        token: Option<String>,
        // ... and the scripted relay: listens at all / closes instead of answering / behaviour in the relay handshake
        #[serde(default)]
        listen: bool,
        #[serde(default)]
        close: bool,
        #[serde(default)]
        hs: String,
    }
    /// What the scripted relay saw of the client (mode "connect").
    #[derive(Serialize, Default, Clone, Debug)]
    struct Seen {
        conn: bool,
        req: bool,
        /// first line of the request
        request_line: String,
        /// values (hex) of the Authorization headers
        auth: Vec<String>,
        offer: Vec<String>,
    }
    #[derive(Serialize, Default)]
    struct Obs {
        seen: Seen,
        case: usize,
        /// status of the server's answer (srv, e2e: as seen by the raw client / always 101 if the real client got through)
        status: u16,
        /// values (hex) of the answer's Sec-WebSocket-Protocol headers (srv)
        protos: Vec<String>,
        /// the answer carries `Sec-WebSocket-Version` (srv)
        wsver: bool,
        /// version the server handed to its access control ("" if it was never asked)
        srv_access_version: String,
        /// frame type of the server's "same endpoint connected" notice on the first connection (0: none)
        srv_notice_frame: u8,
        /// the offer the real client sent (hex; cli)
        client_offer: Vec<String>,
        /// real client: "" = connected, otherwise the class of the error
        cli_err: String,
        cli_err_text: String,
        /// real client: decoded the Status frame / the Health frame
        cli_status_ok: bool,
        cli_health_ok: bool,
        err: Option<String>,
    }

    fn version_name(v: ProtocolVersion) -> String {
        v.to_str().to_string()
    }

    /// Access control that records the protocol version of every admitted request.
    #[derive(Debug, Default, Clone)]
    struct Recorder(Arc<Mutex<HashMap<EndpointId, Vec<String>>>>);
    impl AccessControl for Recorder {
        async fn on_connect(&self, request: &ClientRequest) -> Access {
            self.0.lock().unwrap().entry(request.endpoint_id()).or_default().push(version_name(request.protocol_version()));
            Access::Allow
        }
    }

    async fn spawn_relay(rec: Recorder) -> (Server, SocketAddr) {
        let mut relay = RelayConfig::new((Ipv4Addr::LOCALHOST, 0));
        relay.key_cache_capacity = Some(1024);
        relay.access = Arc::new(rec);
        let mut config = ServerConfig::default();
        config.relay = Some(relay);
        let server = Server::spawn(config).await.unwrap_or_else(|e| env_fail(format!("Server::spawn: {e:#}")));
        let addr = server.http_addr().unwrap_or_else(|| env_fail("no http addr"));
        (server, addr)
    }

    fn secret(case: usize, salt: u8) -> SecretKey {
        let mut b = [salt; 32];
        b[..8].copy_from_slice(&(case as u64).to_le_bytes());
        b[8] = 0xC1;
        SecretKey::from_bytes(&b)
    }

    // ---- raw client side of the relay handshake (frames: varint type + postcard body) ----
    const DOMAIN_SEP_CHALLENGE: &str = "iroh-relay handshake v1 challenge signature";

    async fn next_binary(ws: &mut WebSocketStream<TcpStream>) -> Result<Vec<u8>, String> {
        loop {
            match tokio::time::timeout(WAIT, ws.next()).await {
                Err(_) => env_fail("no websocket frame from the loopback relay within 20 s"),
                Ok(None) => return Err("connection closed".into()),
                Ok(Some(Err(e))) => return Err(format!("websocket: {e}")),
                Ok(Some(Ok(m))) if m.is_binary() => return Ok(m.as_payload().to_vec()),
                Ok(Some(Ok(_))) => continue,
            }
        }
    }

    /// Sends the upgrade request, returns the answer's head and, after a 101, the websocket stream.
    async fn raw_upgrade(addr: SocketAddr, req: &[u8]) -> Result<(rawhttp::Head, Option<WebSocketStream<TcpStream>>), String> {
        let mut s = TcpStream::connect(addr).await.map_err(|e| format!("connect: {e}"))?;
        s.write_all(req).await.map_err(|e| format!("write: {e}"))?;
        let raw = tokio::time::timeout(WAIT, rawhttp::read_head_exact(&mut s))
            .await
            .unwrap_or_else(|_| env_fail("no answer from the loopback relay within 20 s"))
            .map_err(|e| format!("read: {e}"))?;
        let head = rawhttp::parse_head(&raw);
        if head.status == 101 {
            let ws = tokio_websockets::ClientBuilder::new().take_over(s);
            Ok((head, Some(ws)))
        } else {
            Ok((head, None))
        }
    }

    async fn raw_handshake(ws: &mut WebSocketStream<TcpStream>, key: &SecretKey) -> Result<(), String> {
        let f = next_binary(ws).await?;
        if f.len() != 17 || f[0] != 0 {
            return Err(format!("expected a server challenge frame, got {}", hex(&f)));
        }
        let msg = blake3::derive_key(DOMAIN_SEP_CHALLENGE, &f[1..17]);
        let sig = key.sign(&msg).to_bytes();
        let mut out = vec![1u8];
        out.extend_from_slice(key.public().as_bytes());
        out.push(64);
        out.extend_from_slice(&sig);
        ws.send(Message::binary(Bytes::from(out))).await.map_err(|e| format!("send auth: {e}"))?;
        let f = next_binary(ws).await?;
        if f != [2u8] {
            return Err(format!("expected the confirmation frame, got {}", hex(&f)));
        }
        Ok(())
    }

    async fn srv_case(addr: SocketAddr, rec: &Recorder, case: usize, req: &[u8]) -> Obs {
        let mut obs = Obs { case, ..Default::default() };
        let (head, ws) = match raw_upgrade(addr, req).await {
            Ok(x) => x,
            Err(e) => {
                obs.err = Some(e);
                return obs;
            }
        };
        obs.status = head.status;
        obs.protos = head.values("sec-websocket-protocol");
        obs.wsver = !head.values("sec-websocket-version").is_empty();
        let Some(mut ws1) = ws else { return obs };
        let key = secret(case, 0x11);
        if let Err(e) = raw_handshake(&mut ws1, &key).await {
            obs.err = Some(format!("handshake on the upgraded connection: {e}"));
            return obs;
        }
        // second connection, same key, same request
        match raw_upgrade(addr, req).await {
            Ok((_, Some(mut ws2))) => {
                if let Err(e) = raw_handshake(&mut ws2, &key).await {
                    obs.err = Some(format!("handshake on the second connection: {e}"));
                    return obs;
                }
                match next_binary(&mut ws1).await {
                    Ok(f) => obs.srv_notice_frame = f.first().copied().unwrap_or(0),
                    Err(e) => obs.err = Some(format!("waiting for the notice on the first connection: {e}")),
                }
                let _ = ws2.close().await;
            }
            Ok((h, None)) => obs.err = Some(format!("second identical request answered {}", h.status)),
            Err(e) => obs.err = Some(e),
        }
        let _ = ws1.close().await;
        let seen = rec.0.lock().unwrap().get(&key.public()).cloned().unwrap_or_default();
        obs.srv_access_version = seen.first().cloned().unwrap_or_default();
        if seen.iter().any(|v| *v != obs.srv_access_version) {
            obs.err = Some(format!("two identical requests were given different versions: {seen:?}"));
        }
        obs
    }

    // ---- scripted server for the real client ----
    /// Byte stream/sink view of a websocket, as the relay's handshake functions want it.
    struct WsBytes(WebSocketStream<TcpStream>);
    impl Stream for WsBytes {
        type Item = Result<Bytes, AnyError>;
        fn poll_next(mut self: Pin<&mut Self>, cx: &mut Context<'_>) -> Poll<Option<Self::Item>> {
            loop {
                match Pin::new(&mut self.0).poll_next(cx) {
                    Poll::Pending => return Poll::Pending,
                    Poll::Ready(None) => return Poll::Ready(None),
                    Poll::Ready(Some(Err(e))) => return Poll::Ready(Some(Err(AnyError::from_std(e)))),
                    Poll::Ready(Some(Ok(m))) if m.is_binary() => {
                        return Poll::Ready(Some(Ok(Bytes::copy_from_slice(&m.as_payload()[..]))));
                    }
                    Poll::Ready(Some(Ok(_))) => continue,
                }
            }
        }
    }
    impl Sink<Bytes> for WsBytes {
        type Error = AnyError;
        fn poll_ready(mut self: Pin<&mut Self>, cx: &mut Context<'_>) -> Poll<Result<(), AnyError>> {
            Pin::new(&mut self.0).poll_ready(cx).map_err(AnyError::from_std)
        }
        fn start_send(mut self: Pin<&mut Self>, item: Bytes) -> Result<(), AnyError> {
            Pin::new(&mut self.0).start_send(Message::binary(item)).map_err(AnyError::from_std)
        }
        fn poll_flush(mut self: Pin<&mut Self>, cx: &mut Context<'_>) -> Poll<Result<(), AnyError>> {
            Pin::new(&mut self.0).poll_flush(cx).map_err(AnyError::from_std)
        }
        fn poll_close(mut self: Pin<&mut Self>, cx: &mut Context<'_>) -> Poll<Result<(), AnyError>> {
            Pin::new(&mut self.0).poll_close(cx).map_err(AnyError::from_std)
        }
    }
    impl ExportKeyingMaterial for WsBytes {
        fn export_keying_material<T: AsMut<[u8]>>(&self, _o: T, _l: &[u8], _c: Option<&[u8]>) -> Option<T> {
            None
        }
    }

    /// Serves one connection: answers the upgrade as scripted; after a 101 runs the real server side of
    /// the relay handshake and sends a Status and a Health frame.  Returns the client's offer.
    async fn scripted_server(listener: TcpListener, status: u16, proto: Option<Vec<u8>>) -> Result<Vec<String>, String> {
        let (mut s, _) = tokio::time::timeout(WAIT, listener.accept())
            .await
            .map_err(|_| "the client never connected".to_string())?
            .map_err(|e| format!("accept: {e}"))?;
        let raw = tokio::time::timeout(WAIT, rawhttp::read_head_exact(&mut s))
            .await
            .map_err(|_| "timeout reading the client's request".to_string())?
            .map_err(|e| format!("read: {e}"))?;
        let head = rawhttp::parse_head(&raw);
        let offer = head.values("sec-websocket-protocol");
        let key = head.values("sec-websocket-key").first().map(|k| unhex(k)).unwrap_or_default();
        let mut resp: Vec<u8> = Vec::new();
        let reason = match status {
            101 => "Switching Protocols",
            200 => "OK",
            _ => "Bad Request",
        };
        resp.extend_from_slice(format!("HTTP/1.1 {status} {reason}\r\n").as_bytes());
        if status == 101 {
            resp.extend_from_slice(b"Upgrade: websocket\r\nConnection: upgrade\r\n");
            resp.extend_from_slice(format!("Sec-WebSocket-Accept: {}\r\n", rawhttp::ws_accept(&key)).as_bytes());
        } else {
            resp.extend_from_slice(b"Content-Length: 0\r\n");
        }
        if let Some(p) = &proto {
            resp.extend_from_slice(b"Sec-WebSocket-Protocol: ");
            resp.extend_from_slice(p);
            resp.extend_from_slice(b"\r\n");
        }
        resp.extend_from_slice(b"\r\n");
        s.write_all(&resp).await.map_err(|e| format!("write: {e}"))?;
        if status != 101 {
            return Ok(offer);
        }
        let mut io = WsBytes(tokio_websockets::ServerBuilder::new().serve(s));
        // a client that rejected the answer hangs up: the handshake then fails, which is fine
        let auth = match tokio::time::timeout(WAIT, handshake::serverside(&mut io, None)).await {
            Ok(Ok(a)) => a,
            _ => return Ok(offer),
        };
        if auth.authorize_if(Access::Allow, &mut io).await.is_err() {
            return Ok(offer);
        }
        // Status(Healthy) = [13, 0]; Health{problem: "x"} = [11, 'x']
        let _ = io.send(Bytes::from_static(&[13, 0])).await;
        let _ = io.send(Bytes::from_static(&[11, b'x'])).await;
        // keep the connection until the client is done with it
        let _ = tokio::time::timeout(WAIT, io.next()).await;
        Ok(offer)
    }

    fn classify(e: &ConnectError) -> &'static str {
        match e {
            ConnectError::MissingCryptoProvider { .. } => "nocrypto",
            ConnectError::InvalidAuthToken { .. } => "token",
            ConnectError::Handshake { source, .. } if matches!(source, handshake::Error::ServerDeniedAuth { .. }) => "handshake-denied",
            ConnectError::BadVersionHeader { .. } => "version",
            ConnectError::UnexpectedUpgradeStatus { .. } => "status",
            ConnectError::Websocket { .. } => "websocket",
            ConnectError::Handshake { .. } => "handshake",
            ConnectError::Dial { .. } => "dial",
            _ => "other",
        }
    }

    /// Connects the real client to `addr`; on success reads what the peer sends next.
    async fn real_client(addr: SocketAddr, case: usize, obs: &mut Obs, expect_frames: usize) -> SecretKey {
        let key = secret(case, 0x22);
        let url: RelayUrl = format!("http://{addr}").parse().expect("url");
        let tls = CaTlsConfig::default().client_config(default_provider()).expect("tls client config");
        let builder = ClientBuilder::new(url, key.clone(), DnsResolver::new()).tls_client_config(tls);
        match tokio::time::timeout(WAIT, builder.connect()).await {
            Err(_) => env_fail("ClientBuilder::connect did not finish within 20 s against a loopback server"),
            Ok(Err(e)) => {
                obs.cli_err = classify(&e).to_string();
                obs.cli_err_text = format!("{e:#}");
            }
            Ok(Ok(mut client)) => {
                for _ in 0..expect_frames {
                    match tokio::time::timeout(WAIT, client.next()).await {
                        Ok(Some(Ok(RelayToClientMsg::Status(Status::Healthy)))) => obs.cli_status_ok = true,
                        Ok(Some(Ok(RelayToClientMsg::Health { .. }))) => obs.cli_health_ok = true,
                        Ok(Some(Ok(_))) | Ok(Some(Err(_))) => {}
                        Ok(None) => break,
                        Err(_) => env_fail("the scripted server's frames did not arrive within 20 s"),
                    }
                }
            }
        }
        key
    }

    async fn cli_case(case: usize, status: u16, proto: Option<Vec<u8>>) -> Obs {
        let mut obs = Obs { case, ..Default::default() };
        let listener = TcpListener::bind((Ipv4Addr::LOCALHOST, 0)).await.unwrap_or_else(|e| env_fail(format!("bind: {e}")));
        let addr = listener.local_addr().expect("local addr");
        let server = tokio::spawn(scripted_server(listener, status, proto));
        real_client(addr, case, &mut obs, 2).await;
        match tokio::time::timeout(WAIT, server).await {
            Ok(Ok(Ok(offer))) => obs.client_offer = offer,
            Ok(Ok(Err(e))) => obs.err = Some(format!("scripted server: {e}")),
            Ok(Err(e)) => env_fail(format!("scripted server task: {e}")),
            Err(_) => env_fail("scripted server did not finish within 20 s"),
        }
        obs.status = status;
        obs
    }

    /// The scripted relay of mode "connect": records what it sees in `seen` as it goes.
    async fn connect_server(listener: TcpListener, c: &Case, seen: Arc<Mutex<Seen>>) {
        let Ok((mut s, _)) = listener.accept().await else { return };
        seen.lock().unwrap().conn = true;
        let Ok(Ok(raw)) = tokio::time::timeout(WAIT, rawhttp::read_head_exact(&mut s)).await else { return };
        if !raw.ends_with(b"\r\n\r\n") {
            return; // the client hung up without sending a request
        }
        let head = rawhttp::parse_head(&raw);
        {
            let mut g = seen.lock().unwrap();
            g.req = true;
            g.request_line = String::from_utf8_lossy(raw.split(|b| *b == b'\r').next().unwrap_or_default()).into_owned();
            g.auth = head.values("authorization");
            g.offer = head.values("sec-websocket-protocol");
        }
        if c.close {
            return;
        }
        let key = head.values("sec-websocket-key").first().map(|k| unhex(k)).unwrap_or_default();
        let mut resp: Vec<u8> = Vec::new();
        if c.status == 101 {
            resp.extend_from_slice(b"HTTP/1.1 101 Switching Protocols\r\nUpgrade: websocket\r\nConnection: upgrade\r\n");
            resp.extend_from_slice(format!("Sec-WebSocket-Accept: {}\r\n", rawhttp::ws_accept(&key)).as_bytes());
        } else {
            resp.extend_from_slice(format!("HTTP/1.1 {} Bad Request\r\nContent-Length: 0\r\n", c.status).as_bytes());
        }
        if let Some(p) = &c.proto {
            resp.extend_from_slice(b"Sec-WebSocket-Protocol: ");
            resp.extend_from_slice(&unhex(p));
            resp.extend_from_slice(b"\r\n");
        }
        resp.extend_from_slice(b"\r\n");
        if s.write_all(&resp).await.is_err() || c.status != 101 {
            return;
        }
        let mut io = WsBytes(tokio_websockets::ServerBuilder::new().serve(s));
        match c.hs.as_str() {
            "close" => return,
            "garbage" => {
                let _ = io.send(Bytes::from_static(&[99, 1, 2, 3])).await;
            }
            kind => {
                let Ok(Ok(auth)) = tokio::time::timeout(WAIT, handshake::serverside(&mut io, None)).await else { return };
                let access = if kind == "deny" { Access::Deny { reason: Some("scripted denial".into()) } } else { Access::Allow };
                let _ = auth.authorize_if(access, &mut io).await;
            }
        }
        // keep the connection until the client is done with it
        let _ = tokio::time::timeout(WAIT, io.next()).await;
    }

    async fn connect_case(case: usize, c: &Case) -> Obs {
        let mut obs = Obs { case, ..Default::default() };
        let listener = TcpListener::bind((Ipv4Addr::LOCALHOST, 0)).await.unwrap_or_else(|e| env_fail(format!("bind: {e}")));
        let addr = listener.local_addr().expect("local addr");
        let seen = Arc::new(Mutex::new(Seen::default()));
        let server = if c.listen {
            let (c2, seen2) = (c.clone(), seen.clone());
            Some(tokio::spawn(async move { connect_server(listener, &c2, seen2).await }))
        } else {
            drop(listener); // nothing listens on the port any more: connection refused
            None
        };
        let key = secret(case, 0x33);
        let url: RelayUrl = format!("{}://{addr}", c.scheme).parse().expect("url");
        let mut builder = ClientBuilder::new(url, key, DnsResolver::new());
        if c.tls_config {
            builder = builder.tls_client_config(CaTlsConfig::default().client_config(default_provider()).expect("tls client config"));
        }
        if let Some(t) = &c.token {
            builder = builder.auth_token(t.clone());
        }
        match tokio::time::timeout(WAIT, builder.connect()).await {
            Err(_) => env_fail("ClientBuilder::connect did not finish within 20 s against a loopback server"),
            Ok(Err(e)) => {
                obs.cli_err = classify(&e).to_string();
                obs.cli_err_text = format!("{e:#}");
            }
            Ok(Ok(client)) => drop(client),
        }
        if let Some(task) = server {
            // a connection the client made is already in the accept queue: a short grace is enough to see "no connection"
            let grace = if seen.lock().unwrap().conn { WAIT } else { Duration::from_millis(150) };
            let mut task = task;
            if tokio::time::timeout(grace, &mut task).await.is_err() {
                if seen.lock().unwrap().conn && !task.is_finished() {
                    let _ = tokio::time::timeout(WAIT, &mut task).await;
                }
                task.abort();
            }
        }
        obs.seen = seen.lock().unwrap().clone();
        obs
    }

    async fn e2e_case(addr: SocketAddr, rec: &Recorder, case: usize) -> Obs {
        let mut obs = Obs { case, ..Default::default() };
        // first connection; a second one with the same key makes the server send its notice to the first
        let key = secret(case, 0x22);
        let url: RelayUrl = format!("http://{addr}").parse().expect("url");
        let tls = CaTlsConfig::default().client_config(default_provider()).expect("tls client config");
        let builder = ClientBuilder::new(url, key.clone(), DnsResolver::new()).tls_client_config(tls);
        let mut first = match tokio::time::timeout(WAIT, builder.connect()).await {
            Err(_) => env_fail("ClientBuilder::connect did not finish within 20 s against a loopback server"),
            Ok(Err(e)) => {
                obs.cli_err = classify(&e).to_string();
                obs.cli_err_text = format!("{e:#}");
                return obs;
            }
            Ok(Ok(c)) => c,
        };
        obs.status = 101;
        let _second = match tokio::time::timeout(WAIT, builder.connect()).await {
            Ok(Ok(c)) => c,
            _ => {
                obs.err = Some("second connection of the real client failed".into());
                return obs;
            }
        };
        match tokio::time::timeout(WAIT, first.next()).await {
            Ok(Some(Ok(RelayToClientMsg::Status(Status::SameEndpointIdConnected)))) => {
                obs.cli_status_ok = true;
                obs.srv_notice_frame = 13;
            }
            Ok(Some(Ok(RelayToClientMsg::Health { .. }))) => {
                obs.cli_health_ok = true;
                obs.srv_notice_frame = 11;
            }
            Ok(other) => obs.err = Some(format!("first connection got {other:?} instead of the notice")),
            Err(_) => env_fail("the relay's notice did not arrive within 20 s"),
        }
        let seen = rec.0.lock().unwrap().get(&key.public()).cloned().unwrap_or_default();
        obs.srv_access_version = seen.first().cloned().unwrap_or_default();
        obs
    }

    pub fn run(args: &Args) {
        let cases: Vec<Case> = read_ndjson(&args.path("in"));
        let mut out = NdjsonOut::create(&args.path("out"));
        let rt = tokio::runtime::Builder::new_multi_thread().worker_threads(2).enable_all().build().unwrap();
        rt.block_on(async {
            let rec = Recorder::default();
            let (_server, addr) = spawn_relay(rec.clone()).await;
            for (case, c) in cases.iter().enumerate() {
                let obs = match c.mode.as_str() {
                    "srv" => srv_case(addr, &rec, case, &unhex(&c.request)).await,
                    "cli" => cli_case(case, c.status, c.proto.as_deref().map(unhex)).await,
                    "e2e" => e2e_case(addr, &rec, case).await,
                    "connect" => connect_case(case, c).await,
                    other => panic!("unknown mode {other}"),
                };
                out.emit(&obs);
            }
        });
        out.finish();
    }
}

/// C15: `dial_happy_eyeballs` (through the cfg-guarded `verif_dial_happy_eyeballs` / `VERIF_CONNECTOR`
/// hooks in iroh-relay/src/client/tls.rs) for one environment of specs/relay/RelayDial.tla per case:
/// a scripted `DnsResolver::custom` completes the IPv4 / IPv6 lookups at the model's instants, the
/// injected connector logs every attempt (address, virtual start instant) and completes it per the
/// model's behaviour.  A successful connect hands out a loopback `TcpStream` that was connected
/// before the function is called (tokio's paused clock auto-advances while real I/O is pending); its
/// local port identifies the attempt that produced the returned stream.  One time unit = 25 ms.
mod c15 {
    use std::{
        collections::HashMap,
        net::{IpAddr, Ipv4Addr, Ipv6Addr, SocketAddr},
        sync::Mutex,
    };

    use iroh_dns::dns::{BoxIter, DnsError, DnsResolver, Resolver, TxtRecordData};
    use iroh_relay::client::{DialError, VERIF_CONNECTOR, verif_dial_happy_eyeballs};
    use n0_future::boxed::BoxFuture;
    use tokio::{net::TcpStream, time::Instant};

    use super::*;

    const UNIT_MS: u64 = 25;

    #[derive(Deserialize, Clone, Debug)]
    struct Look {
        t: u64,
        ok: bool,
        n: u8,
    }
    #[derive(Deserialize, Clone, Debug)]
    struct Beh {
        f: String,
        i: u8,
        ok: bool,
        d: u64,
    }
    #[derive(Deserialize, Clone, Debug)]
    struct UrlShape {
        scheme: String,
        /// 0: no explicit port
        port: u16,
        /// "domain" | "ip4" | "ip6"
        host: String,
    }
    #[derive(Deserialize)]
    struct Env {
        pref6: bool,
        url: UrlShape,
        v4: Look,
        v6: Look,
        beh: Vec<Beh>,
        /// DIAL_ENDPOINT_TIMEOUT in units: a behaviour with d >= dt hangs
        dt: u64,
        /// DNS_TIMEOUT in units: a lookup with t >= dnst hangs
        dnst: u64,
    }
    #[derive(Serialize, Default)]
    struct Obs {
        case: usize,
        /// (family, index, start instant in units; -1 if not on the unit grid, port)
        attempts: Vec<(String, u8, i64, u16)>,
        /// "ok" | "err" | "wedged" | "panic"
        st: String,
        /// address of the returned stream
        a: Option<(String, u8)>,
        /// "dns" | "io" | "timeout" | other text
        err: String,
        done_at: i64,
        note: String,
    }

    fn ip_of(f: &str, i: u8) -> IpAddr {
        match f {
            "v4" => IpAddr::V4(Ipv4Addr::new(192, 0, 2, i)),
            _ => IpAddr::V6(Ipv6Addr::new(0x2001, 0xdb8, 0, 0, 0, 0, 0, i as u16)),
        }
    }
    fn model_addr(ip: IpAddr) -> (String, u8) {
        match ip {
            IpAddr::V4(a) => ("v4".into(), a.octets()[3]),
            IpAddr::V6(a) => ("v6".into(), a.segments()[7] as u8),
        }
    }
    fn units(d: Duration) -> i64 {
        let ms = d.as_millis() as u64;
        if ms % UNIT_MS == 0 { (ms / UNIT_MS) as i64 } else { -1 }
    }

    /// What the injected connector does for the current environment.
    struct Script {
        start: Instant,
        beh: HashMap<IpAddr, (bool, u64)>,
        streams: HashMap<IpAddr, TcpStream>,
        dt: u64,
        log: Vec<(SocketAddr, Duration)>,
    }
    static SCRIPT: Mutex<Option<Script>> = Mutex::new(None);

    fn connector(addr: SocketAddr) -> BoxFuture<std::io::Result<TcpStream>> {
        let (plan, stream) = {
            let mut g = SCRIPT.lock().unwrap();
            let s = g.as_mut().expect("connector used outside a case");
            s.log.push((addr, s.start.elapsed()));
            let plan = s.beh.get(&addr.ip()).copied().map(|(ok, d)| (ok, d, s.dt));
            (plan, s.streams.remove(&addr.ip()))
        };
        Box::pin(async move {
            match plan {
                None => Err(std::io::Error::other("address not in the scenario")),
                Some((_, d, dt)) if d >= dt => std::future::pending().await,
                Some((ok, d, _)) => {
                    tokio::time::sleep(Duration::from_millis(d * UNIT_MS)).await;
                    match (ok, stream) {
                        (true, Some(s)) => Ok(s),
                        (true, None) => Err(std::io::Error::other("harness: no pre-connected stream")),
                        (false, _) => Err(std::io::Error::from(std::io::ErrorKind::ConnectionRefused)),
                    }
                }
            }
        })
    }

    #[derive(Debug, Clone)]
    struct Scripted {
        v4: Look,
        v6: Look,
        dnst: u64,
    }
    async fn lookup<T: Send + 'static>(l: Look, dnst: u64, addrs: Vec<T>) -> Result<BoxIter<T>, DnsError> {
        if l.t >= dnst {
            return std::future::pending().await;
        }
        if l.t > 0 {
            tokio::time::sleep(Duration::from_millis(l.t * UNIT_MS)).await;
        }
        if l.ok { Ok(Box::new(addrs.into_iter())) } else { Err(n0_error::e!(DnsError::InvalidResponse)) }
    }
    impl Resolver for Scripted {
        fn lookup_ipv4(&self, _host: String) -> BoxFuture<Result<BoxIter<Ipv4Addr>, DnsError>> {
            let addrs = (1..=self.v4.n).map(|i| Ipv4Addr::new(192, 0, 2, i)).collect();
            Box::pin(lookup(self.v4.clone(), self.dnst, addrs))
        }
        fn lookup_ipv6(&self, _host: String) -> BoxFuture<Result<BoxIter<Ipv6Addr>, DnsError>> {
            let addrs = (1..=self.v6.n).map(|i| Ipv6Addr::new(0x2001, 0xdb8, 0, 0, 0, 0, 0, i as u16)).collect();
            Box::pin(lookup(self.v6.clone(), self.dnst, addrs))
        }
        fn lookup_txt(&self, _host: String) -> BoxFuture<Result<BoxIter<TxtRecordData>, DnsError>> {
            Box::pin(std::future::ready(Ok(Box::new(std::iter::empty()) as BoxIter<TxtRecordData>)))
        }
        fn clear_cache(&self) {}
        fn reset(&self) -> Box<dyn Resolver> {
            Box::new(self.clone())
        }
    }

    fn one(case: usize, env: &Env, listener: &std::net::TcpListener) -> Obs {
        let mut obs = Obs { case, done_at: -1, ..Default::default() };
        let port = listener.local_addr().expect("listener addr").port();
        // connect the streams for every address whose connect will succeed, before virtual time matters
        let mut std_streams: Vec<(IpAddr, std::net::TcpStream, u16)> = Vec::new();
        let mut accepted = Vec::new();
        for b in env.beh.iter().filter(|b| b.ok && b.d < env.dt) {
            let s = std::net::TcpStream::connect((Ipv4Addr::LOCALHOST, port)).unwrap_or_else(|e| env_fail(format!("loopback connect: {e}")));
            accepted.push(listener.accept().unwrap_or_else(|e| env_fail(format!("loopback accept: {e}"))));
            s.set_nonblocking(true).expect("nonblocking");
            let lp = s.local_addr().expect("local addr").port();
            std_streams.push((ip_of(&b.f, b.i), s, lp));
        }
        let by_port: HashMap<u16, IpAddr> = std_streams.iter().map(|(ip, _, p)| (*p, *ip)).collect();
        let rt = tokio::runtime::Builder::new_current_thread().enable_all().start_paused(true).build().unwrap();
        let r = vh::io::catch(|| {
            rt.block_on(async {
                let start = Instant::now();
                let streams = std_streams
                    .into_iter()
                    .map(|(ip, s, _)| (ip, TcpStream::from_std(s).expect("from_std")))
                    .collect();
                *SCRIPT.lock().unwrap() = Some(Script {
                    start,
                    beh: env.beh.iter().map(|b| (ip_of(&b.f, b.i), (b.ok, b.d))).collect(),
                    streams,
                    dt: env.dt,
                    log: Vec::new(),
                });
                let resolver = DnsResolver::custom(Scripted { v4: env.v4.clone(), v6: env.v6.clone(), dnst: env.dnst });
                let host = match env.url.host.as_str() {
                    "ip4" => "192.0.2.1".to_string(),
                    "ip6" => "[2001:db8::1]".to_string(),
                    _ => "relay.verif.test".to_string(),
                };
                let url = match env.url.port {
                    0 => format!("{}://{host}", env.url.scheme),
                    p => format!("{}://{host}:{p}", env.url.scheme),
                };
                let url: url::Url = url.parse().expect("url");
                // far beyond anything the model can take (all lookups time out, every attempt times out)
                let limit = Duration::from_secs(3600);
                let res = tokio::time::timeout(limit, verif_dial_happy_eyeballs(&resolver, &url, env.pref6)).await;
                (res, start.elapsed())
            })
        });
        let script = SCRIPT.lock().unwrap().take();
        if let Some(s) = script {
            obs.attempts = s
                .log
                .iter()
                .map(|(a, t)| {
                    let (f, i) = model_addr(a.ip());
                    (f, i, units(*t), a.port())
                })
                .collect();
        }
        match r {
            Err(p) => {
                obs.st = "panic".into();
                obs.note = p;
            }
            Ok((Err(_elapsed), _)) => obs.st = "wedged".into(),
            Ok((Ok(Ok(stream)), t)) => {
                obs.st = "ok".into();
                obs.done_at = units(t);
                match stream.local_addr().ok().and_then(|a| by_port.get(&a.port()).copied()) {
                    Some(ip) => obs.a = Some(model_addr(ip)),
                    None => obs.note = "returned stream is none of the scenario's".into(),
                }
                match stream.nodelay() {
                    Ok(true) => {}
                    other => obs.note = format!("returned stream nodelay = {other:?}"),
                }
            }
            Ok((Ok(Err(e)), t)) => {
                obs.st = "err".into();
                obs.done_at = units(t);
                obs.err = match &e {
                    DialError::Dns { .. } => "dns".into(),
                    DialError::Io { .. } => "io".into(),
                    DialError::Timeout { .. } => "timeout".into(),
                    DialError::InvalidTargetPort { .. } => "port".into(),
                    other => format!("{other:#}"),
                };
            }
        }
        drop(accepted);
        obs
    }

    pub fn run(args: &Args) {
        let cases: Vec<Env> = read_ndjson(&args.path("in"));
        let mut out = NdjsonOut::create(&args.path("out"));
        if VERIF_CONNECTOR.set(Box::new(connector)).is_err() {
            env_fail("connector already installed");
        }
        let listener = std::net::TcpListener::bind((Ipv4Addr::LOCALHOST, 0)).unwrap_or_else(|e| env_fail(format!("bind: {e}")));
        for (case, env) in cases.iter().enumerate() {
            out.emit(&one(case, env, &listener));
        }
        out.finish();
    }
}
