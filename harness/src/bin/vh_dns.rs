//! Conformance drivers for the DNS / pkarr properties (group "dns").
//! Subcommands: c34 (staggered lookups), c35 (dual-stack host resolution),
//! c33 (pkarr timestamps), c32 (signed packets).
use std::{
    net::{IpAddr, Ipv4Addr, Ipv6Addr},
    sync::{Arc, Mutex},
    time::Duration,
};

use iroh_dns::dns::{BoxIter, DnsError, DnsResolver, Resolver, TxtRecordData};
use n0_error::e;
use n0_future::boxed::BoxFuture;
use serde::{Deserialize, Serialize};
use vh::io::{Args, NdjsonOut, read_ndjson};

fn main() {
    let args = Args::parse();
    match args.sub.as_str() {
        "c34" => c34::run(&args),
        "c35" => c35::run(&args),
        "c33" => c33::run(&args),
        "c32" => c32::run(&args),
        other => {
            eprintln!("unknown subcommand {other}");
            std::process::exit(2);
        }
    }
}

/// One scripted answer of the resolver: what (`kind`) and after how long (`dur`, ms).
#[derive(Deserialize, Clone, Debug)]
struct Entry {
    kind: String,
    dur: u64,
    /// number of addresses in an "ok" answer (C35); C34 always answers two
    #[serde(default = "two")]
    n: u8,
}
fn two() -> u8 {
    2
}

#[derive(Deserialize, Clone, Debug, Default)]
struct Script {
    #[serde(default)]
    a: Vec<Entry>,
    #[serde(default)]
    aaaa: Vec<Entry>,
    #[serde(default)]
    txt: Vec<Entry>,
}

#[derive(Debug, Default)]
struct CallLog {
    /// (family, script position, microseconds since t0)
    calls: Vec<(&'static str, usize, u64)>,
    n_a: usize,
    n_aaaa: usize,
    n_txt: usize,
}

/// A `Resolver` that answers its k-th call of a family with the k-th script entry of that
/// family and records the (virtual) instant of every call.
#[derive(Debug, Clone)]
struct Scripted {
    script: Arc<Script>,
    log: Arc<Mutex<CallLog>>,
    t0: tokio::time::Instant,
}

impl Scripted {
    fn new(script: Script) -> Self {
        Self { script: Arc::new(script), log: Default::default(), t0: tokio::time::Instant::now() }
    }
    fn take(&self, fam: &'static str) -> (usize, Entry) {
        let mut g = self.log.lock().unwrap();
        let (ctr, list) = match fam {
            "a" => (&mut g.n_a, &self.script.a),
            "aaaa" => (&mut g.n_aaaa, &self.script.aaaa),
            _ => (&mut g.n_txt, &self.script.txt),
        };
        *ctr += 1;
        let k = *ctr;
        let entry = list.get(k - 1).cloned().unwrap_or(Entry { kind: "err".into(), dur: 0, n: 0 });
        let t = self.t0.elapsed().as_micros() as u64;
        g.calls.push((fam, k, t));
        (k, entry)
    }
}

/// address of answer `j` of the k-th call: the script position is readable from the address
fn v4_of(k: usize, j: u8) -> Ipv4Addr {
    Ipv4Addr::new(10, 0, k as u8, j + 1)
}
fn v6_of(k: usize, j: u8) -> Ipv6Addr {
    Ipv6Addr::new(0xfd00, 0, 0, 0, 0, 0, k as u16, j as u16 + 1)
}

async fn wait(ms: u64) {
    if ms > 0 {
        tokio::time::sleep(Duration::from_millis(ms)).await;
    }
}

impl Resolver for Scripted {
    fn lookup_ipv4(&self, _host: String) -> BoxFuture<Result<BoxIter<Ipv4Addr>, DnsError>> {
        let (k, entry) = self.take("a");
        Box::pin(async move {
            wait(entry.dur).await;
            if entry.kind == "ok" {
                let v: Vec<Ipv4Addr> = (0..entry.n).map(|j| v4_of(k, j)).collect();
                Ok(Box::new(v.into_iter()) as BoxIter<Ipv4Addr>)
            } else {
                Err(e!(DnsError::InvalidResponse))
            }
        })
    }
    fn lookup_ipv6(&self, _host: String) -> BoxFuture<Result<BoxIter<Ipv6Addr>, DnsError>> {
        let (k, entry) = self.take("aaaa");
        Box::pin(async move {
            wait(entry.dur).await;
            if entry.kind == "ok" {
                let v: Vec<Ipv6Addr> = (0..entry.n).map(|j| v6_of(k, j)).collect();
                Ok(Box::new(v.into_iter()) as BoxIter<Ipv6Addr>)
            } else {
                Err(e!(DnsError::InvalidResponse))
            }
        })
    }
    fn lookup_txt(&self, _host: String) -> BoxFuture<Result<BoxIter<TxtRecordData>, DnsError>> {
        let (k, entry) = self.take("txt");
        Box::pin(async move {
            wait(entry.dur).await;
            match entry.kind.as_str() {
                "ok" => {
                    let s = format!("user-data=k{k}").into_bytes().into_boxed_slice();
                    let v = vec![TxtRecordData::from(vec![s])];
                    Ok(Box::new(v.into_iter()) as BoxIter<TxtRecordData>)
                }
                // a TXT answer that is not `key=value`: EndpointInfo::from_txt_lookup fails
                "bad" => {
                    let s = b"not-an-attribute".to_vec().into_boxed_slice();
                    let v = vec![TxtRecordData::from(vec![s])];
                    Ok(Box::new(v.into_iter()) as BoxIter<TxtRecordData>)
                }
                _ => Err(e!(DnsError::InvalidResponse)),
            }
        })
    }
    fn clear_cache(&self) {}
    fn reset(&self) -> Box<dyn Resolver> {
        Box::new(self.clone())
    }
}

fn dns_err_class(e: &DnsError) -> &'static str {
    match e {
        DnsError::Timeout { .. } => "timeout",
        DnsError::InvalidResponse { .. } => "err",
        DnsError::NoResponse { .. } => "no_response",
        DnsError::ResolveBoth { .. } => "both",
        DnsError::MissingHost { .. } => "missing_host",
        _ => "other",
    }
}

/// script position encoded in an address handed out by `Scripted` (0 = not one of ours)
fn k_of(ip: &IpAddr) -> (u64, u64) {
    match ip {
        IpAddr::V4(a) => {
            let o = a.octets();
            if o[0] == 10 && o[1] == 0 { (o[2] as u64, o[3] as u64) } else { (999, 0) }
        }
        IpAddr::V6(a) => {
            let s = a.segments();
            if s[0] == 0xfd00 { (s[6] as u64, s[7] as u64) } else { (999, 0) }
        }
    }
}

/// C34: run TLC-generated stagger scenarios (specs/dns/DnsResolve.tla) on the public
/// `lookup_*_staggered` functions; the observation is a trace for Trace_DnsResolve.tla.
mod c34 {
    use iroh_base::SecretKey;
    use iroh_dns::dns::{LookupError, StaggeredError};

    use super::*;

    #[derive(Deserialize)]
    struct Scenario {
        id: u64,
        api: String,
        /// concrete delays in ms (u64, may be huge)
        delays: Vec<u64>,
        timeout: u64,
        horizon: u64,
        script: Script,
    }

    #[derive(Serialize, Default, Clone)]
    struct ErrClass {
        c: String,
        e4: String,
        e6: String,
    }

    #[derive(Serialize)]
    #[serde(tag = "ev")]
    #[allow(non_camel_case_types)]
    enum Event {
        start { k: usize, t: u64, t6: u64 },
        ret { t: u64, kind: String, k: u64, v4: u64, v6: u64, errs: Vec<ErrClass> },
        horizon { t: u64 },
    }

    #[derive(Serialize)]
    struct Obs {
        id: u64,
        panic: Option<String>,
        /// true if some instant was not a whole millisecond (timer-granularity assumption broken)
        sub_ms: bool,
        events: Vec<Event>,
    }

    fn leaf(c: &str) -> ErrClass {
        ErrClass { c: c.into(), e4: "-".into(), e6: "-".into() }
    }

    fn class_dns(e: &DnsError) -> ErrClass {
        match e {
            DnsError::ResolveBoth { ipv4, ipv6, .. } => {
                ErrClass { c: "both".into(), e4: dns_err_class(ipv4).into(), e6: dns_err_class(ipv6).into() }
            }
            other => leaf(dns_err_class(other)),
        }
    }

    fn class_lookup(e: &LookupError) -> ErrClass {
        match e {
            LookupError::ParseError { .. } => leaf("parse"),
            LookupError::LookupFailed { source, .. } => {
                ErrClass { c: "lookup_failed".into(), e4: dns_err_class(source).into(), e6: "-".into() }
            }
            _ => leaf("other"),
        }
    }

    fn ret_ips(t: u64, r: Result<Vec<IpAddr>, StaggeredError<DnsError>>) -> Event {
        match r {
            Ok(ips) => {
                // every address of a family must come from one and the same answer
                let (mut v4, mut v6) = (0u64, 0u64);
                for ip in &ips {
                    let (k, _) = k_of(ip);
                    let slot = if ip.is_ipv4() { &mut v4 } else { &mut v6 };
                    if *slot == 0 || *slot == k {
                        *slot = k;
                    } else {
                        *slot = 998; // mixed answers
                    }
                }
                if ips.is_empty() {
                    v4 = 997; // Ok without any address
                }
                let k = if v4 != 0 { v4 } else { v6 };
                Event::ret { t, kind: "ok".into(), k, v4, v6, errs: vec![] }
            }
            Err(err) => Event::ret { t, kind: "err".into(), k: 0, v4: 0, v6: 0, errs: err.iter().map(class_dns).collect() },
        }
    }

    async fn drive(s: &Scenario) -> (Vec<Event>, bool) {
        let scripted = Scripted::new(s.script.clone());
        let log = scripted.log.clone();
        let t0 = scripted.t0;
        let resolver = DnsResolver::custom(scripted);
        let timeout = Duration::from_millis(s.timeout);
        let horizon = Duration::from_millis(s.horizon);
        let endpoint_id = SecretKey::from_bytes(&[7u8; 32]).public();
        let ret: Option<Event> = match s.api.as_str() {
            "v4" => {
                let f = resolver.lookup_ipv4_staggered("host.example.", timeout, &s.delays);
                let r = tokio::time::timeout(horizon, f).await;
                let t = t0.elapsed().as_micros() as u64;
                r.ok().map(|r| ret_ips(t, r.map(|it| it.collect())))
            }
            "v6" => {
                let f = resolver.lookup_ipv6_staggered("host.example.", timeout, &s.delays);
                let r = tokio::time::timeout(horizon, f).await;
                let t = t0.elapsed().as_micros() as u64;
                r.ok().map(|r| ret_ips(t, r.map(|it| it.collect())))
            }
            "v46" => {
                let f = resolver.lookup_ipv4_ipv6_staggered("host.example.", timeout, &s.delays);
                let r = tokio::time::timeout(horizon, f).await;
                let t = t0.elapsed().as_micros() as u64;
                r.ok().map(|r| ret_ips(t, r.map(|it| it.collect())))
            }
            "txt" => {
                let f = resolver.lookup_endpoint_by_id_staggered(&endpoint_id, "example.", &s.delays);
                let r = tokio::time::timeout(horizon, f).await;
                let t = t0.elapsed().as_micros() as u64;
                r.ok().map(|r| match r {
                    Ok(info) => {
                        let k = info
                            .user_data()
                            .and_then(|u| u.as_ref().strip_prefix('k').and_then(|n| n.parse::<u64>().ok()))
                            .unwrap_or(996);
                        let k = if info.endpoint_id == endpoint_id { k } else { 995 };
                        Event::ret { t, kind: "ok".into(), k, v4: 0, v6: 0, errs: vec![] }
                    }
                    Err(err) => {
                        Event::ret { t, kind: "err".into(), k: 0, v4: 0, v6: 0, errs: err.iter().map(class_lookup).collect() }
                    }
                })
            }
            other => panic!("unknown api {other}"),
        };
        let t_end = t0.elapsed().as_micros() as u64;
        // one `start` event per attempt: the k-th call of each family used by the api
        let g = log.lock().unwrap();
        let mut events = Vec::new();
        let mut sub_ms = false;
        let fam_main = match s.api.as_str() {
            "v6" => "aaaa",
            "txt" => "txt",
            _ => "a",
        };
        for (fam, k, t) in g.calls.iter() {
            sub_ms |= t % 1000 != 0;
            if *fam != fam_main {
                continue;
            }
            let t6 = if s.api == "v46" {
                g.calls.iter().find(|(f, k6, _)| *f == "aaaa" && k6 == k).map(|c| c.2 / 1000).unwrap_or(u32::MAX as u64 / 2)
            } else {
                *t / 1000
            };
            events.push(Event::start { k: *k, t: *t / 1000, t6 });
        }
        if s.api == "v46" && g.n_aaaa != g.n_a {
            // an AAAA call without its A call: shown as an unmatched start
            events.push(Event::start { k: g.n_a.max(g.n_aaaa), t: u32::MAX as u64 / 2, t6: u32::MAX as u64 / 2 });
        }
        match ret {
            Some(Event::ret { t, kind, k, v4, v6, errs }) => {
                sub_ms |= t % 1000 != 0;
                events.push(Event::ret { t: t / 1000, kind, k, v4, v6, errs });
            }
            _ => events.push(Event::horizon { t: t_end / 1000 }),
        }
        (events, sub_ms)
    }

    pub fn run(args: &Args) {
        let cases: Vec<Scenario> = read_ndjson(&args.path("in"));
        let mut out = NdjsonOut::create(&args.path("out"));
        for s in cases.iter() {
            let r = vh::io::catch(|| {
                let rt = tokio::runtime::Builder::new_current_thread().enable_time().start_paused(true).build().unwrap();
                rt.block_on(drive(s))
            });
            let obs = match r {
                Ok((events, sub_ms)) => Obs { id: s.id, panic: None, sub_ms, events },
                Err(p) => Obs { id: s.id, panic: Some(p), sub_ms: false, events: vec![] },
            };
            out.emit(&obs);
        }
        out.finish();
    }
}

/// C35: run TLC-generated dual-stack scenarios (specs/dns/DualStack.tla) on the public
/// `DnsResolver::resolve_host_all`; the observation is the item sequence with instants.
mod c35 {
    use n0_future::StreamExt;

    use super::*;

    #[derive(Deserialize)]
    struct Scn {
        /// "all" = resolve_host_all, "one4" / "one6" = resolve_host(prefer_ipv6 = false / true),
        /// "join" = lookup_ipv4_ipv6
        #[serde(default = "api_all")]
        api: String,
        host: String,
        e4: Entry,
        e6: Entry,
    }
    fn api_all() -> String {
        "all".into()
    }
    #[derive(Deserialize)]
    struct Case {
        id: u64,
        scn: Scn,
        timeout: u64,
    }
    #[derive(Serialize)]
    struct Item {
        t: String,
        fam: String,
        j: u64,
        e4: String,
        e6: String,
        at: u64,
    }
    #[derive(Serialize)]
    struct Call {
        fam: String,
        at: u64,
    }
    #[derive(Serialize)]
    struct Obs {
        id: u64,
        panic: Option<String>,
        sub_ms: bool,
        out: Vec<Item>,
        calls: Vec<Call>,
    }

    const LIT4: Ipv4Addr = Ipv4Addr::new(192, 0, 2, 7);
    const LIT6: Ipv6Addr = Ipv6Addr::new(0x2001, 0xdb8, 0, 0, 0, 0, 0, 7);

    fn item(t: &str, fam: &str, j: u64, e4: &str, e6: &str, at: u64) -> Item {
        Item { t: t.into(), fam: fam.into(), j, e4: e4.into(), e6: e6.into(), at }
    }

    async fn drive(c: &Case) -> (Vec<Item>, Vec<Call>, bool) {
        let script = Script { a: vec![c.scn.e4.clone()], aaaa: vec![c.scn.e6.clone()], txt: vec![] };
        let scripted = Scripted::new(script);
        let log = scripted.log.clone();
        let t0 = scripted.t0;
        let resolver = DnsResolver::custom(scripted);
        let url: url::Url = match c.scn.host.as_str() {
            "domain" => "https://host.example/path".parse().unwrap(),
            "v4lit" => format!("https://{LIT4}:8443/").parse().unwrap(),
            "v6lit" => format!("https://[{LIT6}]/").parse().unwrap(),
            _ => "unix:/run/some.socket".parse().unwrap(),
        };
        let mut out = Vec::new();
        let mut sub_ms = false;
        let classify = |ip: IpAddr, at: u64| -> Item {
            if ip == IpAddr::V4(LIT4) {
                item("ok", "lit4", 0, "-", "-", at)
            } else if ip == IpAddr::V6(LIT6) {
                item("ok", "lit6", 0, "-", "-", at)
            } else {
                let (k, j) = k_of(&ip);
                let fam = match (k, ip.is_ipv4()) {
                    (1, true) => "a",
                    (1, false) => "aaaa",
                    _ => "unknown",
                };
                item("ok", fam, j, "-", "-", at)
            }
        };
        let classify_err = |e: &DnsError, at: u64| -> Item {
            match e {
                DnsError::ResolveBoth { ipv4, ipv6, .. } => item("both", "-", 0, dns_err_class(ipv4), dns_err_class(ipv6), at),
                other => item(dns_err_class(other), "-", 0, "-", "-", at),
            }
        };
        if c.scn.api != "all" {
            // the join-based entry points: one call, one result
            let timeout = Duration::from_millis(c.timeout);
            let res: Result<Vec<IpAddr>, DnsError> = match c.scn.api.as_str() {
                "one4" => resolver.resolve_host(&url, false, timeout).await.map(|ip| vec![ip]),
                "one6" => resolver.resolve_host(&url, true, timeout).await.map(|ip| vec![ip]),
                "join" => resolver.lookup_ipv4_ipv6("host.example.", timeout).await.map(|it| it.collect()),
                other => panic!("unknown api {other}"),
            };
            let us = t0.elapsed().as_micros() as u64;
            sub_ms |= us % 1000 != 0;
            let at = us / 1000;
            match res {
                Ok(ips) => out.extend(ips.into_iter().map(|ip| classify(ip, at))),
                Err(e) => out.push(classify_err(&e, at)),
            }
            out.push(item("end", "-", 0, "-", "-", at));
        } else {
            let stream = resolver.resolve_host_all(&url, Duration::from_millis(c.timeout));
            tokio::pin!(stream);
            loop {
                let next = tokio::time::timeout(Duration::from_secs(3600), stream.next()).await;
                let us = t0.elapsed().as_micros() as u64;
                sub_ms |= us % 1000 != 0;
                let at = us / 1000;
                match next {
                    Err(_) => {
                        out.push(item("pending", "-", 0, "-", "-", at));
                        break;
                    }
                    Ok(None) => {
                        out.push(item("end", "-", 0, "-", "-", at));
                        break;
                    }
                    Ok(Some(Ok(ip))) => out.push(classify(ip, at)),
                    Ok(Some(Err(e))) => out.push(classify_err(&e, at)),
                }
                if out.len() > 40 {
                    out.push(item("runaway", "-", 0, "-", "-", at));
                    break;
                }
            }
        }
        let g = log.lock().unwrap();
        let calls = g
            .calls
            .iter()
            .map(|(fam, _k, t)| {
                sub_ms |= t % 1000 != 0;
                Call { fam: fam.to_string(), at: t / 1000 }
            })
            .collect();
        (out, calls, sub_ms)
    }

    pub fn run(args: &Args) {
        let cases: Vec<Case> = read_ndjson(&args.path("in"));
        let mut out = NdjsonOut::create(&args.path("out"));
        for c in cases.iter() {
            let r = vh::io::catch(|| {
                let rt = tokio::runtime::Builder::new_current_thread().enable_time().start_paused(true).build().unwrap();
                rt.block_on(drive(c))
            });
            let obs = match r {
                Ok((o, calls, sub_ms)) => Obs { id: c.id, panic: None, sub_ms, out: o, calls },
                Err(p) => Obs { id: c.id, panic: Some(p), sub_ms: false, out: vec![], calls: vec![] },
            };
            out.emit(&obs);
        }
        out.finish();
    }
}

/// Small deterministic PRNG (xorshift64*), seeded from VERIF_SEED and the case.
struct Rng(u64);
impl Rng {
    fn new(seed: u64) -> Self {
        Rng(seed.wrapping_mul(0x9E37_79B9_7F4A_7C15) | 1)
    }
    fn next(&mut self) -> u64 {
        let mut x = self.0;
        x ^= x >> 12;
        x ^= x << 25;
        x ^= x >> 27;
        self.0 = x;
        x.wrapping_mul(0x2545_F491_4F6C_DD1D)
    }
    fn below(&mut self, n: u64) -> u64 {
        self.next() % n.max(1)
    }
}

fn env_seed() -> u64 {
    std::env::var("VERIF_SEED").ok().and_then(|s| s.parse().ok()).unwrap_or(1)
}

/// C33: real threads calling `Timestamp::now()`, every call bracketed by a global sequence
/// counter; wall-clock readings forced through the `VERIF_CLOCK` hook (TLC-generated readings,
/// relative to the run's base) or taken from the system clock.  Output: one trace
/// (Trace_PkarrTs.tla) per run.
mod c33 {
    use std::{
        cell::Cell,
        collections::BTreeMap,
        sync::atomic::{AtomicBool, AtomicU64, AtomicUsize, Ordering},
    };

    use iroh_dns::pkarr::{Timestamp, VERIF_CLOCK};

    use super::*;

    #[derive(Deserialize)]
    struct Run {
        id: u64,
        /// "forced": `clocks` gives every thread's readings (model values, relative to the base);
        /// "free": `threads` x `calls` calls on the system clock
        mode: String,
        #[serde(default)]
        clocks: BTreeMap<String, Vec<u64>>,
        #[serde(default)]
        threads: usize,
        #[serde(default)]
        calls: usize,
    }

    #[derive(Serialize)]
    struct Line {
        ev: &'static str,
        #[serde(skip_serializing_if = "Option::is_none")]
        t: Option<String>,
        #[serde(skip_serializing_if = "Option::is_none")]
        known: Option<bool>,
        #[serde(skip_serializing_if = "Option::is_none")]
        clock: Option<u64>,
        #[serde(skip_serializing_if = "Option::is_none")]
        v: Option<u64>,
        #[serde(skip_serializing_if = "Option::is_none")]
        run: Option<u64>,
    }

    thread_local! {
        static FORCED: Cell<Option<u64>> = const { Cell::new(None) };
    }
    fn clock() -> Option<u64> {
        FORCED.with(|f| f.get())
    }

    static SEQ: AtomicU64 = AtomicU64::new(0);

    struct Call {
        s: u64,
        e: u64,
        clock: Option<u64>,
        v: u64,
    }

    fn one_run(run: &Run) -> Result<Vec<Line>, String> {
        // threads and their readings
        let plan: Vec<(String, Vec<Option<u64>>)> = if run.mode == "forced" {
            run.clocks.iter().map(|(t, cs)| (t.clone(), cs.iter().map(|c| Some(*c)).collect())).collect()
        } else {
            (1..=run.threads).map(|i| (format!("t{i}"), vec![None; run.calls])).collect()
        };
        // the base: LAST after a synchronising call on this thread
        FORCED.with(|f| f.set(if run.mode == "forced" { Some(0) } else { None }));
        let base = Timestamp::now().as_micros();
        FORCED.with(|f| f.set(None));
        let ready = AtomicUsize::new(0);
        let go = AtomicBool::new(false);
        let arrived = AtomicUsize::new(0);
        let n = plan.len();
        let mut results: Vec<(String, Vec<Call>)> = Vec::new();
        std::thread::scope(|scope| {
            let handles: Vec<_> = plan
                .iter()
                .map(|(name, readings)| {
                    let (ready, go, arrived) = (&ready, &go, &arrived);
                    scope.spawn(move || {
                        let mut calls = Vec::with_capacity(readings.len());
                        ready.fetch_add(1, Ordering::SeqCst);
                        while !go.load(Ordering::SeqCst) {
                            std::hint::spin_loop();
                        }
                        for (round, r) in readings.iter().enumerate() {
                            // rendezvous: nobody starts call `round` before everybody finished the one before,
                            // so that the calls of one round really run at the same time
                            let mut spins = 0u32;
                            while arrived.load(Ordering::SeqCst) < round * n {
                                spins += 1;
                                if spins % 256 == 0 {
                                    std::thread::yield_now();
                                } else {
                                    std::hint::spin_loop();
                                }
                            }
                            FORCED.with(|f| f.set(r.map(|m| base + m)));
                            let s = SEQ.fetch_add(1, Ordering::SeqCst);
                            let v = Timestamp::now().as_micros();
                            let e = SEQ.fetch_add(1, Ordering::SeqCst);
                            calls.push(Call { s, e, clock: *r, v });
                            arrived.fetch_add(1, Ordering::SeqCst);
                        }
                        FORCED.with(|f| f.set(None));
                        (name.clone(), calls)
                    })
                })
                .collect();
            while ready.load(Ordering::SeqCst) < n {
                std::thread::yield_now();
            }
            go.store(true, Ordering::SeqCst);
            for h in handles {
                results.push(h.join().expect("worker"));
            }
        });
        let mut evs: Vec<(u64, Line)> = Vec::new();
        for (name, calls) in results {
            for c in calls {
                if c.v < base || c.v - base > i32::MAX as u64 / 2 {
                    // a value at or below the base repeats / precedes an earlier timestamp; one far
                    // above does not fit the trace's integers: both are reported as a raw line
                    return Err(format!("value {} of thread {} is outside (base {}, base + 2^30]", c.v, name, base));
                }
                let v = c.v - base;
                evs.push((c.s, Line { ev: "begin", t: Some(name.clone()), known: Some(c.clock.is_some()), clock: Some(c.clock.unwrap_or(0)), v: Some(v), run: None }));
                evs.push((c.e, Line { ev: "end", t: Some(name.clone()), known: None, clock: None, v: Some(v), run: None }));
            }
        }
        evs.sort_by_key(|e| e.0);
        let mut lines = vec![Line { ev: "reset", t: None, known: None, clock: None, v: None, run: Some(run.id) }];
        lines.extend(evs.into_iter().map(|e| e.1));
        Ok(lines)
    }

    pub fn run(args: &Args) {
        let runs: Vec<Run> = read_ndjson(&args.path("in"));
        let mut out = NdjsonOut::create(&args.path("out"));
        VERIF_CLOCK.set(clock as fn() -> Option<u64>).expect("VERIF_CLOCK set once");
        for r in runs.iter() {
            match vh::io::catch(|| one_run(r)) {
                Ok(Ok(lines)) => {
                    for l in lines {
                        out.emit(&l);
                    }
                }
                Ok(Err(msg)) => out.emit(&serde_json::json!({"ev": "broken", "run": r.id, "what": msg})),
                Err(p) => out.emit(&serde_json::json!({"ev": "panic", "run": r.id, "what": p})),
            }
        }
        out.finish();
    }
}

/// C32: abstract packets of specs/dns/Pkarr.tla concretised to bytes, byte-level mutants of
/// honest packets classified back into the model's classes, all offered to the public
/// constructors of `SignedPacket`; every accessor / Display / Debug under catch_unwind.
mod c32 {
    use std::collections::BTreeMap;

    use ed25519_dalek::{Signature as DSig, VerifyingKey};
    use iroh_base::{PublicKey, SecretKey};
    use iroh_dns::pkarr::{SignedPacket, Timestamp};

    use super::*;

    #[derive(Deserialize, Serialize, Clone, PartialEq, Debug)]
    struct SigTerm {
        k: String,
        ts: String,
        pl: String,
    }
    #[derive(Deserialize, Serialize, Clone, Debug)]
    struct Pkt {
        len: String,
        key: String,
        sig: SigTerm,
        ts: String,
        pl: String,
    }
    #[derive(Deserialize)]
    struct Case {
        id: u64,
        kind: String,
        #[serde(default)]
        ctor: String,
        #[serde(default)]
        pkt: Option<Pkt>,
        #[serde(default)]
        rk: String,
        #[serde(default)]
        form: String,
        #[serde(default)]
        masks: Vec<u8>,
        #[serde(default)]
        count: u64,
    }
    #[derive(Serialize)]
    struct Cls {
        len: String,
        point: bool,
        verifies: bool,
        parses: bool,
    }
    #[derive(Serialize)]
    struct Obs {
        case: u64,
        ctor: String,
        abs: Pkt,
        cls: Cls,
        accepted: bool,
        err: String,
        insp: BTreeMap<String, String>,
        fields_ok: bool,
        note: String,
        /// from_relay_payload: requested key class and payload form ("bare" | "full"), "-" otherwise
        rk: String,
        form: String,
        /// of the accepted value: carries the key it was requested for / built from; verifies (independent check)
        val_key_ok: bool,
        val_verifies: bool,
    }

    const CTORS: [&str; 4] = ["from_bytes", "from_relay_payload", "from_bytes_unchecked", "from_parts_unchecked"];

    struct World {
        sk1: SecretKey,
        sk2: SecretKey,
        kx: [u8; 32],
        weak: [u8; 32],
        np: [u8; 32],
        t: [u64; 3],
        p1: Vec<u8>,
        p2: Vec<u8>,
        px: Vec<u8>,
        junk: Vec<u8>,
        long: Vec<u8>,
    }

    /// BEP44 signable encoding, written independently of the crate under test
    fn signable(ts: u64, v: &[u8]) -> Vec<u8> {
        let mut s = format!("3:seqi{}e1:v{}:", ts, v.len()).into_bytes();
        s.extend_from_slice(v);
        s
    }

    fn is_point(b: &[u8]) -> bool {
        b.len() >= 32 && VerifyingKey::from_bytes(b[..32].try_into().unwrap()).is_ok()
    }
    fn verifies(b: &[u8]) -> bool {
        if b.len() < 104 {
            return false;
        }
        let Ok(vk) = VerifyingKey::from_bytes(b[..32].try_into().unwrap()) else { return false };
        let sig = DSig::from_bytes(b[32..96].try_into().unwrap());
        let ts = u64::from_be_bytes(b[96..104].try_into().unwrap());
        vk.verify_strict(&signable(ts, &b[104..]), &sig).is_ok()
    }
    fn parses(pl: &[u8]) -> bool {
        simple_dns::Packet::parse(pl).is_ok()
    }
    fn len_class(n: usize) -> &'static str {
        if n < 104 {
            "short"
        } else if n > 1104 {
            "long"
        } else {
            "ok"
        }
    }

    impl World {
        fn new() -> Self {
            let sk1 = SecretKey::from_bytes(&[1u8; 32]);
            let sk2 = SecretKey::from_bytes(&[2u8; 32]);
            let kx = *SecretKey::from_bytes(&[3u8; 32]).public().as_bytes();
            // the identity point (0, 1): decodes, small order
            let mut weak = [0u8; 32];
            weak[0] = 1;
            assert!(VerifyingKey::from_bytes(&weak).map(|k| k.is_weak()).unwrap_or(false), "weak key sample");
            // 32 bytes that are not a curve point
            let mut np = [0xffu8; 32];
            let mut i = 0u8;
            while VerifyingKey::from_bytes(&np).is_ok() {
                i += 1;
                np[1] = i;
            }
            // payloads as the crate itself builds them
            let h1 = SignedPacket::from_txt_strings(&sk1, "_iroh", ["relay=https://one.example/", "addr=192.0.2.1:1"], 30).expect("p1");
            let h2 = SignedPacket::from_txt_strings(&sk1, "_iroh", ["relay=https://two.example/"], 30).expect("p2");
            // px: a record at the apex of its zone (name "@"), owned by k2
            let h3 = SignedPacket::from_txt_strings(&sk2, "@", ["x"], 1).expect("px");
            let junk = vec![0xde, 0xad, 0xbe, 0xef, 0x01];
            assert!(!parses(&junk), "junk sample parses");
            let long = vec![0u8; 1001];
            let base = 1_700_000_000_000_000u64;
            World {
                sk1,
                sk2,
                kx,
                weak,
                np,
                t: [base + 1, base + 1000, base + 77],
                p1: h1.encoded_packet().to_vec(),
                p2: h2.encoded_packet().to_vec(),
                px: h3.encoded_packet().to_vec(),
                junk,
                long,
            }
        }
        fn key(&self, k: &str) -> [u8; 32] {
            match k {
                "k1" => *self.sk1.public().as_bytes(),
                "k2" => *self.sk2.public().as_bytes(),
                "kx" => self.kx,
                "weak" => self.weak,
                _ => self.np,
            }
        }
        fn ts(&self, t: &str) -> u64 {
            match t {
                "t1" => self.t[0],
                "t2" => self.t[1],
                _ => self.t[2],
            }
        }
        fn pl(&self, p: &str) -> &[u8] {
            match p {
                "p1" => &self.p1,
                "p2" => &self.p2,
                "px" => &self.px,
                _ => &self.junk,
            }
        }
        fn sig(&self, s: &SigTerm) -> [u8; 64] {
            match s.k.as_str() {
                "k1" => self.sk1.sign(&signable(self.ts(&s.ts), self.pl(&s.pl))).to_bytes(),
                "k2" => self.sk2.sign(&signable(self.ts(&s.ts), self.pl(&s.pl))).to_bytes(),
                _ => [0x5a; 64],
            }
        }
        /// bytes of an abstract packet
        fn bytes(&self, p: &Pkt) -> Vec<u8> {
            let mut b = Vec::new();
            b.extend_from_slice(&self.key(&p.key));
            b.extend_from_slice(&self.sig(&p.sig));
            b.extend_from_slice(&self.ts(&p.ts).to_be_bytes());
            match p.len.as_str() {
                "long" => b.extend_from_slice(&self.long),
                _ => b.extend_from_slice(self.pl(&p.pl)),
            }
            if p.len == "short" {
                b.truncate(103);
            }
            b
        }
    }

    fn err_class(e: &iroh_dns::pkarr::SignedPacketVerifyError) -> &'static str {
        use iroh_dns::pkarr::SignedPacketVerifyError as E;
        match e {
            E::TooShort { .. } => "too_short",
            E::TooLarge { .. } => "too_large",
            E::SignatureError { .. } => "signature",
            E::DnsError { .. } => "dns",
            E::InvalidKey { .. } => "invalid_key",
            _ => "other",
        }
    }

    fn inspect(p: &SignedPacket, b: &[u8]) -> (BTreeMap<String, String>, bool) {
        let mut m = BTreeMap::new();
        let mut fields_ok = true;
        let mut put = |name: &str, r: Result<bool, String>| {
            match r {
                Ok(ok) => {
                    fields_ok &= ok;
                    m.insert(name.to_string(), "ok".to_string());
                }
                Err(msg) => {
                    m.insert(name.to_string(), format!("panic: {msg}"));
                }
            };
        };
        put("public_key", vh::io::catch(|| p.public_key().as_bytes()[..] == b[..32]));
        put("signature", vh::io::catch(|| p.signature().to_bytes()[..] == b[32..96]));
        put("timestamp", vh::io::catch(|| p.timestamp().to_be_bytes()[..] == b[96..104]));
        put("encoded_packet", vh::io::catch(|| p.encoded_packet() == &b[104..]));
        put("as_bytes", vh::io::catch(|| p.as_bytes() == b));
        put("to_relay_payload", vh::io::catch(|| p.to_relay_payload()[..] == b[32..]));
        put("txt_records", vh::io::catch(|| {
            let _ = p.txt_records("_iroh");
            let _ = p.txt_records("@");
            let _ = p.txt_records("");
            true
        }));
        put("all_txt_records", vh::io::catch(|| {
            let _ = p.all_txt_records();
            true
        }));
        put("display", vh::io::catch(|| !format!("{p}").is_empty()));
        put("debug", vh::io::catch(|| !format!("{p:?}").is_empty()));
        put("more_recent_than", vh::io::catch(|| !p.more_recent_than(p)));
        put("clone_eq", vh::io::catch(|| p.clone() == *p));
        (m, fields_ok)
    }

    /// applies one constructor to the bytes; None if the constructor cannot be applied
    fn construct(ctor: &str, b: &[u8]) -> Option<Result<SignedPacket, String>> {
        let r = match ctor {
            "from_bytes" => SignedPacket::from_bytes(b),
            "from_relay_payload" => {
                if b.len() < 32 {
                    return None;
                }
                let key = PublicKey::try_from(&b[..32]).ok()?;
                SignedPacket::from_relay_payload(&key, &b[32..])
            }
            "from_bytes_unchecked" => SignedPacket::from_bytes_unchecked(b),
            "from_parts_unchecked" => {
                let n = b.len();
                let key = &b[..n.min(32)];
                let sig = &b[n.min(32)..n.min(96)];
                if n >= 104 {
                    let ts = Timestamp::from_be_bytes(b[96..104].try_into().unwrap());
                    SignedPacket::from_parts_unchecked(key, sig, ts, &b[104..])
                } else {
                    // short: key / signature parts that are too short, no payload
                    SignedPacket::from_parts_unchecked(key, sig, Timestamp::from_micros(0), &[])
                }
            }
            other => panic!("unknown constructor {other}"),
        };
        Some(r.map_err(|e| err_class(&e).to_string()))
    }

    fn observe(case: u64, ctor: &str, abs: &Pkt, b: &[u8], note: &str) -> Option<Obs> {
        let cls = Cls { len: len_class(b.len()).into(), point: is_point(b), verifies: verifies(b), parses: b.len() >= 104 && parses(&b[104..]) };
        let (rk, form) = if ctor == "from_relay_payload" { (abs.key.clone(), "bare".to_string()) } else { ("-".to_string(), "-".to_string()) };
        let r = match vh::io::catch(|| construct(ctor, b)) {
            Ok(None) => return None,
            Ok(Some(r)) => r,
            Err(p) => {
                let mut insp = BTreeMap::new();
                insp.insert("constructor".to_string(), format!("panic: {p}"));
                return Some(Obs { case, ctor: ctor.into(), abs: abs.clone(), cls, accepted: true, err: "panic".into(), insp, fields_ok: false, note: note.into(), rk, form, val_key_ok: false, val_verifies: false });
            }
        };
        let o = match r {
            Ok(p) => {
                // from_parts_unchecked of short parts pads nothing: compare against what it was given
                let shown = p.as_bytes().to_vec();
                let (insp, fields_ok) = inspect(&p, if ctor == "from_parts_unchecked" { &shown } else { b });
                let val_key_ok = b.len() >= 32 && shown.len() >= 32 && shown[..32] == b[..32];
                let val_verifies = verifies(&shown);
                Obs { case, ctor: ctor.into(), abs: abs.clone(), cls, accepted: true, err: String::new(), insp, fields_ok, note: note.into(), rk, form, val_key_ok, val_verifies }
            }
            Err(e) => Obs { case, ctor: ctor.into(), abs: abs.clone(), cls, accepted: false, err: e, insp: BTreeMap::new(), fields_ok: true, note: note.into(), rk, form, val_key_ok: true, val_verifies: true },
        };
        Some(o)
    }

    /// from_relay_payload(key of class `rk`, payload = the *complete* packet `b`): OfferRelayFull in the model
    fn observe_full(w: &World, case: u64, abs: &Pkt, rk: &str, b: &[u8], note: &str) -> Obs {
        let cls = Cls { len: len_class(b.len()).into(), point: is_point(b), verifies: verifies(b), parses: b.len() >= 104 && parses(&b[104..]) };
        let want = w.key(rk);
        let key = PublicKey::try_from(&want[..]).expect("requested key is a point");
        let (ctor, form) = ("from_relay_payload".to_string(), "full".to_string());
        let note = format!("{note}; complete packet offered as relay payload for {rk}");
        match vh::io::catch(|| SignedPacket::from_relay_payload(&key, b).map_err(|e| err_class(&e).to_string())) {
            Err(p) => {
                let mut insp = BTreeMap::new();
                insp.insert("constructor".to_string(), format!("panic: {p}"));
                Obs { case, ctor, abs: abs.clone(), cls, accepted: true, err: "panic".into(), insp, fields_ok: false, note, rk: rk.into(), form, val_key_ok: false, val_verifies: false }
            }
            Ok(Ok(p)) => {
                let shown = p.as_bytes().to_vec();
                let (insp, fields_ok) = inspect(&p, &shown);
                let val_key_ok = shown.len() >= 32 && shown[..32] == want[..];
                let val_verifies = verifies(&shown);
                Obs { case, ctor, abs: abs.clone(), cls, accepted: true, err: String::new(), insp, fields_ok, note, rk: rk.into(), form, val_key_ok, val_verifies }
            }
            Ok(Err(e)) => Obs { case, ctor, abs: abs.clone(), cls, accepted: false, err: e, insp: BTreeMap::new(), fields_ok: true, note, rk: rk.into(), form, val_key_ok: true, val_verifies: true },
        }
    }

    /// the model's classes of a concrete byte string derived from the honest packet `h` = (k1, t1, p1)
    fn abstract_of(w: &World, h: &[u8], b: &[u8]) -> Pkt {
        let hsig = SigTerm { k: "k1".into(), ts: "t1".into(), pl: "p1".into() };
        let garbage = SigTerm { k: "none".into(), ts: "none".into(), pl: "none".into() };
        if b.len() < 104 {
            return Pkt { len: "short".into(), key: "k1".into(), sig: hsig, ts: "t1".into(), pl: "p1".into() };
        }
        let key = if b[..32] == h[..32] {
            "k1"
        } else if b[..32] == w.key("k2") {
            "k2"
        } else {
            match VerifyingKey::from_bytes(b[..32].try_into().unwrap()) {
                Err(_) => "np",
                Ok(k) if k.is_weak() => "weak",
                Ok(_) => "kx",
            }
        };
        let sig = if b[32..96] == h[32..96] { hsig } else { garbage };
        let ts = if b[96..104] == h[96..104] { "t1" } else { "tx" };
        let pl = if b[104..] == h[104..] {
            "p1"
        } else if parses(&b[104..]) {
            "px"
        } else {
            "junk"
        };
        Pkt { len: len_class(b.len()).into(), key: key.into(), sig, ts: ts.into(), pl: pl.into() }
    }

    /// the honest packet (k1, t1, p1) as bytes, signed by the harness over the crate-built payload
    fn honest(w: &World) -> Vec<u8> {
        w.bytes(&Pkt { len: "ok".into(), key: "k1".into(), sig: SigTerm { k: "k1".into(), ts: "t1".into(), pl: "p1".into() }, ts: "t1".into(), pl: "p1".into() })
    }

    fn random_txt(rng: &mut Rng) -> (String, Vec<String>, u32) {
        let names = ["_iroh", "@", "sub.name", "", "_iroh.", "a.b.c"];
        let name = names[rng.below(names.len() as u64) as usize].to_string();
        let n = rng.below(7);
        let alphabet: Vec<char> = "abcXYZ019=;,. _-/:\"\\\u{e9}\u{4e16}\u{1f600}".chars().collect();
        let vals = (0..n)
            .map(|_| {
                let len = match rng.below(6) {
                    0 => 0,
                    1 => 255,
                    2 => 300,
                    _ => rng.below(80),
                };
                let mut s = String::new();
                while (s.len() as u64) < len {
                    s.push(alphabet[rng.below(alphabet.len() as u64) as usize]);
                }
                s
            })
            .collect();
        (name, vals, rng.below(100_000) as u32)
    }

    pub fn run(args: &Args) {
        let cases: Vec<Case> = read_ndjson(&args.path("in"));
        let mut out = NdjsonOut::create(&args.path("out"));
        let w = World::new();
        let h = honest(&w);
        let hp = abstract_of(&w, &h, &h);
        for c in cases.iter() {
            match c.kind.as_str() {
                // one abstract packet of the model, one constructor
                "abstract" => {
                    let p = c.pkt.as_ref().expect("pkt");
                    let b = w.bytes(p);
                    if c.form == "full" {
                        out.emit(&observe_full(&w, c.id, p, &c.rk, &b, "abstract"));
                    } else if let Some(o) = observe(c.id, &c.ctor, p, &b, "abstract") {
                        out.emit(&o);
                    }
                }
                // every byte position of the honest packet, xor each mask
                "bytemut" => {
                    for pos in 0..h.len() {
                        for mask in &c.masks {
                            let mut b = h.clone();
                            b[pos] ^= *mask;
                            let a = abstract_of(&w, &h, &b);
                            for ctor in CTORS {
                                if let Some(o) = observe(c.id, ctor, &a, &b, &format!("byte {pos} ^ {mask:#04x}")) {
                                    out.emit(&o);
                                }
                            }
                            for rk in ["k1", "k2"] {
                                out.emit(&observe_full(&w, c.id, &a, rk, &b, &format!("byte {pos} ^ {mask:#04x}")));
                            }
                        }
                    }
                }
                // seeded pairs of positions
                "pairs" => {
                    let mut rng = Rng::new(env_seed() ^ c.id);
                    for _ in 0..c.count {
                        let mut b = h.clone();
                        let (i, j) = (rng.below(h.len() as u64) as usize, rng.below(h.len() as u64) as usize);
                        b[i] ^= 1 + rng.below(255) as u8;
                        b[j] ^= 1 + rng.below(255) as u8;
                        if b == h {
                            continue;
                        }
                        let a = abstract_of(&w, &h, &b);
                        for ctor in CTORS {
                            if let Some(o) = observe(c.id, ctor, &a, &b, &format!("bytes {i},{j}")) {
                                out.emit(&o);
                            }
                        }
                        for rk in ["k1", "k2"] {
                            out.emit(&observe_full(&w, c.id, &a, rk, &b, &format!("bytes {i},{j}")));
                        }
                    }
                }
                // every truncation and some extensions of the honest packet
                "truncext" => {
                    for n in 0..h.len() {
                        let b = h[..n].to_vec();
                        let a = abstract_of(&w, &h, &b);
                        for ctor in CTORS {
                            if let Some(o) = observe(c.id, ctor, &a, &b, &format!("truncated to {n}")) {
                                out.emit(&o);
                            }
                        }
                        for rk in ["k1", "k2"] {
                            out.emit(&observe_full(&w, c.id, &a, rk, &b, &format!("truncated to {n}")));
                        }
                    }
                    for extra in [1usize, 2, 12, 1104 - h.len(), 1105 - h.len(), 2000] {
                        let mut b = h.clone();
                        b.extend(std::iter::repeat_n(0u8, extra));
                        let a = abstract_of(&w, &h, &b);
                        for ctor in CTORS {
                            if let Some(o) = observe(c.id, ctor, &a, &b, &format!("extended by {extra}")) {
                                out.emit(&o);
                            }
                        }
                        for rk in ["k1", "k2"] {
                            out.emit(&observe_full(&w, c.id, &a, rk, &b, &format!("extended by {extra}")));
                        }
                    }
                }
                // packets built by the crate from arbitrary TXT content: the honest endpoint's Publish
                "honest" => {
                    let mut rng = Rng::new(env_seed() ^ (c.id << 8));
                    for i in 0..c.count {
                        let (name, vals, ttl) = random_txt(&mut rng);
                        let built = vh::io::catch(|| SignedPacket::from_txt_strings(&w.sk1, &name, vals.iter(), ttl));
                        let note = format!("from_txt_strings #{i} name {name:?} {} values", vals.len());
                        match built {
                            Err(p) => {
                                let mut insp = BTreeMap::new();
                                insp.insert("from_txt_strings".to_string(), format!("panic: {p}"));
                                out.emit(&Obs { case: c.id, ctor: "from_txt_strings".into(), abs: hp.clone(), cls: Cls { len: "ok".into(), point: true, verifies: true, parses: true }, accepted: true, err: "panic".into(), insp, fields_ok: false, note, rk: "-".into(), form: "-".into(), val_key_ok: false, val_verifies: false });
                            }
                            Ok(Err(_)) => {} // too large / not encodable: no packet
                            Ok(Ok(p)) => {
                                let b = p.as_bytes().to_vec();
                                // in the model this is Publish followed by offering the published packet
                                for ctor in CTORS {
                                    if let Some(mut o) = observe(c.id, ctor, &hp, &b, &note) {
                                        if o.accepted && ctor == "from_bytes" {
                                            let same = SignedPacket::from_bytes(&b).map(|q| q == p).unwrap_or(false);
                                            o.fields_ok &= same;
                                        }
                                        out.emit(&o);
                                    }
                                }
                                for rk in ["k1", "k2"] {
                                    out.emit(&observe_full(&w, c.id, &hp, rk, &b, &note));
                                }
                            }
                        }
                    }
                }
                // more_recent_than on real packets for every ordered pair of (timestamp rank, payload rank)
                "order" => {
                    let n = c.count.max(2) as usize;
                    // payloads built by the crate, ranked by their bytes; timestamps ranked by value
                    let mut pls: Vec<Vec<u8>> = (0..n)
                        .map(|i| {
                            let v = format!("rank={}", i * 7 + 1);
                            SignedPacket::from_txt_strings(&w.sk1, "_iroh", [v.as_str()], 30).expect("order payload").encoded_packet().to_vec()
                        })
                        .collect();
                    pls.sort();
                    pls.dedup();
                    assert_eq!(pls.len(), n, "distinct payloads");
                    let tss: Vec<u64> = (0..n as u64).map(|i| w.t[0] + i * i * 1000 + i).collect();
                    let mk = |ts: usize, pl: usize| -> SignedPacket {
                        let sig = w.sk1.sign(&signable(tss[ts], &pls[pl])).to_bytes();
                        let mut b = Vec::new();
                        b.extend_from_slice(&w.key("k1"));
                        b.extend_from_slice(&sig);
                        b.extend_from_slice(&tss[ts].to_be_bytes());
                        b.extend_from_slice(&pls[pl]);
                        SignedPacket::from_bytes(&b).expect("authentic packet")
                    };
                    for ta in 0..n {
                        for pa in 0..n {
                            for tb in 0..n {
                                for pb in 0..n {
                                    let (x, y) = (mk(ta, pa), mk(tb, pb));
                                    let newer = vh::io::catch(|| x.more_recent_than(&y));
                                    out.emit(&serde_json::json!({"case": c.id, "ctor": "order",
                                        "a": {"ts": ta + 1, "pl": pa + 1}, "b": {"ts": tb + 1, "pl": pb + 1},
                                        "newer": newer.clone().ok(), "panic": newer.err()}));
                                }
                            }
                        }
                    }
                }
                other => panic!("unknown case kind {other}"),
            }
        }
        out.finish();
    }
}
