//! Conformance drivers for the per-remote state (socket::remote_map) properties.
//! Subcommands: c23 (path pruning), c24 (path selection), c22 (resolve requests), c21 (actor lifecycle)
use std::net::{Ipv4Addr, Ipv6Addr, SocketAddr, SocketAddrV4, SocketAddrV6};

use iroh::verif_hooks_remote as hooks;
use iroh::verif_hooks_remote::VAddr;
use iroh_base::{CustomAddr, EndpointId, RelayUrl, SecretKey};
use serde::{Deserialize, Serialize};
use vh::io::{Args, NdjsonOut, read_ndjson};

fn main() {
    let args = Args::parse();
    match args.sub.as_str() {
        "c23" => c23::run(&args),
        "c24" => c24::run(&args),
        "c22" => c22::run(&args),
        "c21" => c21::run(&args),
        other => {
            eprintln!("unknown subcommand {other}");
            std::process::exit(2);
        }
    }
}

fn seed() -> u64 {
    std::env::var("VERIF_SEED").ok().and_then(|s| s.parse().ok()).unwrap_or(1)
}

/// splitmix64: the only randomness source of the drivers (seeded by VERIF_SEED).
struct Rng(u64);
impl Rng {
    fn next(&mut self) -> u64 {
        self.0 = self.0.wrapping_add(0x9E37_79B9_7F4A_7C15);
        let mut z = self.0;
        z = (z ^ (z >> 30)).wrapping_mul(0xBF58_476D_1CE4_E5B9);
        z = (z ^ (z >> 27)).wrapping_mul(0x94D0_49BB_1331_11EB);
        z ^ (z >> 31)
    }
    fn below(&mut self, n: u64) -> u64 {
        self.next() % n.max(1)
    }
    fn shuffle<T>(&mut self, v: &mut [T]) {
        for i in (1..v.len()).rev() {
            let j = self.below(i as u64 + 1) as usize;
            v.swap(i, j);
        }
    }
}

fn endpoint_id(n: u64) -> EndpointId {
    let mut b = [0u8; 32];
    b[..8].copy_from_slice(&n.to_le_bytes());
    b[31] = 0x5a;
    SecretKey::from_bytes(&b).public()
}

/// Concretisation table: abstract path id -> address.  Non-relay ids rotate over the three
/// non-relay address kinds (IPv4, IPv6, custom transport); relay ids get a relay URL.
fn addr_for(id: u64, relay: bool) -> VAddr {
    if relay {
        let url: RelayUrl = format!("https://relay{id}.verif.test").parse().expect("relay url");
        return VAddr::Relay(url, endpoint_id(7));
    }
    let port = 1000 + id as u16;
    match id % 3 {
        0 => VAddr::Ip(SocketAddr::V4(SocketAddrV4::new(Ipv4Addr::new(10, 1, (id >> 8) as u8, id as u8), port))),
        1 => VAddr::Ip(SocketAddr::V6(SocketAddrV6::new(Ipv6Addr::new(0xfd00, 0, 0, 0, 0, 0, 1, id as u16), port, 0, 0))),
        _ => VAddr::Custom(CustomAddr::from_parts(42, &id.to_be_bytes())),
    }
}

/// C23: run the real prune_non_relay_paths on TLC-generated path sets (specs/socket/Gen_PathPrune.tla).
mod c23 {
    use std::collections::HashMap;

    use super::*;
    use hooks::VPathStatus;

    #[derive(Deserialize, Serialize, Clone)]
    struct P {
        id: u64,
        relay: bool,
        st: String,
        t: u64,
    }
    #[derive(Deserialize)]
    struct Case {
        case: u64,
        /// "fn": call prune_non_relay_paths on a map built directly;
        /// "state": build a RemotePathState through its API and call prune_paths().
        via: String,
        paths: Vec<P>,
    }
    #[derive(Serialize)]
    struct Obs {
        case: u64,
        via: String,
        paths: Vec<P>,
        kept: Vec<u64>,
        panic: Option<String>,
        limits: (usize, usize),
    }

    fn status(p: &P, unit_ms: u64) -> VPathStatus {
        match p.st.as_str() {
            "open" => VPathStatus::Open,
            "unknown" => VPathStatus::Unknown,
            "unusable" => VPathStatus::Unusable,
            "inactive" => VPathStatus::Inactive(p.t * unit_ms),
            other => panic!("unknown status {other}"),
        }
    }

    fn exec(c: &Case, rng: &mut Rng) -> Vec<u64> {
        // close-time unit: 1 ms .. 1 s per model tick (ties in the model stay ties)
        let unit_ms = [1u64, 7, 1000][rng.below(3) as usize];
        let mut input: Vec<(VAddr, VPathStatus, u64)> =
            c.paths.iter().map(|p| (addr_for(p.id, p.relay), status(p, unit_ms), p.id)).collect();
        rng.shuffle(&mut input);
        let back: HashMap<VAddr, u64> = input.iter().map(|(a, _, id)| (a.clone(), *id)).collect();
        assert_eq!(back.len(), input.len(), "concretisation must be injective");
        let kept: Vec<VAddr> = match c.via.as_str() {
            "fn" => {
                let v: Vec<(VAddr, VPathStatus)> = input.iter().map(|(a, s, _)| (a.clone(), *s)).collect();
                hooks::prune_non_relay_paths(&v)
            }
            "state" => {
                let mut st = hooks::VRemotePathState::new();
                let addrs: Vec<VAddr> = input.iter().map(|(a, _, _)| a.clone()).collect();
                st.insert_multiple(&addrs); // all Unknown: pruning (run inside) must keep every one
                for (a, s, _) in &input {
                    st.set_status(a, *s);
                }
                st.prune_paths();
                st.snapshot().into_iter().map(|(a, _)| a).collect()
            }
            other => panic!("unknown via {other}"),
        };
        let mut ids: Vec<u64> = kept
            .iter()
            .map(|a| *back.get(a).unwrap_or(&999_999)) // an address that was never in the input
            .collect();
        ids.sort();
        ids
    }

    pub fn run(args: &Args) {
        let cases: Vec<Case> = read_ndjson(&args.path("in"));
        let mut out = NdjsonOut::create(&args.path("out"));
        let mut rng = Rng(seed());
        for c in &cases {
            let r = vh::io::catch(|| exec(c, &mut rng));
            let (kept, panic) = match r {
                Ok(k) => (k, None),
                Err(p) => (vec![], Some(p)),
            };
            out.emit(&Obs { case: c.case, via: c.via.clone(), paths: c.paths.clone(), kept, panic, limits: hooks::prune_limits() });
        }
        out.finish();
    }
}

/// Concretisation of the named addresses of specs/socket/PathSelect.tla: the first two letters give
/// the kind (v4, v6, rl = relay, cu = custom transport), the third an index.
fn named_addr(name: &str) -> VAddr {
    let idx = (name.as_bytes()[2] - b'a') as u16 + 1;
    match &name[..2] {
        "v4" => VAddr::Ip(SocketAddr::V4(SocketAddrV4::new(Ipv4Addr::new(192, 0, 2, idx as u8), 4000 + idx))),
        "v6" => VAddr::Ip(SocketAddr::V6(SocketAddrV6::new(Ipv6Addr::new(0x2001, 0xdb8, 0, 0, 0, 0, 0, idx), 6000 + idx, 0, 0))),
        "rl" => VAddr::Relay(format!("https://relay{idx}.verif.test").parse().expect("relay url"), endpoint_id(9)),
        "cu" => VAddr::Custom(CustomAddr::from_parts(7, &[idx as u8, 1, 2, 3])),
        other => panic!("unknown address kind {other}"),
    }
}

/// C24: run the real BiasedRttPathSelector::select (and RemoteStateActor::select_path's glue) on the
/// cases enumerated by TLC from specs/socket/PathSelect.tla.
mod c24 {
    use std::{collections::HashMap, time::Duration};

    use super::*;

    #[derive(Deserialize)]
    struct Cand {
        addr: String,
        rtt: u64,
    }
    #[derive(Deserialize)]
    struct Case {
        case: u64,
        cs: Vec<Cand>,
        cur: String,
        /// nanoseconds per model time unit
        unit_ns: u64,
        /// the rtt value that stands for "stats cannot be read"
        nostats: u64,
    }
    #[derive(Serialize)]
    struct Obs {
        case: u64,
        /// "keep" or an address name
        out: String,
        /// selected path after select_path() with that selector output ("none" if there is none)
        applied: String,
        /// selected path after select_path() on an actor without connections (default selector)
        applied_empty: String,
        panic: Option<String>,
    }

    fn exec(c: &Case) -> (String, String, String) {
        let mut names: HashMap<VAddr, String> = HashMap::new();
        let mut name_of = |n: &str| {
            let a = named_addr(n);
            names.insert(a.clone(), n.to_string());
            a
        };
        let cands: Vec<(VAddr, Option<Duration>)> = c
            .cs
            .iter()
            .map(|x| (name_of(&x.addr), if x.rtt == c.nostats { None } else { Some(Duration::from_nanos(x.rtt * c.unit_ns)) }))
            .collect();
        let cur = if c.cur == "none" { None } else { Some(name_of(&c.cur)) };
        let back = |a: Option<VAddr>, none: &str| match a {
            None => none.to_string(),
            Some(a) => names.get(&a).cloned().unwrap_or_else(|| "UNKNOWN".to_string()),
        };
        let picked = hooks::biased_rtt_select(cur.as_ref(), &cands);
        let applied = hooks::select_path_step(cur.as_ref(), Some(picked.as_ref()));
        let applied_empty = hooks::select_path_step(cur.as_ref(), None);
        (back(picked, "keep"), back(applied, "none"), back(applied_empty, "none"))
    }

    pub fn run(args: &Args) {
        let cases: Vec<Case> = read_ndjson(&args.path("in"));
        let mut out = NdjsonOut::create(&args.path("out"));
        for c in &cases {
            let obs = match vh::io::catch(|| exec(c)) {
                Ok((o, a, e)) => Obs { case: c.case, out: o, applied: a, applied_empty: e, panic: None },
                Err(p) => Obs { case: c.case, out: String::new(), applied: String::new(), applied_empty: String::new(), panic: Some(p) },
            };
            out.emit(&obs);
        }
        out.finish();
    }
}

/// A lookup service whose result streams are fed by the harness: every `resolve` call opens a new
/// stream; items are pushed and the stream is ended on command.
mod scripted {
    use std::sync::{Arc, Mutex};

    use iroh::address_lookup::{AddressLookup, Error as LookupError, Item};
    use iroh::endpoint_info::{EndpointData, EndpointInfo};
    use iroh_base::{EndpointId, TransportAddr};
    use n0_future::boxed::BoxStream;
    use tokio::sync::mpsc;

    type Tx = mpsc::UnboundedSender<Result<Item, LookupError>>;

    #[derive(Debug, Clone, Default)]
    pub struct Scripted {
        /// (remote, sender) of every resolve call, in call order; `None` once ended by the harness
        calls: Arc<Mutex<Vec<(EndpointId, Option<Tx>)>>>,
    }

    impl AddressLookup for Scripted {
        fn resolve(&self, endpoint_id: EndpointId) -> Option<BoxStream<Result<Item, LookupError>>> {
            let (tx, rx) = mpsc::unbounded_channel();
            self.calls.lock().unwrap().push((endpoint_id, Some(tx)));
            let s = futures_util::stream::unfold(rx, |mut rx| async move { rx.recv().await.map(|x| (x, rx)) });
            Some(Box::pin(s))
        }
    }

    impl Scripted {
        /// Is a stream for `id` open (started by the actor, not ended by us, still held by the actor)?
        pub fn running(&self, id: &EndpointId) -> bool {
            self.calls.lock().unwrap().iter().any(|(r, tx)| r == id && tx.as_ref().is_some_and(|t| !t.is_closed()))
        }
        pub fn push_item(&self, id: &EndpointId, addrs: Vec<TransportAddr>) -> bool {
            let g = self.calls.lock().unwrap();
            for (r, tx) in g.iter().rev() {
                if r == id {
                    if let Some(tx) = tx {
                        let item = Item::new(EndpointInfo::from_parts(*id, EndpointData::new(addrs)), "verif", None);
                        return tx.send(Ok(item)).is_ok();
                    }
                }
            }
            false
        }
        /// Ends the newest open stream for `id`.
        pub fn end(&self, id: &EndpointId) -> bool {
            let mut g = self.calls.lock().unwrap();
            for (r, tx) in g.iter_mut().rev() {
                if r == id && tx.is_some() {
                    let open = tx.as_ref().is_some_and(|t| !t.is_closed());
                    *tx = None;
                    return open;
                }
            }
            false
        }
        pub fn end_all(&self) {
            for (_, tx) in self.calls.lock().unwrap().iter_mut() {
                *tx = None;
            }
        }
    }
}

async fn settle() {
    for _ in 0..64 {
        tokio::task::yield_now().await;
    }
}

fn reply_name(r: hooks::VReply) -> &'static str {
    match r {
        hooks::VReply::Pending => "pending",
        hooks::VReply::Ok => "ok",
        hooks::VReply::ErrNoResults => "noresults",
        hooks::VReply::ErrNoService => "noservice",
        hooks::VReply::ErrOther => "err_other",
        hooks::VReply::Dropped => "dropped",
    }
}

/// C22: replay histories of specs/socket/PathState.tla on the real RemotePathState ("state") and on a
/// real RemoteStateActor behind a RemoteMap with a scripted lookup service ("actor").
mod c22 {
    use std::time::Duration;

    use iroh::address_lookup::AddressLookupServices;
    use iroh_base::{EndpointAddr, TransportAddr};

    use super::*;
    use hooks::{VLookupEnd, VRemotePathState, VResolveRx};

    #[derive(Deserialize)]
    struct Step {
        op: String,
        addrs: Vec<u64>,
        addr: u64,
        how: String,
    }
    #[derive(Deserialize)]
    struct Behaviour {
        case: u64,
        level: String,
        services: bool,
        /// real addresses per model address (state level)
        scale: u64,
        /// model addresses above this number are relay addresses
        nonrelay: u64,
        steps: Vec<Step>,
    }
    #[derive(Serialize, Default)]
    struct Ans {
        id: u64,
        res: String,
    }
    #[derive(Serialize, Default)]
    struct StepObs {
        answers: Vec<Ans>,
        empty: bool,
        npending: usize,
        lookup_running: bool,
        note: String,
        /// state level: number of paths per class after the step [open, unknown, unusable, inactive, relay]
        counts: [usize; 5],
    }
    #[derive(Serialize)]
    struct Obs {
        case: u64,
        steps: Vec<StepObs>,
        panic: Option<String>,
    }

    fn block(b: &Behaviour, a: u64) -> Vec<VAddr> {
        if a > b.nonrelay {
            vec![addr_for(400 + a, true)]
        } else {
            (0..b.scale).map(|j| addr_for(a * 100 + j, false)).collect()
        }
    }

    fn poll_new(rxs: &mut Vec<(u64, Option<VResolveRx>)>) -> Vec<Ans> {
        let mut out = vec![];
        for (id, rx) in rxs.iter_mut() {
            if let Some(r) = rx {
                let v = r.poll();
                if v != hooks::VReply::Pending {
                    out.push(Ans { id: *id, res: reply_name(v).to_string() });
                    *rx = None;
                }
            }
        }
        out
    }

    async fn state_level(b: &Behaviour) -> Vec<StepObs> {
        let mut st = VRemotePathState::new();
        let mut rxs: Vec<(u64, Option<VResolveRx>)> = vec![];
        let mut out = vec![];
        for s in &b.steps {
            let all = |set: &Vec<u64>| set.iter().flat_map(|a| block(b, *a)).collect::<Vec<_>>();
            match s.op.as_str() {
                "resolve" => {
                    // State::handle_msg_resolve_remote: insert_multiple, then resolve_remote
                    st.insert_multiple(&all(&s.addrs));
                    let rx = st.resolve_remote();
                    rxs.push((rxs.len() as u64 + 1, Some(rx)));
                }
                "item" => st.insert_multiple(&all(&s.addrs)),
                "end" => st.address_lookup_finished(match s.how.as_str() {
                    "ok" => VLookupEnd::Ok,
                    "noresults" => VLookupEnd::NoResults,
                    "noservice" => VLookupEnd::NoService,
                    other => panic!("unknown end {other}"),
                }),
                "open" => {
                    for a in block(b, s.addr) {
                        st.insert_open_path(&a);
                    }
                }
                "abandon" => {
                    tokio::time::advance(Duration::from_secs(1)).await;
                    for a in block(b, s.addr) {
                        st.abandoned_path(&a);
                    }
                }
                "select" | "deselect" => {}
                other => panic!("unknown op {other}"),
            }
            let mut counts = [0usize; 5];
            for (a, status) in st.snapshot() {
                let k = match (matches!(a, VAddr::Relay(..)), status) {
                    (true, _) => 4,
                    (false, hooks::VPathStatus::Open) => 0,
                    (false, hooks::VPathStatus::Unknown) => 1,
                    (false, hooks::VPathStatus::Unusable) => 2,
                    (false, hooks::VPathStatus::Inactive(_)) => 3,
                };
                counts[k] += 1;
            }
            out.push(StepObs { answers: poll_new(&mut rxs), empty: st.is_empty(), npending: st.pending_len(), lookup_running: false, note: String::new(), counts });
        }
        out
    }

    fn transport(a: u64, b: &Behaviour) -> TransportAddr {
        if a > b.nonrelay {
            TransportAddr::Relay(format!("https://relay{a}.verif.test").parse().expect("url"))
        } else {
            TransportAddr::Ip(SocketAddr::V4(SocketAddrV4::new(Ipv4Addr::new(10, 2, 0, a as u8), 7000 + a as u16)))
        }
    }

    async fn actor_level(b: &Behaviour) -> Vec<StepObs> {
        let services = AddressLookupServices::default();
        let script = scripted::Scripted::default();
        if b.services {
            services.add(script.clone());
        }
        let mut map = hooks::VRemoteMap::new(services);
        let remote = endpoint_id(1);
        let mut rxs: Vec<(u64, Option<VResolveRx>)> = vec![];
        let mut out = vec![];
        for s in &b.steps {
            let mut note = String::new();
            match s.op.as_str() {
                "resolve" => {
                    let addrs: Vec<TransportAddr> = s.addrs.iter().map(|a| transport(*a, b)).collect();
                    let rx = map.resolve_remote(EndpointAddr::from_parts(remote, addrs)).await;
                    rxs.push((rxs.len() as u64 + 1, Some(rx)));
                }
                "item" => {
                    let addrs: Vec<TransportAddr> = s.addrs.iter().map(|a| transport(*a, b)).collect();
                    if !script.push_item(&remote, addrs) {
                        note = "no lookup stream to push the item into".into();
                    }
                }
                "end" => {
                    if s.how != "noservice" && !script.end(&remote) {
                        note = "no lookup stream to end".into();
                    }
                }
                other => panic!("op {other} cannot be driven at actor level"),
            }
            settle().await;
            out.push(StepObs {
                answers: poll_new(&mut rxs),
                empty: false,
                npending: rxs.iter().filter(|(_, r)| r.is_some()).count(),
                lookup_running: script.running(&remote),
                note,
                counts: [0; 5],
            });
        }
        out
    }

    pub fn run(args: &Args) {
        let cases: Vec<Behaviour> = read_ndjson(&args.path("in"));
        let mut out = NdjsonOut::create(&args.path("out"));
        for b in &cases {
            let r = vh::io::catch(|| {
                let rt = tokio::runtime::Builder::new_current_thread().enable_time().start_paused(true).build().unwrap();
                rt.block_on(async {
                    match b.level.as_str() {
                        "state" => state_level(b).await,
                        "actor" => actor_level(b).await,
                        other => panic!("unknown level {other}"),
                    }
                })
            });
            match r {
                Ok(steps) => out.emit(&Obs { case: b.case, steps, panic: None }),
                Err(p) => out.emit(&Obs { case: b.case, steps: vec![], panic: Some(p) }),
            }
        }
        out.finish();
    }
}

/// C21: drive a real RemoteMap (and its RemoteStateActors) with scripted operations under tokio's
/// paused clock; the event log (hook events + harness events, one sequence) is the trace that
/// specs/socket/Trace_RemoteMap.tla validates.
mod c21 {
    use std::{collections::HashMap, time::Duration};

    use iroh::address_lookup::AddressLookupServices;
    use iroh_base::{EndpointAddr, TransportAddr};
    use iroh_dns::verif;
    use serde_json::{Value, json};

    use super::*;
    use hooks::{VInfoRx, VResolveRx, VSender};

    #[derive(Deserialize)]
    struct Op {
        op: String,
        #[serde(default)]
        r: u64,
        #[serde(default)]
        tag: u64,
        #[serde(default)]
        ms: u64,
    }
    #[derive(Deserialize)]
    struct Script {
        case: u64,
        /// "none": no lookup service configured; "scripted": a harness-fed service
        services: String,
        ops: Vec<Op>,
    }
    #[derive(Serialize)]
    struct Obs {
        case: u64,
        events: Vec<Value>,
        panic: Option<String>,
        hung: bool,
    }

    enum Rx {
        Resolve(VResolveRx),
        Info(VInfoRx),
    }

    fn hev(label: &str, fields: &[(&str, String)]) {
        verif::event(label, fields);
    }

    struct Driver {
        map: hooks::VRemoteMap,
        script: scripted::Scripted,
        ids: Vec<EndpointId>,
        next_m: u64,
        rxs: Vec<(u64, Option<Rx>)>,
        held: Option<(VSender, u64)>,
    }

    impl Driver {
        fn poll_replies(&mut self) {
            for (m, rx) in self.rxs.iter_mut() {
                let res = match rx {
                    None => continue,
                    Some(Rx::Resolve(r)) => match r.poll() {
                        hooks::VReply::Pending => continue,
                        v => reply_name(v).to_string(),
                    },
                    Some(Rx::Info(r)) => match r.poll() {
                        Ok(None) => continue,
                        Ok(Some(_)) => "ok".to_string(),
                        Err(()) => "dropped".to_string(),
                    },
                };
                *rx = None;
                hev("reply", &[("m", m.to_string()), ("res", res)]);
            }
        }

        async fn step(&mut self, op: &Op) {
            let rid = |r: u64, ids: &Vec<EndpointId>| ids[(r as usize - 1) % ids.len()];
            match op.op.as_str() {
                "resolve" => {
                    let id = rid(op.r, &self.ids);
                    self.next_m += 1;
                    let m = self.next_m;
                    let addrs: Vec<TransportAddr> = if op.tag > 0 {
                        vec![TransportAddr::Ip(SocketAddr::V4(SocketAddrV4::new(Ipv4Addr::LOCALHOST, 10_000 + m as u16)))]
                    } else {
                        vec![]
                    };
                    let tag = if op.tag > 0 { 10_000 + m } else { 0 };
                    hev("sa_begin", &[("r", format!("r{}", op.r)), ("m", m.to_string()), ("kind", "resolve".into()), ("tag", tag.to_string())]);
                    let rx = self.map.resolve_remote(EndpointAddr::from_parts(id, addrs)).await;
                    hev("sa_end", &[("m", m.to_string())]);
                    self.rxs.push((m, Some(Rx::Resolve(rx))));
                }
                "ts_lookup" => {
                    let id = rid(op.r, &self.ids);
                    match self.map.sender(&id) {
                        Some(s) => {
                            self.next_m += 1;
                            self.held = Some((s, self.next_m));
                            hev("ts_lookup", &[("r", format!("r{}", op.r)), ("m", self.next_m.to_string()), ("found", "1".into())]);
                        }
                        None => hev("ts_lookup", &[("r", format!("r{}", op.r)), ("m", "0".into()), ("found", "0".into())]),
                    }
                }
                "ts_send" => {
                    if let Some((s, m)) = self.held.take() {
                        match s.try_remote_info() {
                            Ok(rx) => {
                                hev("ts_send", &[("m", m.to_string()), ("res", "ok".into())]);
                                self.rxs.push((m, Some(Rx::Info(rx))));
                            }
                            Err(why) => hev("ts_send", &[("m", m.to_string()), ("res", why.to_string())]),
                        }
                    }
                }
                "advance" => {
                    tokio::time::advance(Duration::from_millis(op.ms)).await;
                }
                "settle" => settle().await,
                "cleanup" => {
                    let r = self.map.poll_cleanup();
                    hev("cl_poll", &[("res", r.map(|x| x.to_string()).unwrap_or_else(|| "none".into()))]);
                }
                "arm" => verif::arm(hooks::PAUSE_BEFORE_INBOX_CLOSE, 1),
                "release" => {
                    if verif::arrived(hooks::PAUSE_BEFORE_INBOX_CLOSE) > 0 {
                        verif::release(hooks::PAUSE_BEFORE_INBOX_CLOSE, 1);
                    }
                }
                "cancel" => {
                    hev("cancel", &[]);
                    self.map.cancel();
                }
                "netchange" => {
                    // one NetworkChange message per sender in the map (the model numbers one per remote)
                    hev("net_change", &[]);
                    self.next_m += self.ids.len() as u64;
                    self.map.on_network_change(true);
                }
                "lookup_item" => {
                    let id = rid(op.r, &self.ids);
                    let a = TransportAddr::Ip(SocketAddr::V4(SocketAddrV4::new(Ipv4Addr::new(10, 9, 0, op.r as u8), 9000)));
                    self.script.push_item(&id, vec![a]);
                }
                "lookup_end" => {
                    let id = rid(op.r, &self.ids);
                    self.script.end(&id);
                }
                other => panic!("unknown op {other}"),
            }
            self.poll_replies();
        }

        /// Let everything finish: no held pause, no hanging lookup, all tasks joined.
        async fn quiesce(&mut self) {
            verif::release(hooks::PAUSE_BEFORE_INBOX_CLOSE, 1_000_000);
            for _ in 0..4 {
                settle().await;
                self.script.end_all();
                settle().await;
                while self.map.poll_cleanup().is_some() {}
                settle().await;
                self.poll_replies();
            }
        }
    }

    async fn exec(s: &Script) -> bool {
        let services = AddressLookupServices::default();
        let script = scripted::Scripted::default();
        if s.services == "scripted" {
            services.add(script.clone());
        }
        let ids = vec![endpoint_id(1), endpoint_id(2)];
        let mut d = Driver { map: hooks::VRemoteMap::new(services), script, ids, next_m: 0, rxs: vec![], held: None };
        for op in &s.ops {
            // a hang (e.g. send_to_actor never returning) shows as a virtual-time timeout
            if tokio::time::timeout(Duration::from_secs(100_000), d.step(op)).await.is_err() {
                return true;
            }
        }
        if tokio::time::timeout(Duration::from_secs(100_000), d.quiesce()).await.is_err() {
            return true;
        }
        hev("end", &[]);
        false
    }

    fn normalise(evs: Vec<verif::Event>, names: &HashMap<String, String>) -> Vec<Value> {
        evs.into_iter()
            .map(|e| {
                let mut o = serde_json::Map::new();
                o.insert("ev".into(), json!(e.label.trim_start_matches("rm.")));
                for (k, v) in e.fields {
                    let v = if k == "remote" { names.get(&v).cloned().unwrap_or(v) } else { v };
                    let k = if k == "remote" { "r".to_string() } else { k };
                    match v.parse::<u64>() {
                        Ok(n) if k != "detail" && k != "res" => o.insert(k, json!(n)),
                        _ => o.insert(k, json!(v)),
                    };
                }
                Value::Object(o)
            })
            .collect()
    }

    pub fn run(args: &Args) {
        let cases: Vec<Script> = read_ndjson(&args.path("in"));
        let mut out = NdjsonOut::create(&args.path("out"));
        let names: HashMap<String, String> = (1..=2u64).map(|i| (endpoint_id(i).to_string(), format!("r{i}"))).collect();
        for s in &cases {
            verif::reset();
            verif::clear_gates();
            hooks::reset_actor_instances();
            verif::record(true);
            let r = vh::io::catch(|| {
                let rt = tokio::runtime::Builder::new_current_thread().enable_time().start_paused(true).build().unwrap();
                rt.block_on(exec(s))
                // dropping the runtime aborts the actors of this script
            });
            verif::record(false);
            let events = normalise(verif::take_events(), &names);
            verif::release(hooks::PAUSE_BEFORE_INBOX_CLOSE, 1_000_000);
            match r {
                Ok(hung) => out.emit(&Obs { case: s.case, events, panic: None, hung }),
                Err(p) => out.emit(&Obs { case: s.case, events, panic: Some(p), hung: false }),
            }
        }
        out.finish();
    }
}
