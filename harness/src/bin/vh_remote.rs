//! Conformance drivers for the per-remote state (socket::remote_map) properties.
//! Subcommands: c23 (path pruning), c24 (path selection), c22 (resolve requests), c21 (actor lifecycle)
use std::net::{Ipv4Addr, Ipv6Addr, SocketAddr, SocketAddrV4, SocketAddrV6};

use iroh::verif_hooks_remote as hooks;
use iroh::verif_hooks_remote::VAddr;
use iroh_base::{CustomAddr, EndpointId, RelayUrl, SecretKey};
use serde::{Deserialize, Serialize};
use vh::io::{Args, NdjsonOut, read_ndjson};

fn main() {
    let args = Args::parse();
    match args.sub.as_str() {
        "c23" => c23::run(&args),
        other => {
            eprintln!("unknown subcommand {other}");
            std::process::exit(2);
        }
    }
}

fn seed() -> u64 {
    std::env::var("VERIF_SEED").ok().and_then(|s| s.parse().ok()).unwrap_or(1)
}

/// splitmix64: the only randomness source of the drivers (seeded by VERIF_SEED).
struct Rng(u64);
impl Rng {
    fn next(&mut self) -> u64 {
        self.0 = self.0.wrapping_add(0x9E37_79B9_7F4A_7C15);
        let mut z = self.0;
        z = (z ^ (z >> 30)).wrapping_mul(0xBF58_476D_1CE4_E5B9);
        z = (z ^ (z >> 27)).wrapping_mul(0x94D0_49BB_1331_11EB);
        z ^ (z >> 31)
    }
    fn below(&mut self, n: u64) -> u64 {
        self.next() % n.max(1)
    }
    fn shuffle<T>(&mut self, v: &mut [T]) {
        for i in (1..v.len()).rev() {
            let j = self.below(i as u64 + 1) as usize;
            v.swap(i, j);
        }
    }
}

fn endpoint_id(n: u64) -> EndpointId {
    let mut b = [0u8; 32];
    b[..8].copy_from_slice(&n.to_le_bytes());
    b[31] = 0x5a;
    SecretKey::from_bytes(&b).public()
}

/// Concretisation table: abstract path id -> address.  Non-relay ids rotate over the three
/// non-relay address kinds (IPv4, IPv6, custom transport); relay ids get a relay URL.
fn addr_for(id: u64, relay: bool) -> VAddr {
    if relay {
        let url: RelayUrl = format!("https://relay{id}.verif.test").parse().expect("relay url");
        return VAddr::Relay(url, endpoint_id(7));
    }
    let port = 1000 + id as u16;
    match id % 3 {
        0 => VAddr::Ip(SocketAddr::V4(SocketAddrV4::new(Ipv4Addr::new(10, 1, (id >> 8) as u8, id as u8), port))),
        1 => VAddr::Ip(SocketAddr::V6(SocketAddrV6::new(Ipv6Addr::new(0xfd00, 0, 0, 0, 0, 0, 1, id as u16), port, 0, 0))),
        _ => VAddr::Custom(CustomAddr::from_parts(42, &id.to_be_bytes())),
    }
}

/// C23: run the real prune_non_relay_paths on TLC-generated path sets (specs/socket/Gen_PathPrune.tla).
mod c23 {
    use std::collections::HashMap;

    use super::*;
    use hooks::VPathStatus;

    #[derive(Deserialize, Serialize, Clone)]
    struct P {
        id: u64,
        relay: bool,
        st: String,
        t: u64,
    }
    #[derive(Deserialize)]
    struct Case {
        case: u64,
        /// "fn": call prune_non_relay_paths on a map built directly;
        /// "state": build a RemotePathState through its API and call prune_paths().
        via: String,
        paths: Vec<P>,
    }
    #[derive(Serialize)]
    struct Obs {
        case: u64,
        via: String,
        paths: Vec<P>,
        kept: Vec<u64>,
        panic: Option<String>,
        limits: (usize, usize),
    }

    fn status(p: &P, unit_ms: u64) -> VPathStatus {
        match p.st.as_str() {
            "open" => VPathStatus::Open,
            "unknown" => VPathStatus::Unknown,
            "unusable" => VPathStatus::Unusable,
            "inactive" => VPathStatus::Inactive(p.t * unit_ms),
            other => panic!("unknown status {other}"),
        }
    }

    fn exec(c: &Case, rng: &mut Rng) -> Vec<u64> {
        // close-time unit: 1 ms .. 1 s per model tick (ties in the model stay ties)
        let unit_ms = [1u64, 7, 1000][rng.below(3) as usize];
        let mut input: Vec<(VAddr, VPathStatus, u64)> =
            c.paths.iter().map(|p| (addr_for(p.id, p.relay), status(p, unit_ms), p.id)).collect();
        rng.shuffle(&mut input);
        let back: HashMap<VAddr, u64> = input.iter().map(|(a, _, id)| (a.clone(), *id)).collect();
        assert_eq!(back.len(), input.len(), "concretisation must be injective");
        let kept: Vec<VAddr> = match c.via.as_str() {
            "fn" => {
                let v: Vec<(VAddr, VPathStatus)> = input.iter().map(|(a, s, _)| (a.clone(), *s)).collect();
                hooks::prune_non_relay_paths(&v)
            }
            "state" => {
                let mut st = hooks::VRemotePathState::new();
                let addrs: Vec<VAddr> = input.iter().map(|(a, _, _)| a.clone()).collect();
                st.insert_multiple(&addrs); // all Unknown: pruning (run inside) must keep every one
                for (a, s, _) in &input {
                    st.set_status(a, *s);
                }
                st.prune_paths();
                st.snapshot().into_iter().map(|(a, _)| a).collect()
            }
            other => panic!("unknown via {other}"),
        };
        let mut ids: Vec<u64> = kept
            .iter()
            .map(|a| *back.get(a).unwrap_or(&999_999)) // an address that was never in the input
            .collect();
        ids.sort();
        ids
    }

    pub fn run(args: &Args) {
        let cases: Vec<Case> = read_ndjson(&args.path("in"));
        let mut out = NdjsonOut::create(&args.path("out"));
        let mut rng = Rng(seed());
        for c in &cases {
            let r = vh::io::catch(|| exec(c, &mut rng));
            let (kept, panic) = match r {
                Ok(k) => (k, None),
                Err(p) => (vec![], Some(p)),
            };
            out.emit(&Obs { case: c.case, via: c.via.clone(), paths: c.paths.clone(), kept, panic, limits: hooks::prune_limits() });
        }
        out.finish();
    }
}
