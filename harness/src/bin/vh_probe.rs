fn main() {
    println!("vh ok; iroh_verif={}", cfg!(iroh_verif));
}
