//! Conformance drivers of the netrep group.
//! Subcommands: c27seq, c27merge, c28, c26, c25
use std::{
    net::{Ipv4Addr, Ipv6Addr, SocketAddr},
    time::Duration,
};

use iroh::{
    RelayUrl,
    verif_hooks_netrep::{self as hooks, Probe, RelayLatencies, Report},
};
use serde::{Deserialize, Serialize};
use vh::io::{Args, NdjsonOut, read_ndjson};

fn main() {
    let args = Args::parse();
    match args.sub.as_str() {
        "c27seq" => c27::run_seq(&args),
        "c27merge" => c27::run_merge(&args),
        "c28" => c28::run(&args),
        "c27rounds" => rounds::run(&args),
        "c26" => c26::run(&args),
        "c26sys" => c26sys::run(&args),
        "c25" => c25::run(&args),
        other => {
            eprintln!("unknown subcommand {other}");
            std::process::exit(2);
        }
    }
}

/// Model relay names "r1" < "r2" < "r3" map to URLs with the same order.
fn relay_url(name: &str) -> RelayUrl {
    format!("https://{name}.verif.test/").parse().expect("relay url")
}

fn relay_name(url: &RelayUrl) -> String {
    let s = url.to_string();
    s.trim_start_matches("https://").split('.').next().unwrap_or("?").to_string()
}

fn probe(kind: &str) -> Probe {
    match kind {
        "https" => Probe::Https,
        "qad4" => Probe::QadIpv4,
        "qad6" => Probe::QadIpv6,
        other => panic!("unknown probe kind {other}"),
    }
}

const RELAYS: [&str; 3] = ["r1", "r2", "r3"];

/// All latencies in the order https r1.., qad4 r1.., qad6 r1.. (0 = absent), read through the
/// public `RelayLatencies::iter`.
fn flat(t: &RelayLatencies, nrelays: usize) -> Vec<u64> {
    let mut v = vec![0u64; 3 * nrelays];
    for (p, url, d) in t.iter() {
        let k = match p {
            Probe::Https => 0,
            Probe::QadIpv4 => 1,
            Probe::QadIpv6 => 2,
            _ => panic!("unknown probe"),
        };
        let name = relay_name(url);
        let r = RELAYS.iter().position(|x| *x == name).expect("relay name");
        assert!(r < nrelays, "relay {name} outside the model");
        assert_eq!(d.subsec_nanos(), 0);
        v[k * nrelays + r] = d.as_secs();
    }
    v
}

#[derive(Deserialize, Clone)]
struct Entry {
    kind: String,
    relay: String,
    lat: u64,
}

fn table(entries: &[Entry]) -> RelayLatencies {
    let mut t = RelayLatencies::default();
    for e in entries {
        hooks::latencies_update_relay(&mut t, relay_url(&e.relay), Duration::from_secs(e.lat), probe(&e.kind));
    }
    t
}

#[derive(Serialize)]
struct Obs {
    case: usize,
    ok: bool,
    step: usize,
    what: String,
    exp: String,
    got: String,
}

impl Obs {
    fn ok(case: usize) -> Self {
        Obs { case, ok: true, step: 0, what: String::new(), exp: String::new(), got: String::new() }
    }
    fn bad(case: usize, step: usize, what: &str, exp: impl ToString, got: impl ToString) -> Self {
        Obs { case, ok: false, step, what: what.to_string(), exp: exp.to_string(), got: got.to_string() }
    }
}

/// C27: replay probe-report sequences (specs/netreport/NetReport.tla, Update) on `Report::update`
/// and table pairs (specs/netreport/RelayLatencies.tla) on `RelayLatencies::{update_relay,merge,get}`.
mod c27 {
    use super::*;

    #[derive(Deserialize)]
    pub(super) struct P {
        kind: String,
        relay: String,
        lat: u64,
        fam: String,
        addr: String,
    }
    #[derive(Deserialize)]
    pub(super) struct Exp {
        udp4: bool,
        udp6: bool,
        var4: String,
        var6: String,
        glob4: String,
        glob6: String,
        lat: Vec<u64>,
    }
    #[derive(Deserialize)]
    pub(super) struct Step {
        p: P,
        pub(super) exp: Exp,
    }
    #[derive(Deserialize)]
    struct Case {
        steps: Vec<Step>,
    }

    fn port(addr: &str) -> (u8, u16) {
        match addr {
            "a" => (1, 4001),
            "b" => (2, 4002),
            "c" => (3, 4003),
            _ => (9, 4009),
        }
    }
    fn sock_addr(fam: &str, addr: &str) -> SocketAddr {
        let (h, p) = port(addr);
        match fam {
            "v6" => SocketAddr::new(Ipv6Addr::new(0x2001, 0xdb8, 0, 0, 0, 0, 0, h as u16).into(), p),
            _ => SocketAddr::new(Ipv4Addr::new(203, 0, 113, h).into(), p),
        }
    }
    pub(super) fn tri(v: Option<bool>) -> &'static str {
        match v {
            None => "none",
            Some(true) => "true",
            Some(false) => "false",
        }
    }
    fn addr_name(a: Option<SocketAddr>, fam: &str) -> String {
        match a {
            None => "none".into(),
            Some(a) => ["a", "b", "c"]
                .iter()
                .find(|n| sock_addr(fam, n) == a)
                .map(|n| n.to_string())
                .unwrap_or_else(|| a.to_string()),
        }
    }

    /// `Report::update` with the probe report of a model step.
    pub(super) fn apply(r: &mut Report, s: &Step) {
        hooks::report_update(
            r,
            probe(&s.p.kind),
            relay_url(&s.p.relay),
            Duration::from_secs(s.p.lat),
            sock_addr(&s.p.fam, &s.p.addr),
        );
    }

    /// Compares the public fields of a report with the model's (what, expected, got).
    pub(super) fn compare(r: &Report, e: &Exp, with_varies: bool) -> Result<(), (String, String, String)> {
        let nrel = e.lat.len() / 3;
        let bad = |what: &str, exp: String, got: String| Err((what.to_string(), exp, got));
        if r.udp_v4 != e.udp4 {
            return bad("udp_v4", e.udp4.to_string(), r.udp_v4.to_string());
        }
        if r.udp_v6 != e.udp6 {
            return bad("udp_v6", e.udp6.to_string(), r.udp_v6.to_string());
        }
        let g4 = addr_name(r.global_v4.map(SocketAddr::V4), "v4");
        if g4 != e.glob4 {
            return bad("global_v4", e.glob4.clone(), g4);
        }
        let g6 = addr_name(r.global_v6.map(SocketAddr::V6), "v6");
        if g6 != e.glob6 {
            return bad("global_v6", e.glob6.clone(), g6);
        }
        if with_varies && tri(r.mapping_varies_by_dest_ipv4) != e.var4 {
            return bad("mapping_varies_ipv4", e.var4.clone(), tri(r.mapping_varies_by_dest_ipv4).to_string());
        }
        if with_varies && tri(r.mapping_varies_by_dest_ipv6) != e.var6 {
            return bad("mapping_varies_ipv6", e.var6.clone(), tri(r.mapping_varies_by_dest_ipv6).to_string());
        }
        let f = flat(&r.relay_latency, nrel);
        if f != e.lat {
            return bad("relay_latency", format!("{:?}", e.lat), format!("{f:?}"));
        }
        Ok(())
    }

    fn replay(case: usize, c: &Case) -> Obs {
        let mut r = Report::default();
        for (i, s) in c.steps.iter().enumerate() {
            apply(&mut r, s);
            if let Err((what, exp, got)) = compare(&r, &s.exp, true) {
                return Obs::bad(case, i, &what, exp, got);
            }
            if r.preferred_relay.is_some() || r.captive_portal.is_some() {
                return Obs::bad(case, i, "untouched_fields", "none", "set");
            }
        }
        Obs::ok(case)
    }

    pub fn run_seq(args: &Args) {
        let cases: Vec<Case> = read_ndjson(&args.path("in"));
        let mut out = NdjsonOut::create(&args.path("out"));
        for (i, c) in cases.iter().enumerate() {
            let obs = match vh::io::catch(|| replay(i, c)) {
                Ok(o) => o,
                Err(p) => Obs::bad(i, 0, "panic", "no panic", p),
            };
            out.emit(&obs);
        }
        out.finish();
    }

    #[derive(Deserialize)]
    struct MergeCase {
        a: Vec<Entry>,
        b: Vec<Entry>,
        merged: Vec<u64>,
        get: Vec<u64>,
    }

    fn replay_merge(case: usize, c: &MergeCase) -> Obs {
        let nrel = c.merged.len() / 3;
        let a = table(&c.a);
        let b = table(&c.b);
        let mut ab = a.clone();
        hooks::latencies_merge(&mut ab, &b);
        let mut ba = b.clone();
        hooks::latencies_merge(&mut ba, &a);
        let f = flat(&ab, nrel);
        if f != c.merged {
            return Obs::bad(case, 0, "merge(a,b)", format!("{:?}", c.merged), format!("{f:?}"));
        }
        let f = flat(&ba, nrel);
        if f != c.merged {
            return Obs::bad(case, 1, "merge(b,a)", format!("{:?}", c.merged), format!("{f:?}"));
        }
        if ab != ba {
            return Obs::bad(case, 2, "merge commutes (Eq)", "equal", "different");
        }
        let mut aa = a.clone();
        hooks::latencies_merge(&mut aa, &a);
        if aa != a {
            return Obs::bad(case, 3, "merge(a,a)", "a", format!("{:?}", flat(&aa, nrel)));
        }
        let mut abb = ab.clone();
        hooks::latencies_merge(&mut abb, &b);
        if abb != ab {
            return Obs::bad(case, 4, "merge(merge(a,b),b)", "merge(a,b)", format!("{:?}", flat(&abb, nrel)));
        }
        for (i, want) in c.get.iter().enumerate() {
            let got = hooks::latencies_get(&ab, &relay_url(RELAYS[i])).map(|d| d.as_secs()).unwrap_or(0);
            if got != *want {
                return Obs::bad(case, 5 + i, "get(merged, relay)", want, got);
            }
        }
        Obs::ok(case)
    }

    pub fn run_merge(args: &Args) {
        let cases: Vec<MergeCase> = read_ndjson(&args.path("in"));
        let mut out = NdjsonOut::create(&args.path("out"));
        for (i, c) in cases.iter().enumerate() {
            let obs = match vh::io::catch(|| replay_merge(i, c)) {
                Ok(o) => o,
                Err(p) => Obs::bad(i, 0, "panic", "no panic", p),
            };
            out.emit(&obs);
        }
        out.finish();
    }
}

/// C28: replay report histories (specs/netreport/NetReport.tla, Finish) on
/// `Client::add_report_history_and_set_preferred_relay` under tokio's paused clock.
mod c28 {
    use super::*;

    #[derive(Deserialize)]
    struct Round {
        dt: u64,
        lat: Vec<Entry>,
    }
    #[derive(Deserialize)]
    struct Case {
        rounds: Vec<Round>,
    }
    #[derive(Serialize)]
    struct Out {
        case: usize,
        /// preferred relay after each round ("none" if unset)
        got: Vec<String>,
        /// history length after each round
        nprev: Vec<usize>,
        panic: Option<String>,
    }

    async fn replay(c: &Case, tls: rustls::ClientConfig) -> (Vec<String>, Vec<usize>) {
        let mut h = hooks::ReportHistory::new(tls);
        let mut got = Vec::new();
        let mut nprev = Vec::new();
        for round in &c.rounds {
            tokio::time::advance(Duration::from_secs(round.dt)).await;
            let mut r = Report::default();
            r.relay_latency = table(&round.lat);
            h.add_report_and_set_preferred_relay(&mut r);
            got.push(r.preferred_relay.as_ref().map(relay_name).unwrap_or_else(|| "none".into()));
            nprev.push(h.len());
        }
        (got, nprev)
    }

    pub fn run(args: &Args) {
        let cases: Vec<Case> = read_ndjson(&args.path("in"));
        let mut out = NdjsonOut::create(&args.path("out"));
        let tls = iroh_relay::tls::CaTlsConfig::insecure_skip_verify()
            .client_config(iroh_relay::tls::default_provider())
            .expect("tls config");
        let rt = tokio::runtime::Builder::new_current_thread().enable_all().start_paused(true).build().unwrap();
        for (case, c) in cases.iter().enumerate() {
            let r = vh::io::catch(|| rt.block_on(replay(c, tls.clone())));
            let o = match r {
                Ok((got, nprev)) => Out { case, got, nprev, panic: None },
                Err(p) => Out { case, got: vec![], nprev: vec![], panic: Some(p) },
            };
            out.emit(&o);
        }
        out.finish();
    }
}

/// C27 + C28 pipeline: rounds of probe reports folded with `Report::update`, each finished with
/// `add_report_history_and_set_preferred_relay` under the paused clock
/// (specs/netreport/NetReport.tla, NetReport_Rounds.cfg).
mod rounds {
    use super::*;

    #[derive(Deserialize)]
    struct Round {
        dt: u64,
        probes: Vec<c27::Step>,
        agg: c27::Exp,
        var4: String,
        var6: String,
    }
    #[derive(Deserialize)]
    struct Case {
        rounds: Vec<Round>,
    }
    #[derive(Serialize, Default)]
    struct Out {
        case: usize,
        ok: bool,
        round: usize,
        step: usize,
        what: String,
        exp: String,
        got: String,
        /// preferred relay after each finished round
        prefs: Vec<String>,
        /// mapping_varies (v4, v6) after each finished round, and what the model inherits
        varies: Vec<(String, String)>,
        nprev: Vec<usize>,
    }

    async fn replay(case: usize, c: &Case, tls: rustls::ClientConfig) -> Out {
        let mut h = hooks::ReportHistory::new(tls);
        let mut o = Out { case, ok: true, ..Default::default() };
        for (ri, round) in c.rounds.iter().enumerate() {
            let mut r = Report::default();
            for (i, s) in round.probes.iter().enumerate() {
                c27::apply(&mut r, s);
                if let Err((what, exp, got)) = c27::compare(&r, &s.exp, true) {
                    return Out { ok: false, round: ri, step: i, what, exp, got, ..o };
                }
            }
            tokio::time::advance(Duration::from_secs(round.dt)).await;
            h.add_report_and_set_preferred_relay(&mut r);
            // finishing the report must leave what was aggregated alone (mapping_varies may be inherited)
            if let Err((what, exp, got)) = c27::compare(&r, &round.agg, false) {
                return Out { ok: false, round: ri, step: round.probes.len(), what: format!("after finish: {what}"), exp, got, ..o };
            }
            o.prefs.push(r.preferred_relay.as_ref().map(relay_name).unwrap_or_else(|| "none".into()));
            o.varies.push((c27::tri(r.mapping_varies_by_dest_ipv4).to_string(), c27::tri(r.mapping_varies_by_dest_ipv6).to_string()));
            o.nprev.push(h.len());
            let _ = (&round.var4, &round.var6);
        }
        o
    }

    pub fn run(args: &Args) {
        let cases: Vec<Case> = read_ndjson(&args.path("in"));
        let mut out = NdjsonOut::create(&args.path("out"));
        let tls = iroh_relay::tls::CaTlsConfig::insecure_skip_verify()
            .client_config(iroh_relay::tls::default_provider())
            .expect("tls config");
        let rt = tokio::runtime::Builder::new_current_thread().enable_all().start_paused(true).build().unwrap();
        for (case, c) in cases.iter().enumerate() {
            let o = match vh::io::catch(|| rt.block_on(replay(case, c, tls.clone()))) {
                Ok(o) => o,
                Err(p) => Out { case, ok: false, what: "panic".into(), exp: "no panic".into(), got: p, ..Default::default() },
            };
            out.emit(&o);
        }
        out.finish();
    }
}

/// C26: force words of specs/socket/HomeRelay.tla (get-then-set structure) on a real
/// `HomeRelayWatch` with one real thread per actor; the pause point between the read and the
/// write of `set_status` is used to hold an actor in between.  Output: per word the events
/// recorded by the hooks, in the order in which they happened.
mod c26 {
    use std::{
        collections::HashMap,
        sync::mpsc::{Receiver, RecvTimeoutError, Sender, channel},
        thread,
    };

    use hooks::{HomeRelay, HomeRelayState};
    use iroh_dns::verif;

    use super::*;

    #[derive(Deserialize)]
    struct Step {
        op: String,
        url: String,
        state: String,
    }
    #[derive(Deserialize)]
    struct Case {
        word: Vec<Step>,
    }
    #[derive(Serialize, Clone)]
    struct Ev {
        ev: String,
        url: String,
        want: String,
        kind: String,
        home: String,
        state: String,
    }
    #[derive(Serialize)]
    struct Out {
        case: usize,
        events: Vec<Ev>,
        /// steps that did not complete within the blocking bound while another actor was held
        blocked: Vec<usize>,
        /// a call never returned
        hang: bool,
        /// the value seen through `get()` and through a fresh watcher differ
        watcher_differs: bool,
        panic: Option<String>,
    }

    const BLOCK: Duration = Duration::from_millis(120);
    const HANG: Duration = Duration::from_secs(10);

    fn model_url(name: &str) -> RelayUrl {
        format!("https://{name}.verif.test/").parse().expect("url")
    }
    fn name_of(url: &str) -> String {
        if url == "none" || url.is_empty() {
            return "none".into();
        }
        url.trim_start_matches("https://").split('.').next().unwrap_or("?").to_string()
    }
    fn state(s: &str) -> HomeRelayState {
        match s {
            "Connecting" => HomeRelayState::Connecting,
            "Connected" => HomeRelayState::Connected,
            "Disconnected" => HomeRelayState::Disconnected,
            other => panic!("unknown state {other}"),
        }
    }
    fn label(name: &str) -> String {
        format!("c26.set_status.between:{}", model_url(name))
    }

    enum Cmd {
        Set(String),
        Clear,
        Status(String, String),
        Stop,
    }

    struct Worker {
        tx: Sender<Cmd>,
        done: Receiver<()>,
        outstanding: usize,
        handle: Option<thread::JoinHandle<()>>,
    }

    fn spawn_worker(hr: HomeRelay) -> Worker {
        let (tx, rx) = channel::<Cmd>();
        let (dtx, drx) = channel::<()>();
        let handle = thread::spawn(move || {
            while let Ok(cmd) = rx.recv() {
                match cmd {
                    Cmd::Set(u) => hr.set(model_url(&u), HomeRelayState::Connecting),
                    Cmd::Clear => hr.clear(),
                    Cmd::Status(u, s) => hr.set_status(&model_url(&u), state(&s)),
                    Cmd::Stop => break,
                }
                if dtx.send(()).is_err() {
                    break;
                }
            }
        });
        Worker { tx, done: drx, outstanding: 0, handle: Some(handle) }
    }

    impl Worker {
        fn send(&mut self, c: Cmd) {
            self.outstanding += 1;
            self.tx.send(c).expect("worker alive");
        }
        /// Waits for one outstanding call to return.
        fn wait(&mut self, t: Duration) -> bool {
            if self.outstanding == 0 {
                return true;
            }
            match self.done.recv_timeout(t) {
                Ok(()) => {
                    self.outstanding -= 1;
                    true
                }
                Err(RecvTimeoutError::Timeout) => false,
                Err(RecvTimeoutError::Disconnected) => panic!("worker died"),
            }
        }
    }

    struct Rec {
        events: Vec<Ev>,
        /// state the current set_status call of an actor wants to write
        want: HashMap<String, String>,
        /// whether the current call of an actor has passed its read
        has_read: HashMap<String, bool>,
    }

    impl Rec {
        fn drain(&mut self) {
            for e in verif::take_events() {
                let f: HashMap<_, _> = e.fields.iter().cloned().collect();
                let actor = name_of(f.get("actor").map(|s| s.as_str()).unwrap_or(""));
                let home = name_of(f.get("home").map(|s| s.as_str()).unwrap_or("none"));
                let st = f.get("state").cloned().unwrap_or_default();
                let want = self.want.get(&actor).cloned().unwrap_or_default();
                let mut ev = Ev { ev: String::new(), url: actor.clone(), want, kind: String::new(), home: home.clone(), state: st };
                match e.label.as_str() {
                    "c26.set" => {
                        ev.ev = "set".into();
                        ev.url = home;
                    }
                    "c26.clear" => ev.ev = "clear".into(),
                    "c26.read" => {
                        ev.ev = "read".into();
                        self.has_read.insert(actor, true);
                    }
                    "c26.write" => ev.ev = "write".into(),
                    "c26.status_done" => {
                        ev.ev = "done".into();
                        ev.kind = if self.has_read.insert(actor, false) == Some(true) { "write".into() } else { "skip".into() };
                    }
                    _ => continue,
                }
                self.events.push(ev);
            }
        }
    }

    fn force(c: &Case) -> Out {
        verif::reset();
        verif::clear_gates();
        let _ = verif::take_events();
        verif::record(true);
        let hr = HomeRelay::default();
        let mut relay_actor = spawn_worker(hr.clone());
        let mut actors: HashMap<String, Worker> = HashMap::new();
        let mut armed_unused: HashMap<String, bool> = HashMap::new();
        let mut rec = Rec { events: Vec::new(), want: HashMap::new(), has_read: HashMap::new() };
        let mut blocked = Vec::new();
        for (i, s) in c.word.iter().enumerate() {
            match s.op.as_str() {
                "set_home" | "clear" => {
                    relay_actor.send(if s.op == "clear" { Cmd::Clear } else { Cmd::Set(s.url.clone()) });
                    if !relay_actor.wait(BLOCK) {
                        blocked.push(i);
                    }
                }
                "read" | "skip" | "set_status" => {
                    let u = s.url.clone();
                    let w = actors.entry(u.clone()).or_insert_with(|| spawn_worker(hr.clone()));
                    if w.outstanding > 0 && !w.wait(BLOCK) {
                        // the previous call of this actor is still held: cannot start another one
                        blocked.push(i);
                        continue;
                    }
                    rec.drain();
                    let lab = label(&u);
                    if !armed_unused.get(&u).copied().unwrap_or(false) {
                        verif::arm(&lab, 1);
                    }
                    let before = verif::arrived(&lab);
                    rec.want.insert(u.clone(), s.state.clone());
                    w.send(Cmd::Status(u.clone(), s.state.clone()));
                    // wait until the call is held at the pause point, returned, or is blocked
                    let deadline = std::time::Instant::now() + BLOCK;
                    loop {
                        if verif::arrived(&lab) > before {
                            armed_unused.insert(u.clone(), false);
                            break;
                        }
                        if w.wait(Duration::from_millis(1)) {
                            // returned without reaching the pause point: the arm is still pending,
                            // unless the call raced past `arrived` (then it was counted above)
                            armed_unused.insert(u.clone(), verif::arrived(&lab) == before);
                            break;
                        }
                        if std::time::Instant::now() > deadline {
                            blocked.push(i);
                            armed_unused.insert(u.clone(), true);
                            break;
                        }
                    }
                }
                "write" => {
                    let u = s.url.clone();
                    verif::release(&label(&u), 1);
                    if let Some(w) = actors.get_mut(&u) {
                        if !w.wait(BLOCK) {
                            blocked.push(i);
                        }
                    }
                }
                other => panic!("unknown op {other}"),
            }
            rec.drain();
        }
        // let everything that is still held or blocked finish (the event log is kept)
        for u in actors.keys() {
            verif::release(&label(u), 1_000_000);
        }
        let mut hang = false;
        for w in std::iter::once(&mut relay_actor).chain(actors.values_mut()) {
            while w.outstanding > 0 {
                if !w.wait(HANG) {
                    hang = true;
                    break;
                }
            }
        }
        rec.drain();
        let got = hr.get();
        let (home, st) = match &got {
            None => ("none".to_string(), "none".to_string()),
            Some((u, s)) => (name_of(&u.to_string()), format!("{s:?}")),
        };
        let watched = hr.watched_url().map(|u| name_of(&u.to_string())).unwrap_or_else(|| "none".into());
        rec.events.push(Ev { ev: "final".into(), url: String::new(), want: String::new(), kind: String::new(), home: home.clone(), state: st });
        if !hang {
            for w in std::iter::once(&mut relay_actor).chain(actors.values_mut()) {
                let _ = w.tx.send(Cmd::Stop);
                if let Some(h) = w.handle.take() {
                    let _ = h.join();
                }
            }
        }
        verif::record(false);
        verif::clear_gates();
        Out { case: 0, events: rec.events, blocked, hang, watcher_differs: watched != home, panic: None }
    }

    pub fn run(args: &Args) {
        let cases: Vec<Case> = read_ndjson(&args.path("in"));
        let mut out = NdjsonOut::create(&args.path("out"));
        for (case, c) in cases.iter().enumerate() {
            let mut o = match vh::io::catch(|| force(c)) {
                Ok(o) => o,
                Err(p) => Out { case, events: vec![], blocked: vec![], hang: false, watcher_differs: false, panic: Some(p) },
            };
            o.case = case;
            out.emit(&o);
        }
        out.finish();
    }
}

/// C25: drive a real `Endpoint` (relay map -> local test relay) along words of
/// specs/socket/DirectAddrUpdate.tla using the pause points in the run task and in the
/// Actor's done-signal branch, and record what really happened (hook events c25.*, plus the
/// release of the net reporter lock observed through its strong count).
mod c25 {
    use std::{collections::HashMap, sync::Arc, time::Instant};

    use iroh::{Endpoint, RelayConfig, RelayMode, SecretKey, endpoint::presets};
    use iroh_dns::verif;
    use iroh_relay::tls::CaTlsConfig;

    use super::*;

    #[derive(Deserialize)]
    struct Case {
        word: Vec<String>,
    }
    #[derive(Serialize, Clone, Default)]
    struct Ev {
        ev: String,
        lock: String,
        want: bool,
        n: u64,
        runs: u64,
    }
    /// A c26.* event of the live endpoint's HomeRelayWatch (URLs named a, b, .. in order of appearance).
    #[derive(Serialize, Clone, Default)]
    struct HomeEv {
        ev: String,
        url: String,
        home: String,
        state: String,
    }
    #[derive(Serialize, Default)]
    struct Out {
        case: usize,
        events: Vec<Ev>,
        /// HomeRelayWatch events since the previous output line (for the end-to-end C26 trace)
        home_events: Vec<HomeEv>,
        /// steps of the word that could not be forced on this implementation (index, reason)
        skipped: Vec<(usize, String)>,
        /// environment / harness problem (never a property violation)
        env_error: Option<String>,
    }

    const A: &str = "c25.after_done_send";
    const B: &str = "c25.before_try_run";
    const C: &str = "c25.before_done_send";
    const STEP: Duration = Duration::from_secs(20);
    const SETTLE: Duration = Duration::from_millis(600);

    struct Drv {
        ep: Endpoint,
        url: RelayUrl,
        cfg: Arc<RelayConfig>,
        log: Vec<Ev>,
        runs: u64,
        /// the run holding the lock has been seen to release it
        unlock_logged: bool,
        holder: bool,
        rel: HashMap<&'static str, usize>,
        home_events: Vec<HomeEv>,
        urls: Vec<String>,
    }

    impl Drv {
        fn url_name(&mut self, url: &str) -> String {
            if url.is_empty() || url == "none" {
                return "none".into();
            }
            let i = match self.urls.iter().position(|u| u == url) {
                Some(i) => i,
                None => {
                    self.urls.push(url.to_string());
                    self.urls.len() - 1
                }
            };
            ((b'a' + i as u8) as char).to_string()
        }
        fn count(&self, ev: &str) -> usize {
            self.log.iter().filter(|e| e.ev == ev).count()
        }
        fn push(&mut self, ev: &str) -> &mut Ev {
            self.log.push(Ev { ev: ev.into(), ..Default::default() });
            self.log.last_mut().expect("just pushed")
        }
        fn unlocked(&mut self) {
            if self.holder && !self.unlock_logged {
                self.unlock_logged = true;
                self.push("unlocked");
            }
        }
        /// Moves the hook events into the log.  The code's own view of the lock (schedule /
        /// try_run events) places the release of the lock when it was not observed directly.
        fn sync(&mut self) -> usize {
            let evs = verif::take_events();
            let n = evs.len();
            for e in evs {
                let f: HashMap<_, _> = e.fields.iter().cloned().collect();
                match e.label.as_str() {
                    "c25.schedule" | "c25.try_run" => {
                        let lock = f.get("lock").cloned().unwrap_or_default();
                        if lock == "free" {
                            self.unlocked();
                        }
                        let want = f.get("want").map(|w| w == "true").unwrap_or(false);
                        let name = e.label.trim_start_matches("c25.").to_string();
                        let ev = self.push(&name);
                        ev.lock = lock;
                        ev.want = want;
                    }
                    "c25.run_start" => {
                        self.runs += 1;
                        self.holder = true;
                        self.unlock_logged = false;
                        let n = self.runs;
                        self.push("run_start").n = n;
                    }
                    "c25.report_done" => {
                        self.push("report_done");
                    }
                    "c25.done_sent" => {
                        self.push("done_sent");
                    }
                    "c25.run_finish" => {
                        self.push("run_finish");
                    }
                    l if l.starts_with("c26.") => {
                        let ev = match l {
                            "c26.set" => "set",
                            "c26.clear" => "clear",
                            "c26.read" => "read",
                            "c26.write" => "write",
                            "c26.status_done" => "done",
                            _ => continue,
                        };
                        let home = self.url_name(f.get("home").map(|s| s.as_str()).unwrap_or(""));
                        let actor = self.url_name(f.get("actor").map(|s| s.as_str()).unwrap_or(""));
                        let url = if ev == "set" { home.clone() } else { actor };
                        let state = f.get("state").cloned().unwrap_or_default();
                        self.home_events.push(HomeEv { ev: ev.into(), url, home, state });
                    }
                    _ => {}
                }
            }
            n
        }
        /// Only at points where nothing is in flight: the lock as observed from outside.
        fn poll_lock(&mut self) -> bool {
            let held = hooks::c25_lock_held().unwrap_or(false);
            if !held {
                self.unlocked();
            }
            held
        }
        async fn wait_count(&mut self, ev: &str, n: usize, t: Duration) -> bool {
            let deadline = Instant::now() + t;
            loop {
                self.sync();
                if self.count(ev) >= n {
                    return true;
                }
                if Instant::now() > deadline {
                    return false;
                }
                tokio::time::sleep(Duration::from_millis(2)).await;
            }
        }
        async fn wait_arrived(&self, label: &'static str, n: usize, t: Duration) -> bool {
            let deadline = Instant::now() + t;
            while verif::arrived(label) < n {
                if Instant::now() > deadline {
                    return false;
                }
                tokio::time::sleep(Duration::from_millis(2)).await;
            }
            true
        }
        fn held_at(&self, label: &'static str) -> bool {
            verif::arrived(label) > self.rel.get(label).copied().unwrap_or(0)
        }
        fn release_all(&self) {
            for l in [A, B, C] {
                verif::release(l, 1_000_000);
            }
        }
        fn release(&mut self, label: &'static str) {
            *self.rel.entry(label).or_default() += 1;
            verif::release(label, 1);
        }
        async fn wait_lock_free(&mut self, t: Duration) -> bool {
            let deadline = Instant::now() + t;
            while hooks::c25_lock_held().unwrap_or(false) {
                if Instant::now() > deadline {
                    return false;
                }
                tokio::time::sleep(Duration::from_millis(2)).await;
            }
            true
        }
        /// Nothing happens for SETTLE and no run holds the lock.
        async fn settle(&mut self, max: Duration) -> bool {
            let deadline = Instant::now() + max;
            let mut quiet_since = Instant::now();
            loop {
                if self.sync() > 0 || hooks::c25_lock_held().unwrap_or(false) {
                    quiet_since = Instant::now();
                }
                if quiet_since.elapsed() >= SETTLE {
                    return true;
                }
                if Instant::now() > deadline {
                    return false;
                }
                tokio::time::sleep(Duration::from_millis(5)).await;
            }
        }
        async fn request(&self) {
            self.ep.insert_relay(self.url.clone(), self.cfg.clone()).await;
        }
        /// Brings the endpoint back to: no run, no queued update, no pause armed.
        /// Whether the last word left the endpoint with nothing queued and nothing in flight.
        fn ended_clean(&self) -> bool {
            let last_try = self.log.iter().rev().find(|e| e.ev == "try_run");
            let last_sched = self.log.iter().rposition(|e| e.ev == "schedule");
            let last_try_pos = self.log.iter().rposition(|e| e.ev == "try_run");
            self.log.last().map(|e| e.ev == "quiescent" && e.lock == "free").unwrap_or(false)
                && last_try.map(|e| e.lock == "free" && !e.want).unwrap_or(false)
                && last_sched < last_try_pos
                && self.count("done_sent") == self.count("try_run")
        }
        async fn cleanup(&mut self) -> Result<(), String> {
            self.release_all();
            if self.ended_clean() {
                if !self.settle(Duration::from_secs(60)).await {
                    return Err("endpoint did not settle".into());
                }
                if self.log.last().map(|e| e.ev != "quiescent").unwrap_or(true) {
                    return Err("events arrived after the previous word was declared quiescent".into());
                }
                self.log.clear();
                self.runs = 0;
                self.holder = false;
                self.unlock_logged = false;
                self.rel.clear();
                verif::clear_gates();
                return Ok(());
            }
            for _ in 0..8 {
                if !self.settle(Duration::from_secs(60)).await {
                    return Err("endpoint did not settle".into());
                }
                verif::clear_gates();
                self.log.clear();
                self.request().await;
                if !self.wait_count("try_run", 1, Duration::from_secs(60)).await {
                    return Err("no reaction to an update request while cleaning up".into());
                }
                if !self.settle(Duration::from_secs(60)).await {
                    return Err("endpoint did not settle".into());
                }
                let clean = self.log.iter().rev().find(|e| e.ev == "try_run").map(|e| e.lock == "free" && !e.want).unwrap_or(false);
                if clean {
                    self.log.clear();
                    self.runs = 0;
                    self.holder = false;
                    self.unlock_logged = false;
                    self.rel.clear();
                    verif::clear_gates();
                    return Ok(());
                }
            }
            Err("could not reach a clean state (update stays queued)".into())
        }

        async fn force(&mut self, c: &Case) -> Result<Vec<(usize, String)>, String> {
            let mut skipped = Vec::new();
            let mut pending_req = 0usize;
            verif::arm(A, 1000);
            verif::arm(B, 1000);
            verif::arm(C, 1000);
            for (i, step) in c.word.iter().enumerate() {
                self.sync();
                match step.as_str() {
                    "req" => {
                        let k = self.count("schedule");
                        self.request().await;
                        if self.held_at(B) {
                            // the Actor is held before try_run: it takes the message afterwards
                            pending_req += 1;
                        } else if !self.wait_count("schedule", k + 1 + pending_req, STEP).await {
                            return Err(format!("step {i} req: the Actor did not schedule"));
                        }
                    }
                    "probe" => {
                        if self.count("run_start") <= self.count("report_done") {
                            skipped.push((i, "no run in flight".into()));
                            continue;
                        }
                        let k = self.count("report_done");
                        if !self.wait_count("report_done", k + 1, Duration::from_secs(60)).await {
                            return Err(format!("step {i} probe: the net report did not finish"));
                        }
                        // every finished report is followed by an arrival at the pause point before the send
                        let n = self.count("report_done");
                        if !self.wait_arrived(C, n, STEP).await {
                            return Err(format!("step {i} probe: task not at the pause point"));
                        }
                        self.poll_lock();
                    }
                    "send_done" => {
                        if !self.held_at(C) {
                            skipped.push((i, "no task before its done signal".into()));
                            continue;
                        }
                        let k = self.count("done_sent");
                        let nb = verif::arrived(B);
                        self.release(C);
                        if !self.wait_count("done_sent", k + 1, STEP).await {
                            return Err(format!("step {i} send_done: no done signal"));
                        }
                        let na = self.rel.get(A).copied().unwrap_or(0) + 1;
                        if !self.wait_arrived(A, na, STEP).await {
                            return Err(format!("step {i} send_done: task not at the pause point"));
                        }
                        // the Actor takes the signal unless it is already held with an earlier one
                        if !self.held_at(B) && !self.wait_arrived(B, nb + 1, STEP).await {
                            return Err(format!("step {i} send_done: the Actor did not take the done signal"));
                        }
                        self.sync();
                        if self.count("unlocked") >= self.count("done_sent") {
                            // this task released the lock before it signalled: nothing is left for it to do
                            let k = self.count("run_finish");
                            self.release(A);
                            if !self.wait_count("run_finish", k + 1, STEP).await {
                                return Err(format!("step {i} send_done: the task did not finish"));
                            }
                        } else {
                            self.poll_lock();
                        }
                    }
                    "on_done" => {
                        if !self.held_at(B) {
                            skipped.push((i, "the Actor holds no done signal".into()));
                            continue;
                        }
                        let k = self.count("try_run");
                        let ks = self.count("schedule");
                        self.release(B);
                        if !self.wait_count("try_run", k + 1, STEP).await {
                            return Err(format!("step {i} on_done: no try_run"));
                        }
                        if pending_req > 0 {
                            // queued requests are handled now, unless the next done signal comes first
                            let deadline = Instant::now() + STEP;
                            while self.count("schedule") < ks + pending_req && !self.held_at(B) {
                                if Instant::now() > deadline {
                                    return Err(format!("step {i} on_done: queued request not handled"));
                                }
                                tokio::time::sleep(Duration::from_millis(2)).await;
                                self.sync();
                            }
                            pending_req = (ks + pending_req).saturating_sub(self.count("schedule"));
                        }
                    }
                    "unlock" => {
                        if !self.held_at(A) {
                            skipped.push((i, "no task after its done signal".into()));
                            continue;
                        }
                        let k = self.count("run_finish");
                        self.release(A);
                        if !self.wait_count("run_finish", k + 1, STEP).await {
                            return Err(format!("step {i} unlock: the task did not finish"));
                        }
                        // a task that has not released the lock earlier does so now; if a newer run
                        // holds the lock, the release of this one was logged before
                        if self.holder && !self.unlock_logged && !self.wait_lock_free(STEP).await {
                            return Err(format!("step {i} unlock: the lock was not released"));
                        }
                        self.sync();
                        self.poll_lock();
                    }
                    other => return Err(format!("unknown step {other}")),
                }
            }
            // the word is over: no more stimulus; let go of everything (the event log is kept) and watch
            self.release_all();
            if !self.settle(Duration::from_secs(90)).await {
                return Err("endpoint did not settle after the word".into());
            }
            let held = self.poll_lock();
            let runs = self.runs;
            let ev = self.push("quiescent");
            ev.lock = if held { "held".into() } else { "free".into() };
            ev.runs = runs;
            Ok(skipped)
        }
    }

    pub fn run(args: &Args) {
        let cases: Vec<Case> = read_ndjson(&args.path("in"));
        let mut out = NdjsonOut::create(&args.path("out"));
        let seed = std::env::var("VERIF_SEED").ok().and_then(|s| s.parse::<u64>().ok()).unwrap_or(1);
        let rt = tokio::runtime::Builder::new_multi_thread().worker_threads(4).enable_all().build().unwrap();
        rt.block_on(async {
            let setup = async {
                let (relay_map, url, server) = iroh::test_utils::run_relay_server().await.map_err(|e| format!("relay server: {e:?}"))?;
                let cfg = relay_map.get(&url).ok_or("relay config")?;
                let mut key = [0u8; 32];
                key[..8].copy_from_slice(&seed.to_le_bytes());
                key[31] = 25;
                verif::record(true);
                let ep = Endpoint::builder(presets::Minimal)
                    .relay_mode(RelayMode::Custom(relay_map.clone()))
                    .secret_key(SecretKey::from_bytes(&key))
                    .ca_tls_config(CaTlsConfig::insecure_skip_verify())
                    .bind()
                    .await
                    .map_err(|e| format!("bind: {e:?}"))?;
                Ok::<_, String>((ep, url, cfg, server))
            };
            let (ep, url, cfg, _server) = match setup.await {
                Ok(x) => x,
                Err(e) => {
                    for case in 0..cases.len() {
                        out.emit(&Out { case, env_error: Some(e.clone()), ..Default::default() });
                    }
                    return;
                }
            };
            let mut d = Drv {
                ep,
                url,
                cfg,
                log: Vec::new(),
                runs: 0,
                unlock_logged: false,
                holder: false,
                rel: HashMap::new(),
                home_events: Vec::new(),
                urls: Vec::new(),
            };
            for (case, c) in cases.iter().enumerate() {
                let mut o = Out { case, ..Default::default() };
                match d.cleanup().await {
                    Err(e) => o.env_error = Some(e),
                    Ok(()) => match d.force(c).await {
                        Ok(skipped) => {
                            o.skipped = skipped;
                            o.events = d.log.clone();
                        }
                        Err(e) => {
                            o.events = d.log.clone();
                            o.env_error = Some(e);
                        }
                    },
                }
                o.home_events = std::mem::take(&mut d.home_events);
                out.emit(&o);
            }
            verif::reset();
            d.ep.close().await;
        });
        out.finish();
    }
}

/// C26, system level: drive a real `RelayActor` (with the `ActiveRelayActor`s it starts) against
/// three in-process relay servers along words of specs/socket/HomeRelaySystem.tla
/// (nc(p) = a net report with preferred relay p; recv(u) = the actor of u handles its next
/// SetHomeRelay message -- a pause point holds it before).  Each word starts from "b and a
/// connected, a is the home relay" (the setup is part of the recorded trace).  Output: the raw
/// hook events with the advertised value where the hook recorded it.
mod c26sys {
    use std::{collections::HashMap, time::Instant};

    use iroh::SecretKey;
    use iroh_dns::verif;

    use super::*;

    #[derive(Deserialize)]
    struct Step {
        op: String,
        url: String,
    }
    #[derive(Deserialize)]
    struct Case {
        word: Vec<Step>,
    }
    #[derive(Serialize, Clone, Default)]
    struct Ev {
        /// network_change | set | clear | read | write | done | recv | final
        ev: String,
        /// acting relay (a, b, c) or preferred relay of a network change
        url: String,
        home: String,
        state: String,
        is_home: bool,
        connected: bool,
    }
    #[derive(Serialize, Default)]
    struct Out {
        case: usize,
        events: Vec<Ev>,
        skipped: Vec<(usize, String)>,
        env_error: Option<String>,
    }

    const STEP: Duration = Duration::from_secs(20);
    const SETTLE: Duration = Duration::from_millis(400);

    struct Drv {
        names: Vec<(String, RelayUrl)>,
        log: Vec<Ev>,
    }

    impl Drv {
        fn name_of(&self, url: &str) -> String {
            if url.is_empty() || url == "none" {
                return "none".into();
            }
            self.names.iter().find(|(_, u)| u.to_string() == url).map(|(n, _)| n.clone()).unwrap_or_else(|| url.to_string())
        }
        fn url_of(&self, name: &str) -> Option<RelayUrl> {
            self.names.iter().find(|(n, _)| n == name).map(|(_, u)| u.clone())
        }
        fn label(&self, name: &str) -> String {
            format!("c26.recv_set_home:{}", self.url_of(name).expect("relay name"))
        }
        fn sync(&mut self) -> usize {
            let evs = verif::take_events();
            let n = evs.len();
            for e in evs {
                let Some(kind) = e.label.strip_prefix("c26.") else { continue };
                let f: HashMap<_, _> = e.fields.iter().cloned().collect();
                let get = |k: &str| f.get(k).cloned().unwrap_or_default();
                let mut ev = Ev { home: self.name_of(&get("home")), state: get("state"), ..Default::default() };
                match kind {
                    "network_change" => {
                        ev.ev = "network_change".into();
                        ev.url = self.name_of(&get("preferred"));
                        ev.home = String::new();
                    }
                    "set" => {
                        ev.ev = "set".into();
                        ev.url = ev.home.clone();
                    }
                    "clear" => ev.ev = "clear".into(),
                    "read" | "write" => {
                        ev.ev = kind.into();
                        ev.url = self.name_of(&get("actor"));
                    }
                    "status_done" => {
                        ev.ev = "done".into();
                        ev.url = self.name_of(&get("actor"));
                    }
                    "recv_set_home" => {
                        ev.ev = "recv".into();
                        ev.url = self.name_of(&get("actor"));
                        ev.is_home = get("is_home") == "true";
                        ev.connected = get("connected") == "true";
                        ev.home = String::new();
                    }
                    _ => continue,
                }
                self.log.push(ev);
            }
            n
        }
        fn count(&self, ev: &str, url: &str) -> usize {
            self.log.iter().filter(|e| e.ev == ev && (url.is_empty() || e.url == url)).count()
        }
        async fn wait_until(&mut self, t: Duration, mut cond: impl FnMut(&Drv) -> bool) -> bool {
            let deadline = Instant::now() + t;
            loop {
                self.sync();
                if cond(self) {
                    return true;
                }
                if Instant::now() > deadline {
                    return false;
                }
                tokio::time::sleep(Duration::from_millis(2)).await;
            }
        }
        async fn settle(&mut self, max: Duration) {
            let deadline = Instant::now() + max;
            let mut quiet = Instant::now();
            while quiet.elapsed() < SETTLE && Instant::now() < deadline {
                if self.sync() > 0 {
                    quiet = Instant::now();
                }
                tokio::time::sleep(Duration::from_millis(5)).await;
            }
        }
    }

    async fn force(d: &mut Drv, c: &Case, tls: rustls::ClientConfig, relay_map: iroh::RelayMap, key: SecretKey) -> Result<Vec<(usize, String)>, String> {
        verif::reset();
        verif::clear_gates();
        let _ = verif::take_events();
        d.log.clear();
        verif::record(true);
        let actor = hooks::RelayActorHandle::spawn(key, tls, relay_map);
        let watch = actor.home_relay();
        // setup: connect b, then a; afterwards both are connected and a is the home relay
        for name in ["b", "a"] {
            if !actor.network_change(d.url_of(name)).await {
                return Err("relay actor gone".into());
            }
            let want = d.url_of(name);
            let deadline = Instant::now() + Duration::from_secs(30);
            loop {
                if let Some((u, st)) = watch.get() {
                    if Some(&u) == want.as_ref() && st == hooks::HomeRelayState::Connected {
                        break;
                    }
                }
                if Instant::now() > deadline {
                    return Err(format!("setup: relay {name} did not become the connected home relay ({:?})", watch.get()));
                }
                tokio::time::sleep(Duration::from_millis(5)).await;
            }
        }
        d.settle(Duration::from_secs(5)).await;
        // from here on every actor is held before it handles a SetHomeRelay message
        let mut released: HashMap<String, usize> = HashMap::new();
        for (n, _) in d.names.clone() {
            verif::arm(&d.label(&n), 1000);
        }
        let mut skipped = Vec::new();
        for (i, s) in c.word.iter().enumerate() {
            match s.op.as_str() {
                "nc" => {
                    let k = d.count("network_change", "");
                    if !actor.network_change(d.url_of(&s.url)).await {
                        return Err("relay actor gone".into());
                    }
                    if !d.wait_until(STEP, |d| d.count("network_change", "") > k).await {
                        return Err(format!("step {i}: the RelayActor did not take the report"));
                    }
                    // on_network_change sends the SetHomeRelay messages before it returns; give it the turn
                    tokio::time::sleep(Duration::from_millis(20)).await;
                    d.sync();
                }
                "recv" => {
                    let lab = d.label(&s.url);
                    let rel = released.entry(s.url.clone()).or_default();
                    let deadline = Instant::now() + Duration::from_secs(3);
                    while verif::arrived(&lab) <= *rel && Instant::now() < deadline {
                        tokio::time::sleep(Duration::from_millis(2)).await;
                    }
                    if verif::arrived(&lab) <= *rel {
                        skipped.push((i, "no SetHomeRelay message waiting at this actor".into()));
                        continue;
                    }
                    *rel += 1;
                    let k = d.count("recv", &s.url);
                    verif::release(&lab, 1);
                    let url = s.url.clone();
                    if !d.wait_until(STEP, |d| d.count("recv", &url) > k).await {
                        return Err(format!("step {i}: actor {} did not handle its message", s.url));
                    }
                    tokio::time::sleep(Duration::from_millis(20)).await;
                    d.sync();
                }
                other => return Err(format!("unknown step {other}")),
            }
        }
        for (n, _) in d.names.clone() {
            verif::release(&d.label(&n), 1_000_000);
        }
        d.settle(Duration::from_secs(10)).await;
        let (home, state) = match watch.get() {
            None => ("none".to_string(), "none".to_string()),
            Some((u, s)) => (d.name_of(&u.to_string()), format!("{s:?}")),
        };
        d.log.push(Ev { ev: "final".into(), home, state, ..Default::default() });
        actor.shutdown();
        drop(actor);
        tokio::time::sleep(Duration::from_millis(50)).await;
        verif::record(false);
        Ok(skipped)
    }

    pub fn run(args: &Args) {
        let cases: Vec<Case> = read_ndjson(&args.path("in"));
        let mut out = NdjsonOut::create(&args.path("out"));
        let tls = iroh_relay::tls::CaTlsConfig::insecure_skip_verify()
            .client_config(iroh_relay::tls::default_provider())
            .expect("tls config");
        let rt = tokio::runtime::Builder::new_current_thread().enable_all().build().unwrap();
        rt.block_on(async {
            let mut servers = Vec::new();
            let mut names = Vec::new();
            let mut map = None;
            for n in ["a", "b", "c"] {
                match iroh::test_utils::run_relay_server_with(false).await {
                    Ok((m, url, server)) => {
                        if map.is_none() {
                            map = Some(m);
                        }
                        names.push((n.to_string(), url));
                        servers.push(server);
                    }
                    Err(e) => {
                        for case in 0..cases.len() {
                            out.emit(&Out { case, env_error: Some(format!("relay server: {e:?}")), ..Default::default() });
                        }
                        return;
                    }
                }
            }
            let mut d = Drv { names, log: Vec::new() };
            for (case, c) in cases.iter().enumerate() {
                let mut key = [7u8; 32];
                key[0] = (case % 250) as u8;
                let mut o = Out { case, ..Default::default() };
                match force(&mut d, c, tls.clone(), map.clone().expect("map"), SecretKey::from_bytes(&key)).await {
                    Ok(skipped) => o.skipped = skipped,
                    Err(e) => o.env_error = Some(e),
                }
                o.events = d.log.clone();
                out.emit(&o);
            }
            verif::reset();
        });
        out.finish();
    }
}
