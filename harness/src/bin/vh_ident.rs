//! Conformance drivers for the identity group.
//! Subcommands: c02 (encodings, specs/identity/Encodings.tla), c01v / c01e (TLS auth, specs/identity/TlsAuth.tla)
use rand::{RngExt, SeedableRng};
use rand_chacha::ChaCha8Rng;
use serde::Serialize;
use serde_json::Value;
use vh::io::{Args, NdjsonOut, catch, read_ndjson};

fn main() {
    let args = Args::parse();
    match args.sub.as_str() {
        "c02" => c02::run(&args),
        "c02a" => c02::run_addrset(&args),
        "c01v" => c01::run_verifier(&args),
        "c01e" => c01::run_e2e(&args),
        "c01s" => c01::run_sessions(&args),
        "c01i" => c01::run_impostor(&args),
        other => {
            eprintln!("unknown subcommand {other}");
            std::process::exit(2);
        }
    }
}

/// One failed concretisation: what was compared, what the spec determines, what the code did.
#[derive(Serialize, Debug)]
pub struct Fail {
    rep: usize,
    what: String,
    exp: String,
    got: String,
    input: String,
}

/// One abstract case, `runs` concretisations.
#[derive(Serialize)]
pub struct Obs {
    idx: u64,
    runs: usize,
    ok: bool,
    fails: Vec<Fail>,
}

/// (what, expected, got, input)
type Mismatch = (String, String, String, String);
type R = Result<(), Mismatch>;

fn mm(what: &str, exp: impl ToString, got: impl ToString, input: impl AsRef<str>) -> Mismatch {
    let mut i = input.as_ref().to_string();
    if i.len() > 300 {
        let mut cut = 300;
        while !i.is_char_boundary(cut) {
            cut -= 1;
        }
        i.truncate(cut);
        i.push_str("...");
    }
    (what.to_string(), exp.to_string(), got.to_string(), i)
}

fn fs<'a>(c: &'a Value, k: &str) -> &'a str {
    c.get(k).and_then(|v| v.as_str()).unwrap_or_else(|| panic!("harness: case field {k} missing in {c}"))
}
fn fu(c: &Value, k: &str) -> usize {
    c.get(k).and_then(|v| v.as_u64()).unwrap_or_else(|| panic!("harness: case field {k} missing in {c}")) as usize
}
fn fb(c: &Value, k: &str) -> bool {
    c.get(k).and_then(|v| v.as_bool()).unwrap_or_else(|| panic!("harness: case field {k} missing in {c}"))
}
fn fset(c: &Value, k: &str) -> Vec<String> {
    c.get(k)
        .and_then(|v| v.as_array())
        .unwrap_or_else(|| panic!("harness: case field {k} missing in {c}"))
        .iter()
        .map(|x| x.as_str().expect("string").to_string())
        .collect()
}

fn case_rng(seed: u64, idx: u64, rep: usize) -> ChaCha8Rng {
    ChaCha8Rng::seed_from_u64(seed ^ idx.wrapping_mul(0x9E37_79B9_7F4A_7C15) ^ ((rep as u64) << 48))
}

/// Runs `n` concretisations of every case through `f`, collecting mismatches and panics.
fn drive(args: &Args, f: impl Fn(&Value, &mut ChaCha8Rng) -> R) {
    let cases: Vec<Value> = read_ndjson(&args.path("in"));
    let mut out = NdjsonOut::create(&args.path("out"));
    let n = args.num("n", 1) as usize;
    let seed: u64 = std::env::var("VERIF_SEED").ok().and_then(|s| s.parse().ok()).unwrap_or(1);
    for c in &cases {
        let idx = c.get("idx").and_then(|v| v.as_u64()).expect("idx");
        let mut fails = Vec::new();
        for rep in 0..n {
            let mut rng = case_rng(seed, idx, rep);
            let r = catch(|| f(c, &mut rng));
            let m = match r {
                Ok(Ok(())) => continue,
                Ok(Err(m)) => m,
                Err(p) if p.starts_with("harness: ") => mm("harness-assumption", "", p, ""),
                Err(p) => mm("panic", "no panic", p, ""),
            };
            if fails.len() < 3 {
                fails.push(Fail { rep, what: m.0, exp: m.1, got: m.2, input: m.3 });
            }
        }
        out.emit(&Obs { idx, runs: n, ok: fails.is_empty(), fails });
    }
    out.finish();
}

// =====================================================================================
/// C02: concretise the decision tables of Encodings.tla against iroh-base's public API.
mod c02 {
    use std::{
        collections::{BTreeSet, hash_map::DefaultHasher},
        hash::{Hash, Hasher},
        net::{Ipv4Addr, Ipv6Addr, SocketAddr, SocketAddrV4, SocketAddrV6},
        str::FromStr,
    };

    use data_encoding::{BASE32_DNSSEC, BASE32_NOPAD, Encoding, HEXLOWER, HEXUPPER, Specification};
    use iroh_base::{CustomAddr, EndpointAddr, PublicKey, RelayUrl, SecretKey, Signature, TransportAddr};

    use super::*;

    pub fn run(args: &Args) {
        drive(args, |c, rng| match fs(c, "tbl") {
            "keystr" => keystr(c, rng),
            "keybytes" => keybytes(c, rng),
            "caddr" => caddr(c, rng),
            "caddrbin" => caddrbin(c, rng),
            "caddrstr" => caddrstr(c, rng),
            "sig" => sig(c, rng),
            "matrix" => matrix(c, rng),
            "layout" => layout(c, rng),
            other => panic!("harness: unknown table {other}"),
        });
    }

    // ------------------------------------------------------------------ material
    /// Independent classification: a curve point according to ed25519-dalek itself.
    fn is_point(b: &[u8; 32]) -> bool {
        ed25519_dalek::VerifyingKey::from_bytes(b).is_ok()
    }

    const SPECIAL: &[[u8; 32]] = &[
        [0u8; 32],
        [0xffu8; 32],
        {
            let mut b = [0u8; 32];
            b[0] = 1;
            b
        }, // identity
        {
            let mut b = [0xffu8; 32];
            b[0] = 0xec;
            b[31] = 0x7f;
            b
        }, // y = -1
        {
            let mut b = [0xffu8; 32];
            b[0] = 0xed;
            b[31] = 0x7f;
            b
        }, // y = p (non-canonical 0)
        {
            let mut b = [0u8; 32];
            b[0] = 2;
            b
        },
        {
            let mut b = [0u8; 32];
            b[31] = 0x80;
            b
        }, // y = 0 with the sign bit
    ];

    /// 32 bytes of the wanted class ("point" / "nonpoint" / anything else: unconstrained).
    fn material(rng: &mut ChaCha8Rng, class: &str) -> [u8; 32] {
        for _ in 0..10_000 {
            let b: [u8; 32] = if rng.random_range(0..8) == 0 {
                SPECIAL[rng.random_range(0..SPECIAL.len())]
            } else if rng.random_bool(0.5) {
                // a real public key
                ed25519_dalek::SigningKey::from_bytes(&rng.random()).verifying_key().to_bytes()
            } else {
                rng.random()
            };
            match class {
                "point" if !is_point(&b) => continue,
                "nonpoint" if is_point(&b) => continue,
                _ => return b,
            }
        }
        panic!("harness: could not sample material of class {class}");
    }

    // ------------------------------------------------------------------ strings
    fn z32() -> Encoding {
        let mut spec = Specification::new();
        spec.symbols.push_str("ybndrfg8ejkmcpqxot1uwisza345h769");
        spec.encoding().expect("z32 spec")
    }

    fn kind(c: char) -> &'static str {
        match c {
            '0' => "d0",
            '1' | '8' | '9' => "d189",
            '2' => "d2",
            '3'..='7' => "d37",
            'a'..='f' => "laf",
            'l' | 'v' => "llv",
            'g'..='z' => "lgz",
            'A'..='F' => "uAF",
            'G'..='Z' => "uGZ",
            '=' => "pad",
            c if !c.is_ascii() => "na",
            _ => "oth",
        }
    }

    fn chars_of(kind: &str, alpha: &str) -> &'static str {
        match kind {
            "d0" => "0",
            "d189" => "189",
            "d2" => "2",
            "d37" => "34567",
            "laf" => "abcdef",
            "lgz" if alpha == "b32hex" => "ghijkmnopqrstu",
            "lgz" => "ghijkmnopqrstuwxyz",
            "llv" => "lv",
            "uAF" => "ABCDEF",
            "uGZ" => "GHIJKLMNOPQRSTUVWXYZ",
            "pad" => "=",
            "na" => "\u{e9}\u{fc}\u{f1}\u{3a9}",
            "oth" => "!_ -.~@/",
            other => panic!("harness: unknown kind {other}"),
        }
    }

    fn pick_char(rng: &mut ChaCha8Rng, kind: &str, alpha: &str) -> char {
        let cs: Vec<char> = chars_of(kind, alpha).chars().collect();
        cs[rng.random_range(0..cs.len())]
    }

    /// The string is in the class: all kinds in `may`, every `must` kind present (if it fits).
    fn in_class(s: &str, may: &[String], must: &[String], need_must: bool) -> bool {
        let present: BTreeSet<&str> = s.chars().map(kind).collect();
        present.iter().all(|k| may.iter().any(|m| m == k))
            && (!need_must || must.iter().all(|m| present.contains(m.as_str())))
    }

    /// A random string of exactly `len` bytes over the class.
    fn random_string(rng: &mut ChaCha8Rng, len: usize, alpha: &str, may: &[String], must: &[String]) -> String {
        let width = |k: &str| if k == "na" { 2 } else { 1 };
        let mut kinds: Vec<&str> = Vec::new();
        let mut used = 0;
        for m in must {
            if used + width(m) <= len {
                kinds.push(m);
                used += width(m);
            }
        }
        while used < len {
            let k = may[rng.random_range(0..may.len())].as_str();
            if used + width(k) <= len {
                kinds.push(k);
                used += width(k);
            }
        }
        // Fisher-Yates with the case rng
        for i in (1..kinds.len()).rev() {
            let j = rng.random_range(0..=i);
            kinds.swap(i, j);
        }
        let s: String = kinds.iter().map(|k| pick_char(rng, k, alpha)).collect();
        assert_eq!(s.len(), len, "harness: generated string has the wrong byte length");
        s
    }

    fn alternate_case(s: &str, upper_first: bool) -> String {
        let mut up = upper_first;
        s.chars()
            .map(|c| {
                if c.is_ascii_alphabetic() {
                    up = !up;
                    if up { c.to_ascii_uppercase() } else { c.to_ascii_lowercase() }
                } else {
                    c
                }
            })
            .collect()
    }

    /// Encodes 32 bytes in the class's own encoding (the harness's encoders, not iroh's).
    fn encode_as(alpha: &str, b: &[u8; 32]) -> String {
        match alpha {
            "hexLower" => HEXLOWER.encode(b),
            "hexUpper" => HEXUPPER.encode(b),
            "hexMixed" => alternate_case(&HEXLOWER.encode(b), false),
            "b32Upper" => BASE32_NOPAD.encode(b),
            "b32Lower" => BASE32_NOPAD.encode(b).to_ascii_lowercase(),
            "b32Mixed" => alternate_case(&BASE32_NOPAD.encode(b), true),
            "z32" => z32().encode(b),
            "b32hex" => BASE32_DNSSEC.encode(b),
            other => panic!("harness: class {other} does not carry material"),
        }
    }

    fn symbols_of(alpha: &str) -> &'static str {
        match alpha {
            "b32Upper" | "b32Lower" | "b32Mixed" => "ABCDEFGHIJKLMNOPQRSTUVWXYZ234567",
            "z32" => "ybndrfg8ejkmcpqxot1uwisza345h769",
            "b32hex" => "0123456789abcdefghijklmnopqrstuv",
            other => panic!("harness: {other} is not a 5-bit class"),
        }
    }

    /// Makes the 4 trailing bits of a 52-symbol string non-zero (keeps the 256 data bits).
    fn make_noncanonical(rng: &mut ChaCha8Rng, alpha: &str, s: &str) -> String {
        let syms: Vec<char> = symbols_of(alpha).chars().collect();
        let mut cs: Vec<char> = s.chars().collect();
        let last = *cs.last().expect("non-empty");
        let lower = last.is_ascii_lowercase();
        let v = syms
            .iter()
            .position(|c| c.eq_ignore_ascii_case(&last))
            .expect("last symbol in alphabet");
        let nv = (v & 0x10) | rng.random_range(1..16usize);
        let mut nc = syms[nv];
        if alpha != "z32" && alpha != "b32hex" {
            nc = if lower { nc.to_ascii_lowercase() } else { nc.to_ascii_uppercase() };
        }
        *cs.last_mut().expect("non-empty") = nc;
        cs.into_iter().collect()
    }

    fn hash_of<T: Hash>(t: &T) -> u64 {
        let mut h = DefaultHasher::new();
        t.hash(&mut h);
        h.finish()
    }

    /// Every accessor and formatter of an accepted public key.
    fn exercise_pk(pk: &PublicKey, input: &str) -> R {
        let bytes = *pk.as_bytes();
        let disp = pk.to_string();
        if disp != HEXLOWER.encode(&bytes) {
            return Err(mm("Display is lower-case hex of the bytes", HEXLOWER.encode(&bytes), disp, input));
        }
        let _ = format!("{pk:?}");
        let short = pk.fmt_short().to_string();
        if short != HEXLOWER.encode(&bytes[..5]) {
            return Err(mm("fmt_short is hex of the first 5 bytes", HEXLOWER.encode(&bytes[..5]), short, input));
        }
        let z = pk.to_z32();
        if z != z32().encode(&bytes) {
            return Err(mm("to_z32", z32().encode(&bytes), z, input));
        }
        let vk = pk.as_verifying_key();
        if vk.to_bytes() != bytes {
            return Err(mm("as_verifying_key bytes", HEXLOWER.encode(&bytes), HEXLOWER.encode(&vk.to_bytes()), input));
        }
        let a: &[u8] = pk.as_ref();
        let d: &[u8; 32] = pk;
        let bo: &[u8; 32] = std::borrow::Borrow::borrow(pk);
        if a != bytes || d != &bytes || bo != &bytes {
            return Err(mm("AsRef/Deref/Borrow bytes", "same bytes", "different", input));
        }
        let back = PublicKey::from_str(&disp).map_err(|e| mm("FromStr(Display) of an accepted key", "Ok", format!("Err({e})"), input))?;
        if back != *pk || hash_of(&back) != hash_of(pk) || back.cmp(pk) != std::cmp::Ordering::Equal {
            return Err(mm("FromStr(Display) identity", disp, back.to_string(), input));
        }
        let pc = postcard::to_stdvec(pk).map_err(|e| mm("postcard ser", "Ok", e, input))?;
        let back: PublicKey = postcard::from_bytes(&pc).map_err(|e| mm("postcard de of own output", "Ok", e, input))?;
        let js = serde_json::to_string(pk).map_err(|e| mm("json ser", "Ok", e, input))?;
        let back2: PublicKey = serde_json::from_str(&js).map_err(|e| mm("json de of own output", "Ok", e, input))?;
        if back != *pk || back2 != *pk {
            return Err(mm("serde identity", disp, format!("{back} / {back2}"), input));
        }
        Ok(())
    }

    fn exercise_sk(sk: &SecretKey, input: &str) -> R {
        let _ = format!("{sk:?}");
        let pk = sk.public();
        if !is_point(pk.as_bytes()) {
            return Err(mm("public() of a secret key is a curve point", "point", "non-point", input));
        }
        exercise_pk(&pk, input)?;
        let msg = b"c02 exercise";
        let sg = sk.sign(msg);
        if pk.verify(msg, &sg).is_err() {
            return Err(mm("sign/verify under own public key", "Ok", "Err", input));
        }
        let again = SecretKey::from_bytes(&sk.to_bytes());
        if again.to_bytes() != sk.to_bytes() || again.public() != pk {
            return Err(mm("from_bytes(to_bytes) identity", "same", "different", input));
        }
        Ok(())
    }

    // ------------------------------------------------------------------ table keystr
    fn keystr(c: &Value, rng: &mut ChaCha8Rng) -> R {
        let (dec, len, alpha) = (fs(c, "dec"), fu(c, "len"), fs(c, "alpha"));
        let (canon, mat, accept) = (fb(c, "canon"), fs(c, "mat"), fb(c, "accept"));
        let (may, must) = (fset(c, "may"), fset(c, "must"));
        let carries = mat != "na";
        let mut bytes = [0u8; 32];
        let mut s = String::new();
        let mut found = false;
        for _ in 0..2000 {
            if carries {
                bytes = material(rng, mat);
                s = encode_as(alpha, &bytes);
                if !canon {
                    s = make_noncanonical(rng, alpha, &s);
                }
            } else {
                s = random_string(rng, len, alpha, &may, &must);
            }
            let fits = must.iter().map(|m| if m == "na" { 2 } else { 1 }).sum::<usize>() <= len;
            if s.len() == len && in_class(&s, &may, &must, fits) {
                found = true;
                break;
            }
        }
        assert!(found, "harness: could not build a string of class {alpha}/{len}");
        let exp = if accept { "accept" } else { "reject" };
        match dec {
            "pk_fromstr" | "pk_json" | "pk_z32" => {
                let r = match dec {
                    "pk_fromstr" => PublicKey::from_str(&s).map_err(|e| e.to_string()),
                    "pk_z32" => PublicKey::from_z32(&s).map_err(|e| e.to_string()),
                    _ => {
                        let js = serde_json::to_string(&s).expect("json string");
                        serde_json::from_str::<PublicKey>(&js).map_err(|e| e.to_string())
                    }
                };
                match r {
                    Ok(pk) => {
                        if !accept {
                            return Err(mm(&format!("{dec} verdict"), exp, format!("accept as {pk}"), &s));
                        }
                        if pk.as_bytes() != &bytes {
                            return Err(mm(&format!("{dec} value"), HEXLOWER.encode(&bytes), pk.to_string(), &s));
                        }
                        if !is_point(pk.as_bytes()) {
                            return Err(mm("accepted public key is a curve point", "point", "non-point", &s));
                        }
                        exercise_pk(&pk, &s)?;
                        let z = PublicKey::from_z32(&pk.to_z32()).map_err(|e| mm("from_z32(to_z32)", "Ok", e, &s))?;
                        if z != pk {
                            return Err(mm("from_z32(to_z32) identity", pk.to_string(), z.to_string(), &s));
                        }
                    }
                    Err(e) => {
                        if accept {
                            return Err(mm(&format!("{dec} verdict"), exp, format!("reject ({e})"), &s));
                        }
                    }
                }
            }
            "sk_fromstr" => match SecretKey::from_str(&s) {
                Ok(sk) => {
                    if !accept {
                        return Err(mm("sk_fromstr verdict", exp, "accept", &s));
                    }
                    if sk.to_bytes() != bytes {
                        return Err(mm("sk_fromstr value", HEXLOWER.encode(&bytes), HEXLOWER.encode(&sk.to_bytes()), &s));
                    }
                    exercise_sk(&sk, &s)?;
                }
                Err(e) => {
                    if accept {
                        return Err(mm("sk_fromstr verdict", exp, format!("reject ({e})"), &s));
                    }
                }
            },
            other => panic!("harness: unknown decoder {other}"),
        }
        Ok(())
    }

    // ------------------------------------------------------------------ table keybytes
    fn verdict3(what: &str, exp: &str, got_ok: bool, detail: &str, input: &str) -> R {
        match (exp, got_ok) {
            ("yes", false) => Err(mm(what, "accept", format!("reject ({detail})"), input)),
            ("no", true) => Err(mm(what, "reject", format!("accept ({detail})"), input)),
            _ => Ok(()),
        }
    }

    fn keybytes(c: &Value, rng: &mut ChaCha8Rng) -> R {
        let (dec, len, decl, mat, accept) = (fs(c, "dec"), fu(c, "len"), fu(c, "decl"), fs(c, "mat"), fs(c, "accept"));
        let mut data = vec![0u8; len];
        rng.fill(&mut data[..]);
        if mat != "na" {
            data[..32].copy_from_slice(&material(rng, mat));
        }
        let input = format!("{dec} {}", HEXLOWER.encode(&data));
        let json_array = || serde_json::to_string(&data.iter().map(|b| *b as u64).collect::<Vec<_>>()).expect("json");
        let what = format!("{dec} verdict");
        match dec {
            "pk_try_from" | "pk_from_bytes" | "pk_postcard" => {
                let r = match dec {
                    "pk_try_from" => PublicKey::try_from(&data[..]).map_err(|e| e.to_string()),
                    "pk_from_bytes" => {
                        let a: [u8; 32] = data[..].try_into().expect("32 bytes by construction");
                        let r1 = PublicKey::from_bytes(&a).map_err(|e| e.to_string());
                        let r2 = PublicKey::try_from(&a).map_err(|e| e.to_string());
                        if r1.is_ok() != r2.is_ok() {
                            return Err(mm("from_bytes and TryFrom<&[u8;32]> agree", r1.is_ok(), r2.is_ok(), &input));
                        }
                        r1
                    }
                    _ => postcard::from_bytes::<PublicKey>(&data).map_err(|e| e.to_string()),
                };
                verdict3(&what, accept, r.is_ok(), &r.as_ref().map(|p| p.to_string()).unwrap_or_else(|e| e.clone()), &input)?;
                if let Ok(pk) = r {
                    if pk.as_bytes()[..] != data[..32] {
                        return Err(mm(&format!("{dec} value"), HEXLOWER.encode(&data[..32]), pk.to_string(), &input));
                    }
                    if !is_point(pk.as_bytes()) {
                        return Err(mm("accepted public key is a curve point", "point", "non-point", &input));
                    }
                    exercise_pk(&pk, &input)?;
                }
            }
            "sk_try_from" | "sk_postcard" | "sk_json" => {
                let r = match dec {
                    "sk_try_from" => SecretKey::try_from(&data[..]).map_err(|e| e.to_string()),
                    "sk_postcard" => {
                        let mut wire = vec![decl as u8];
                        wire.extend_from_slice(&data);
                        postcard::from_bytes::<SecretKey>(&wire).map_err(|e| e.to_string())
                    }
                    _ => serde_json::from_str::<SecretKey>(&json_array()).map_err(|e| e.to_string()),
                };
                verdict3(&what, accept, r.is_ok(), r.as_ref().err().map(|e| e.as_str()).unwrap_or("value"), &input)?;
                if let Ok(sk) = r {
                    if sk.to_bytes()[..] != data[..32] {
                        return Err(mm(&format!("{dec} value"), HEXLOWER.encode(&data[..32]), HEXLOWER.encode(&sk.to_bytes()), &input));
                    }
                    exercise_sk(&sk, &input)?;
                }
            }
            "sig_try_from" | "sig_postcard" | "sig_json" => {
                let r = match dec {
                    "sig_try_from" => Signature::try_from(&data[..]).map_err(|e| e.to_string()),
                    "sig_postcard" => postcard::from_bytes::<Signature>(&data).map_err(|e| e.to_string()),
                    _ => serde_json::from_str::<Signature>(&json_array()).map_err(|e| e.to_string()),
                };
                verdict3(&what, accept, r.is_ok(), r.as_ref().err().map(|e| e.as_str()).unwrap_or("value"), &input)?;
                if let Ok(sg) = r {
                    if sg.to_bytes()[..] != data[..64] {
                        return Err(mm(&format!("{dec} value"), HEXLOWER.encode(&data[..64]), HEXLOWER.encode(&sg.to_bytes()), &input));
                    }
                    let _ = (sg.to_string(), format!("{sg:?}"));
                    // an arbitrary 64-byte string must be safe to verify with
                    let pk = SecretKey::from_bytes(&[7u8; 32]).public();
                    let _ = pk.verify(b"x", &sg);
                }
            }
            other => panic!("harness: unknown decoder {other}"),
        }
        Ok(())
    }

    // ------------------------------------------------------------------ tables caddr*
    fn id_of_class(rng: &mut ChaCha8Rng, idc: &str) -> u64 {
        match idc {
            "zero" => 0,
            "one" => 1,
            "mid" => rng.random_range(0x10_0000u64..=0xff_ffff),
            "max" => u64::MAX,
            other => panic!("harness: unknown id class {other}"),
        }
    }

    /// All observables of a CustomAddr compared with (id, data), which is all they may depend on.
    fn check_caddr(v: &CustomAddr, id: u64, data: &[u8], input: &str) -> R {
        if v.id() != id {
            return Err(mm("CustomAddr::id", id, v.id(), input));
        }
        if v.data() != data {
            return Err(mm("CustomAddr::data", HEXLOWER.encode(data), HEXLOWER.encode(v.data()), input));
        }
        let mut bin = id.to_le_bytes().to_vec();
        bin.extend_from_slice(data);
        if v.to_vec() != bin {
            return Err(mm("CustomAddr::to_vec", HEXLOWER.encode(&bin), HEXLOWER.encode(&v.to_vec()), input));
        }
        let text = format!("{:x}_{}", id, HEXLOWER.encode(data));
        if v.to_string() != text {
            return Err(mm("CustomAddr Display", text, v.to_string(), input));
        }
        let _ = (format!("{v:?}"), format!("{v:#?}"));
        let reference = CustomAddr::from_parts(id, data);
        let set: BTreeSet<&CustomAddr> = [v, &reference].into_iter().collect();
        if *v != reference || v.cmp(&reference) != std::cmp::Ordering::Equal || hash_of(v) != hash_of(&reference) || set.len() != 1 {
            return Err(mm("Eq/Ord/Hash agree with from_parts(id, data)", "equal", "different", input));
        }
        // every encoding of the value, decoded again
        let back = CustomAddr::from_bytes(&v.to_vec()).map_err(|e| mm("from_bytes(to_vec)", "Ok", e, input))?;
        let back2 = CustomAddr::from_str(&v.to_string()).map_err(|e| mm("from_str(Display)", "Ok", e, input))?;
        let pc = postcard::to_stdvec(v).map_err(|e| mm("postcard ser", "Ok", e, input))?;
        let plain = postcard::to_stdvec(&(id, data)).expect("postcard of (u64, &[u8])");
        if pc != plain {
            return Err(mm("postcard form is that of (u64, bytes)", HEXLOWER.encode(&plain), HEXLOWER.encode(&pc), input));
        }
        let back3: CustomAddr = postcard::from_bytes(&pc).map_err(|e| mm("postcard de of own output", "Ok", e, input))?;
        let js = serde_json::to_string(v).map_err(|e| mm("json ser", "Ok", e, input))?;
        let back4: CustomAddr = serde_json::from_str(&js).map_err(|e| mm("json de of own output", "Ok", e, input))?;
        for (name, b) in [("binary", &back), ("string", &back2), ("postcard", &back3), ("json", &back4)] {
            if b != v || b.data() != data || b.id() != id {
                return Err(mm(&format!("{name} round trip identity"), text.clone(), b.to_string(), input));
            }
        }
        Ok(())
    }

    fn caddr(c: &Value, rng: &mut ChaCha8Rng) -> R {
        let (route, n, idc) = (fs(c, "route"), fu(c, "n"), fs(c, "idc"));
        let id = id_of_class(rng, idc);
        let mut data = vec![0u8; n];
        rng.fill(&mut data[..]);
        let input = format!("{route} id={id:x} n={n} data={}", HEXLOWER.encode(&data));
        let v: CustomAddr = match route {
            "from_parts" => CustomAddr::from_parts(id, &data),
            "tuple" => CustomAddr::from((id, &data[..])),
            "from_bytes" => {
                let mut bin = id.to_le_bytes().to_vec();
                bin.extend_from_slice(&data);
                CustomAddr::from_bytes(&bin).map_err(|e| mm("from_bytes verdict", "accept", e, &input))?
            }
            "postcard" => {
                let wire = postcard::to_stdvec(&(id, &data[..])).expect("postcard");
                postcard::from_bytes(&wire).map_err(|e| mm("postcard verdict", "accept", e, &input))?
            }
            "json" => {
                let js = serde_json::json!({"id": id, "data": data});
                serde_json::from_value(js).map_err(|e| mm("json verdict", "accept", e, &input))?
            }
            "fromstr" => {
                let s = format!("{:x}_{}", id, HEXLOWER.encode(&data));
                CustomAddr::from_str(&s).map_err(|e| mm("from_str verdict", "accept", e, &input))?
            }
            other => panic!("harness: unknown route {other}"),
        };
        // the lengths the spec computes through its model of the representation
        if v.data().len() != fu(c, "data_len") {
            return Err(mm("data().len()", fu(c, "data_len"), v.data().len(), &input));
        }
        if v.to_vec().len() != fu(c, "vec_len") {
            return Err(mm("to_vec().len()", fu(c, "vec_len"), v.to_vec().len(), &input));
        }
        if v.to_string().len() != fu(c, "str_len") {
            return Err(mm("Display length", fu(c, "str_len"), v.to_string().len(), &input));
        }
        check_caddr(&v, id, &data, &input)?;
        // inside the containers that carry it
        let ta = TransportAddr::Custom(v.clone());
        let _ = (ta.to_string(), format!("{ta:?}"));
        let wire = postcard::to_stdvec(&ta).map_err(|e| mm("TransportAddr postcard ser", "Ok", e, &input))?;
        let back: TransportAddr = postcard::from_bytes(&wire).map_err(|e| mm("TransportAddr postcard de", "Ok", e, &input))?;
        if back != ta {
            return Err(mm("TransportAddr::Custom postcard identity", ta.to_string(), back.to_string(), &input));
        }
        Ok(())
    }

    fn caddrbin(c: &Value, rng: &mut ChaCha8Rng) -> R {
        let (total, accept, n) = (fu(c, "total"), fb(c, "accept"), fu(c, "n"));
        let mut bin = vec![0u8; total];
        rng.fill(&mut bin[..]);
        let input = HEXLOWER.encode(&bin);
        match CustomAddr::from_bytes(&bin) {
            Ok(v) => {
                if !accept {
                    return Err(mm("CustomAddr::from_bytes verdict", "reject", format!("accept {v}"), &input));
                }
                if v.data().len() != n {
                    return Err(mm("payload length", n, v.data().len(), &input));
                }
                let id = u64::from_le_bytes(bin[..8].try_into().expect("8"));
                check_caddr(&v, id, &bin[8..], &input)
            }
            Err(e) => {
                if accept {
                    return Err(mm("CustomAddr::from_bytes verdict", "accept", format!("reject ({e})"), &input));
                }
                Ok(())
            }
        }
    }

    fn caddrstr(c: &Value, rng: &mut ChaCha8Rng) -> R {
        let (sep, idf, dataf, accept) = (fb(c, "sep"), fs(c, "idf"), fs(c, "dataf"), fs(c, "accept"));
        // an id whose hex form has a letter and does not start with zero
        let id: u64 = loop {
            let bits = rng.random_range(8..=64u32);
            let v: u64 = rng.random::<u64>() >> (64 - bits);
            if v > 0 && format!("{v:x}").chars().any(|ch| ch.is_ascii_alphabetic()) {
                break v;
            }
        };
        let canon = format!("{id:x}");
        let (id_s, id_val): (String, Option<u64>) = match idf {
            "canon" => (canon, Some(id)),
            "upper" => (canon.to_ascii_uppercase(), Some(id)),
            "leadzero" => {
                let short = id >> 8; // keeps the string within 16 digits
                (format!("00{short:x}"), Some(short))
            }
            "plus" => (format!("+{canon}"), Some(id)),
            "empty" => (String::new(), None),
            "overflow" => (format!("1{:016x}", id), None),
            "nonhex" => (format!("{canon}g"), None),
            "zerox" => (format!("0x{canon}"), None),
            "minus" => (format!("-{canon}"), None),
            other => panic!("harness: unknown id form {other}"),
        };
        let n = [0usize, 1, 6, 29, 30, 31, 32, 64][rng.random_range(0..8)].max(if dataf == "empty" { 0 } else { 1 });
        let mut data = vec![0u8; n];
        rng.fill(&mut data[..]);
        if dataf == "upper" {
            data[0] = 0xab; // has a letter
        }
        let hex = HEXLOWER.encode(&data);
        let (data_s, data_val): (String, Option<Vec<u8>>) = match dataf {
            "lower" => (hex, Some(data.clone())),
            "empty" => (String::new(), Some(Vec::new())),
            "upper" => (hex.to_ascii_uppercase(), Some(data.clone())),
            "odd" => (hex[..hex.len() - 1].to_string(), None),
            "nonhex" => (format!("{hex}zz"), None),
            "hassep" => (format!("{hex}_{hex}"), None),
            other => panic!("harness: unknown data form {other}"),
        };
        let s = if sep { format!("{id_s}_{data_s}") } else { format!("{id_s}{data_s}") };
        assert_eq!(s.contains('_'), sep, "harness: separator presence");
        let r = CustomAddr::from_str(&s);
        verdict3("CustomAddr::from_str verdict", accept, r.is_ok(), &r.as_ref().map(|v| v.to_string()).unwrap_or_else(|e| e.to_string()), &s)?;
        if let Ok(v) = r {
            let (Some(iv), Some(dv)) = (id_val, data_val) else {
                return Err(mm("CustomAddr::from_str verdict", "reject", format!("accept {v}"), &s));
            };
            check_caddr(&v, iv, &dv, &s)?;
        }
        Ok(())
    }

    // ------------------------------------------------------------------ table sig
    /// Group order of Ed25519, little endian.
    const L: [u8; 32] = [
        0xed, 0xd3, 0xf5, 0x5c, 0x1a, 0x63, 0x12, 0x58, 0xd6, 0x9c, 0xf7, 0xa2, 0xde, 0xf9, 0xde, 0x14, 0, 0, 0, 0, 0, 0, 0, 0,
        0, 0, 0, 0, 0, 0, 0, 0x10,
    ];

    fn sig(c: &Value, rng: &mut ChaCha8Rng) -> R {
        let (pk_n, msg_n, sk_n, m_n, tamper, ok) = (fs(c, "pk"), fs(c, "msg"), fs(c, "sk"), fs(c, "m"), fs(c, "tamper"), fb(c, "ok"));
        let k1 = SecretKey::from_bytes(&rng.random());
        let k2 = loop {
            let k = SecretKey::from_bytes(&rng.random());
            if k.public() != k1.public() {
                break k;
            }
        };
        let l1 = rng.random_range(0..200usize);
        let mut m1 = vec![0u8; l1];
        rng.fill(&mut m1[..]);
        // m2: a different message, often a one-bit or one-byte-longer neighbour of m1
        let m2 = match rng.random_range(0..3) {
            0 if !m1.is_empty() => {
                let mut m = m1.clone();
                let i = rng.random_range(0..m.len());
                m[i] ^= 1 << rng.random_range(0..8);
                m
            }
            1 => {
                let mut m = m1.clone();
                m.push(0);
                m
            }
            _ => {
                let mut m = vec![0u8; rng.random_range(1..200usize)];
                rng.fill(&mut m[..]);
                if m == m1 {
                    m.push(1);
                }
                m
            }
        };
        let msg_of = |n: &str| if n == "m1" { &m1 } else { &m2 };
        let input = format!("pk={pk_n} msg={msg_n} sig=Sig({sk_n},{m_n}) tamper={tamper}");
        if pk_n == "weak" {
            // small-order key (the identity point) with the identity signature R = identity, S = 0
            let mut idb = [0u8; 32];
            idb[0] = 1;
            let Ok(pk) = PublicKey::from_bytes(&idb) else {
                return Ok(()); // refusing small-order keys outright is stricter than required
            };
            let mut sb = [0u8; 64];
            sb[0] = 1;
            let sg = Signature::from_bytes(&sb);
            let got = pk.verify(msg_of(msg_n), &sg).is_ok();
            if got != ok {
                return Err(mm("verify under a small-order key with the identity signature", ok, got, &input));
            }
            return Ok(());
        }
        let key_of = |n: &str| if n == "k1" { &k1 } else { &k2 };
        let sg = key_of(sk_n).sign(msg_of(m_n));
        let mut sb = sg.to_bytes();
        let sg = match tamper {
            "none" => sg,
            "flipR" => {
                sb[rng.random_range(0..32usize)] ^= 1 << rng.random_range(0..8);
                Signature::from_bytes(&sb)
            }
            "flipS" => {
                sb[rng.random_range(32..64usize)] ^= 1 << rng.random_range(0..8);
                Signature::from_bytes(&sb)
            }
            "zero" => Signature::from_bytes(&[0u8; 64]),
            "sPlusL" => {
                let mut carry = 0u16;
                for i in 0..32 {
                    let t = sb[32 + i] as u16 + L[i] as u16 + carry;
                    sb[32 + i] = t as u8;
                    carry = t >> 8;
                }
                Signature::from_bytes(&sb)
            }
            "reencoded" => {
                let a = Signature::from_bytes(&sg.to_bytes());
                let b = Signature::try_from(&a.to_bytes()[..]).map_err(|e| mm("Signature TryFrom of own bytes", "Ok", e, &input))?;
                let pc = postcard::to_stdvec(&b).map_err(|e| mm("sig postcard ser", "Ok", e, &input))?;
                let c2: Signature = postcard::from_bytes(&pc).map_err(|e| mm("sig postcard de", "Ok", e, &input))?;
                let js = serde_json::to_string(&c2).map_err(|e| mm("sig json ser", "Ok", e, &input))?;
                let d: Signature = serde_json::from_str(&js).map_err(|e| mm("sig json de", "Ok", e, &input))?;
                if d != sg || d.to_bytes() != sg.to_bytes() {
                    return Err(mm("signature re-encoding identity", HEXLOWER.encode(&sg.to_bytes()), HEXLOWER.encode(&d.to_bytes()), &input));
                }
                d
            }
            other => panic!("harness: unknown tamper {other}"),
        };
        let got = key_of(pk_n).public().verify(msg_of(msg_n), &sg).is_ok();
        if got != ok {
            return Err(mm("PublicKey::verify", ok, got, &input));
        }
        Ok(())
    }

    // ------------------------------------------------------------------ table matrix
    fn random_relay_url(rng: &mut ChaCha8Rng) -> RelayUrl {
        let label: String = (0..rng.random_range(1..12)).map(|_| (b'a' + rng.random_range(0..26u8)) as char).collect();
        let forms = [
            format!("https://{label}.example.com./"),
            format!("https://{label}.example.com"),
            format!("http://{label}.test:{}/", rng.random_range(1..65535u32)),
            format!("https://{label}.example.org/path/{label}?q=1"),
            format!("https://127.0.0.1:{}/", rng.random_range(1..65535u32)),
            format!("https://[::1]:{}/", rng.random_range(1..65535u32)),
            format!("https://{}.EXAMPLE.com/", label.to_ascii_uppercase()),
        ];
        let s = &forms[rng.random_range(0..forms.len())];
        RelayUrl::from_str(s).unwrap_or_else(|e| panic!("harness: sample url {s}: {e}"))
    }

    fn random_custom(rng: &mut ChaCha8Rng, heap: bool) -> CustomAddr {
        let n = if heap { [31usize, 32, 33, 64, 255, 256, 300][rng.random_range(0..7)] } else { rng.random_range(0..=30usize) };
        let mut d = vec![0u8; n];
        rng.fill(&mut d[..]);
        let id = [0u64, 1, 0x544f52, u64::MAX, rng.random()][rng.random_range(0..5)];
        CustomAddr::from_parts(id, &d)
    }

    fn random_taddr(rng: &mut ChaCha8Rng, k: &str) -> TransportAddr {
        match k {
            "ip4" => TransportAddr::Ip(SocketAddr::V4(SocketAddrV4::new(Ipv4Addr::from(rng.random::<u32>()), rng.random()))),
            "ip6" => TransportAddr::Ip(SocketAddr::V6(SocketAddrV6::new(Ipv6Addr::from(rng.random::<u128>()), rng.random(), 0, 0))),
            "relay" => TransportAddr::Relay(random_relay_url(rng)),
            "cinline" => TransportAddr::Custom(random_custom(rng, false)),
            "cheap" => TransportAddr::Custom(random_custom(rng, true)),
            other => panic!("harness: unknown addr kind {other}"),
        }
    }

    fn serde_rt<T>(v: &T, enc: &str, input: &str) -> Result<T, Mismatch>
    where
        T: serde::Serialize + serde::de::DeserializeOwned,
    {
        match enc {
            "postcard" => {
                let w = postcard::to_stdvec(v).map_err(|e| mm("postcard ser", "Ok", e, input))?;
                postcard::from_bytes(&w).map_err(|e| mm("postcard de of own output", "Ok", e, input))
            }
            "json" => {
                let w = serde_json::to_string(v).map_err(|e| mm("json ser", "Ok", e, input))?;
                serde_json::from_str(&w).map_err(|e| mm("json de of own output", "Ok", format!("{e} in {w}"), input))
            }
            other => panic!("harness: not a serde encoding: {other}"),
        }
    }

    fn same<T: PartialEq + std::fmt::Debug>(what: &str, a: &T, b: &T, input: &str) -> R {
        if a != b {
            return Err(mm(what, format!("{a:?}"), format!("{b:?}"), input));
        }
        Ok(())
    }

    fn matrix(c: &Value, rng: &mut ChaCha8Rng) -> R {
        let (ty, enc, support) = (fs(c, "type"), fs(c, "enc"), fs(c, "support"));
        let vclass = fset(c, "vclass");
        let what = format!("{ty}/{enc} round trip identity");
        match ty {
            "pk" | "sk" => {
                let special = vclass[0] == "special";
                let skb: [u8; 32] = if special { SPECIAL[rng.random_range(0..SPECIAL.len())] } else { rng.random() };
                let sk = SecretKey::from_bytes(&skb);
                let pk = if special && ty == "pk" {
                    PublicKey::from_bytes(&material(rng, "point")).map_err(|e| mm("from_bytes(point)", "Ok", e, ""))?
                } else {
                    sk.public()
                };
                let input = if ty == "pk" { pk.to_string() } else { format!("sk {}", HEXLOWER.encode(&skb)) };
                if ty == "pk" {
                    let back = match enc {
                        "str" => {
                            let s = pk.to_string();
                            let out = c.get("out").expect("out");
                            if s.len() != fu(out, "len") || !s.chars().all(|ch| ["d0", "d189", "d2", "d37", "laf"].contains(&kind(ch))) {
                                return Err(mm("Display output class", format!("{} lower-case hex digits", fu(out, "len")), &s, &input));
                            }
                            PublicKey::from_str(&s).map_err(|e| mm("from_str(Display)", "Ok", e, &input))?
                        }
                        "b32" => {
                            let s = BASE32_NOPAD.encode(pk.as_bytes());
                            let s = match rng.random_range(0..3) {
                                0 => s,
                                1 => s.to_ascii_lowercase(),
                                _ => alternate_case(&s, true),
                            };
                            PublicKey::from_str(&s).map_err(|e| mm("from_str(base32)", "Ok", e, &s))?
                        }
                        "z32" => {
                            let s = pk.to_z32();
                            let out = c.get("out").expect("out");
                            if s.len() != fu(out, "len") || !s.chars().all(|ch| "ybndrfg8ejkmcpqxot1uwisza345h769".contains(ch)) {
                                return Err(mm("to_z32 output class", "52 z-base-32 symbols", &s, &input));
                            }
                            PublicKey::from_z32(&s).map_err(|e| mm("from_z32(to_z32)", "Ok", e, &input))?
                        }
                        "bin" => PublicKey::from_bytes(pk.as_bytes()).map_err(|e| mm("from_bytes(as_bytes)", "Ok", e, &input))?,
                        _ => serde_rt(&pk, enc, &input)?,
                    };
                    same(&what, &pk, &back, &input)?;
                    exercise_pk(&back, &input)
                } else {
                    let back = match enc {
                        "str" => SecretKey::from_str(&HEXLOWER.encode(&sk.to_bytes())).map_err(|e| mm("sk from_str(hex)", "Ok", e, &input))?,
                        "b32" => {
                            let s = BASE32_NOPAD.encode(&sk.to_bytes());
                            let s = if rng.random_bool(0.5) { s.to_ascii_lowercase() } else { s };
                            SecretKey::from_str(&s).map_err(|e| mm("sk from_str(base32)", "Ok", e, &input))?
                        }
                        "bin" => {
                            let a = SecretKey::from_bytes(&sk.to_bytes());
                            let b = SecretKey::try_from(&a.to_bytes()[..]).map_err(|e| mm("sk TryFrom(to_bytes)", "Ok", e, &input))?;
                            let c3 = SecretKey::from(b.to_bytes());
                            SecretKey::from(&c3.to_bytes())
                        }
                        _ => serde_rt(&sk, enc, &input)?,
                    };
                    same(&what, &sk.to_bytes(), &back.to_bytes(), &input)?;
                    same("public key of the decoded secret key", &sk.public(), &back.public(), &input)?;
                    exercise_sk(&back, &input)
                }
            }
            "sig" => {
                let sk = SecretKey::from_bytes(&rng.random());
                let mut m = vec![0u8; rng.random_range(0..100usize)];
                rng.fill(&mut m[..]);
                let sg = if rng.random_bool(0.25) {
                    // any 64 bytes are a Signature value
                    let mut b = [0u8; 64];
                    rng.fill(&mut b[..]);
                    Signature::from_bytes(&b)
                } else {
                    sk.sign(&m)
                };
                let input = HEXLOWER.encode(&sg.to_bytes());
                let back = match enc {
                    "str" => {
                        let _ = (sg.to_string(), format!("{sg:?}"));
                        return Ok(());
                    }
                    "bin" => {
                        let a = Signature::from_bytes(&sg.to_bytes());
                        Signature::try_from(&a.to_bytes()[..]).map_err(|e| mm("sig TryFrom(to_bytes)", "Ok", e, &input))?
                    }
                    _ => serde_rt(&sg, enc, &input)?,
                };
                same(&what, &sg.to_bytes().to_vec(), &back.to_bytes().to_vec(), &input)?;
                same("Signature Eq", &sg, &back, &input)
            }
            "caddr" => {
                let v = random_custom(rng, vclass[0] == "cheap");
                let input = v.to_string();
                let back = match enc {
                    "str" => CustomAddr::from_str(&v.to_string()).map_err(|e| mm("from_str(Display)", "Ok", e, &input))?,
                    "bin" => CustomAddr::from_bytes(&v.to_vec()).map_err(|e| mm("from_bytes(to_vec)", "Ok", e, &input))?,
                    _ => serde_rt(&v, enc, &input)?,
                };
                same(&what, &v, &back, &input)?;
                check_caddr(&back, v.id(), v.data(), &input)
            }
            "taddr" => {
                let v = random_taddr(rng, &vclass[0]);
                let input = v.to_string();
                let _ = (format!("{v:?}"), v.is_relay(), v.is_ip(), v.is_custom());
                if enc == "str" {
                    return Ok(());
                }
                let back = serde_rt(&v, enc, &input)?;
                same(&what, &v, &back, &input)
            }
            "eaddr" => {
                let id = SecretKey::from_bytes(&rng.random()).public();
                let mut addrs = Vec::new();
                for k in &vclass {
                    for _ in 0..rng.random_range(1..=2) {
                        addrs.push(random_taddr(rng, k));
                    }
                }
                let v = EndpointAddr::from_parts(id, addrs.clone());
                let input = format!("{v:?}");
                let _ = (v.is_empty(), v.ip_addrs().count(), v.relay_urls().count());
                let back = serde_rt(&v, enc, &input)?;
                same(&what, &v, &back, &input)?;
                same("hash of the decoded address", &hash_of(&v), &hash_of(&back), &input)?;
                let rebuilt = EndpointAddr::new(id).with_addrs(addrs);
                same("from_parts and with_addrs build the same address", &v, &rebuilt, &input)
            }
            "rurl" => {
                let v = random_relay_url(rng);
                let input = v.to_string();
                let _ = format!("{v:?}");
                let back = match enc {
                    "str" => RelayUrl::from_str(&v.to_string()).map_err(|e| mm("from_str(Display)", "Ok", e, &input))?,
                    _ => serde_rt(&v, enc, &input)?,
                };
                same(&what, &v, &back, &input)
            }
            other => panic!("harness: unknown type {other} ({support})"),
        }
    }

    // ------------------------------------------------------------------ table layout
    /// Decodes `wire` as `ty`, exercises whatever comes out, and reports (accepted, content bytes).
    fn decode_exercise(ty: &str, wire: &[u8], input: &str) -> Result<Option<Vec<u8>>, Mismatch> {
        fn stable<T: serde::Serialize + serde::de::DeserializeOwned + PartialEq + std::fmt::Debug>(v: &T, input: &str) -> R {
            let _ = format!("{v:?}");
            let w = postcard::to_stdvec(v).map_err(|e| mm("re-encoding a decoded value", "Ok", e, input))?;
            let back: T = postcard::from_bytes(&w).map_err(|e| mm("decoding a re-encoded value", "Ok", e, input))?;
            same("re-encoded value decodes to itself", v, &back, input)
        }
        Ok(match ty {
            "pk" => match postcard::from_bytes::<PublicKey>(wire) {
                Ok(v) => {
                    if !is_point(v.as_bytes()) {
                        return Err(mm("accepted public key is a curve point", "point", "non-point", input));
                    }
                    exercise_pk(&v, input)?;
                    Some(v.as_bytes().to_vec())
                }
                Err(_) => None,
            },
            "sig" => match postcard::from_bytes::<Signature>(wire) {
                Ok(v) => {
                    let _ = (v.to_string(), format!("{v:?}"));
                    stable(&v, input)?;
                    Some(v.to_bytes().to_vec())
                }
                Err(_) => None,
            },
            "caddr" => match postcard::from_bytes::<CustomAddr>(wire) {
                Ok(v) => {
                    check_caddr(&v, v.id(), &v.data().to_vec(), input)?;
                    stable(&v, input)?;
                    Some(v.data().to_vec())
                }
                Err(_) => None,
            },
            "taddr" => match postcard::from_bytes::<TransportAddr>(wire) {
                Ok(v) => {
                    let _ = (v.to_string(), v.is_relay(), v.is_ip(), v.is_custom());
                    if let TransportAddr::Custom(cu) = &v {
                        check_caddr(cu, cu.id(), &cu.data().to_vec(), input)?;
                    }
                    stable(&v, input)?;
                    Some(Vec::new())
                }
                Err(_) => None,
            },
            "eaddr" => match postcard::from_bytes::<EndpointAddr>(wire) {
                Ok(v) => {
                    if !is_point(v.id.as_bytes()) {
                        return Err(mm("accepted endpoint id is a curve point", "point", "non-point", input));
                    }
                    exercise_pk(&v.id, input)?;
                    let _ = (v.is_empty(), v.ip_addrs().count(), v.relay_urls().count());
                    for a in &v.addrs {
                        let _ = a.to_string();
                        if let TransportAddr::Custom(cu) = a {
                            check_caddr(cu, cu.id(), &cu.data().to_vec(), input)?;
                        }
                    }
                    stable(&v, input)?;
                    Some(v.id.as_bytes().to_vec())
                }
                Err(_) => None,
            },
            other => panic!("harness: unknown layout type {other}"),
        })
    }

    fn layout(c: &Value, rng: &mut ChaCha8Rng) -> R {
        let (ty, field, fname, nfields, mutation, verdict) =
            (fs(c, "type"), fu(c, "field"), fs(c, "fname"), fu(c, "nfields"), fs(c, "mut"), fs(c, "verdict"));
        // the value and its wire form field by field (each field encoded on its own)
        let pk = PublicKey::from_bytes(&material(rng, "point")).map_err(|e| mm("from_bytes(point)", "Ok", e, ""))?;
        let kinds = ["ip4", "ip6", "relay", "cinline", "cheap"];
        let (whole, fields): (Vec<u8>, Vec<Vec<u8>>) = match ty {
            "pk" => (postcard::to_stdvec(&pk).expect("ser"), vec![pk.as_bytes().to_vec()]),
            "sig" => {
                let sg = SecretKey::from_bytes(&rng.random()).sign(b"layout");
                (postcard::to_stdvec(&sg).expect("ser"), vec![sg.to_bytes().to_vec()])
            }
            "caddr" => {
                let heap = rng.random_bool(0.5);
                let mut v = random_custom(rng, heap);
                if v.data().is_empty() {
                    v = CustomAddr::from_parts(v.id(), &[rng.random()]);
                }
                let f = vec![
                    postcard::to_stdvec(&v.id()).expect("ser"),
                    postcard::to_stdvec(&(v.data().len() as u64)).expect("ser"),
                    v.data().to_vec(),
                ];
                (postcard::to_stdvec(&v).expect("ser"), f)
            }
            "taddr" => {
                let v = { let k = kinds[rng.random_range(0..kinds.len())]; random_taddr(rng, k) };
                let w = postcard::to_stdvec(&v).expect("ser");
                (w.clone(), vec![w[..1].to_vec(), w[1..].to_vec()])
            }
            "eaddr" => {
                let v = loop {
                    let a = { let k = kinds[rng.random_range(0..kinds.len())]; random_taddr(rng, k) };
                    let b = { let k = kinds[rng.random_range(0..kinds.len())]; random_taddr(rng, k) };
                    if a != b {
                        break EndpointAddr::from_parts(pk, [a, b]);
                    }
                };
                let mut f = vec![pk.as_bytes().to_vec(), vec![2u8]];
                for a in &v.addrs {
                    f.push(postcard::to_stdvec(a).expect("ser"));
                }
                (postcard::to_stdvec(&v).expect("ser"), f)
            }
            other => panic!("harness: unknown layout type {other}"),
        };
        if fields.len() != nfields || fields.concat() != whole {
            return Err(mm("harness-assumption: postcard layout is the spec's field sequence", HEXLOWER.encode(&fields.concat()), HEXLOWER.encode(&whole), ty));
        }
        let start: usize = fields[..field - 1].iter().map(|f| f.len()).sum();
        let flen = fields[field - 1].len();
        assert!(flen > 0, "harness: empty field {fname}");
        let mut wire = whole.clone();
        match mutation {
            "truncate" => wire.truncate(start),
            "flip" => wire[start + rng.random_range(0..flen)] ^= 1 << rng.random_range(0..8),
            "extend" => wire.push(rng.random()),
            other => panic!("harness: unknown mutation {other}"),
        }
        let input = format!("{ty} {mutation} field {field} ({fname}): {} -> {}", HEXLOWER.encode(&whole), HEXLOWER.encode(&wire));
        let got = decode_exercise(ty, &wire, &input)?;
        let content = &wire[start.min(wire.len())..(start + flen).min(wire.len())];
        let want = match verdict {
            "no" => Some(false),
            "yes" => Some(true),
            "point" => Some(is_point(content.try_into().expect("32-byte key field"))),
            "either" => None,
            other => panic!("harness: unknown verdict {other}"),
        };
        if let Some(w) = want {
            if got.is_some() != w {
                return Err(mm("postcard decode verdict", if w { "accept" } else { "reject" }, if got.is_some() { "accept" } else { "reject" }, &input));
            }
        }
        if let (Some(true), Some(bytes)) = (want, got) {
            if ty != "taddr" && bytes != content {
                return Err(mm("decoded content is the mutated field", HEXLOWER.encode(content), HEXLOWER.encode(&bytes), &input));
            }
        }
        Ok(())
    }

    // ------------------------------------------------------------------ AddrSet.tla behaviours
    pub fn run_addrset(args: &Args) {
        drive(args, addrset);
    }

    fn names(v: &Value, k: &str) -> BTreeSet<String> {
        fset(v, k).into_iter().collect()
    }

    fn addrset(c: &Value, rng: &mut ChaCha8Rng) -> R {
        // concrete addresses for the names; c1 / c2 share the id and a 30-byte prefix across the inline/heap cutoff
        let id: u64 = [0u64, 7, 0x544f52, u64::MAX][rng.random_range(0..4)];
        let mut data = vec![0u8; 31];
        rng.fill(&mut data[..]);
        let ipkind = if rng.random_bool(0.5) { "ip4" } else { "ip6" };
        let world: Vec<(&str, TransportAddr)> = vec![
            ("r1", random_taddr(rng, "relay")),
            ("i1", random_taddr(rng, ipkind)),
            ("c1", TransportAddr::Custom(CustomAddr::from_parts(id, &data[..30]))),
            ("c2", TransportAddr::Custom(CustomAddr::from_parts(id, &data[..31]))),
        ];
        let addr_of = |n: &str| world.iter().find(|(k, _)| *k == n).unwrap_or_else(|| panic!("harness: unknown address name {n}")).1.clone();
        let name_of = |a: &TransportAddr| world.iter().find(|(_, v)| v == a).map(|(k, _)| k.to_string()).unwrap_or_else(|| format!("foreign:{a}"));
        let pk = SecretKey::from_bytes(&rng.random()).public();
        let mut v = EndpointAddr::new(pk);
        let steps = c.get("steps").and_then(|s| s.as_array()).expect("steps");
        let mut input = String::new();
        for (i, st) in steps.iter().enumerate() {
            let (op, args) = (fs(st, "op"), fset(st, "args"));
            input.push_str(&format!("{op}{args:?} "));
            v = match op {
                "from_parts" => EndpointAddr::from_parts(pk, args.iter().map(|n| addr_of(n))),
                "with_addrs" => v.with_addrs(args.iter().map(|n| addr_of(n))),
                "with_relay_url" => match addr_of(&args[0]) {
                    TransportAddr::Relay(u) => v.with_relay_url(u),
                    _ => panic!("harness: not a relay address"),
                },
                "with_ip_addr" => match addr_of(&args[0]) {
                    TransportAddr::Ip(a) => v.with_ip_addr(a),
                    _ => panic!("harness: not an ip address"),
                },
                other => panic!("harness: unknown op {other}"),
            };
            let view = st.get("view").expect("view");
            let got: BTreeSet<String> = v.addrs.iter().map(&name_of).collect();
            if got != names(view, "addrs") || v.addrs.len() != got.len() {
                return Err(mm(&format!("addrs after step {i} ({op})"), format!("{:?}", names(view, "addrs")), format!("{got:?}"), &input));
            }
            if v.is_empty() != fb(view, "empty") {
                return Err(mm(&format!("is_empty after step {i}"), fb(view, "empty"), v.is_empty(), &input));
            }
            let ips: BTreeSet<String> = v.ip_addrs().map(|a| name_of(&TransportAddr::Ip(*a))).collect();
            let relays: BTreeSet<String> = v.relay_urls().map(|u| name_of(&TransportAddr::Relay(u.clone()))).collect();
            if ips != names(view, "ips") || relays != names(view, "relays") {
                return Err(mm(&format!("ip_addrs / relay_urls after step {i}"), format!("{:?} / {:?}", names(view, "ips"), names(view, "relays")), format!("{ips:?} / {relays:?}"), &input));
            }
            if v.id != pk {
                return Err(mm("id is kept by the builders", pk, v.id, &input));
            }
        }
        // canonical form: the same set given in another order, with duplicates
        let Some(last) = steps.last() else { return Ok(()) };
        let mut again: Vec<TransportAddr> = names(last.get("view").expect("view"), "addrs").iter().map(|n| addr_of(n)).collect();
        let dup = again.clone();
        again.extend(dup);
        for i in (1..again.len()).rev() {
            let j = rng.random_range(0..=i);
            again.swap(i, j);
        }
        let w = EndpointAddr::from_parts(pk, again);
        same("equal sets are equal values", &v, &w, &input)?;
        same("equal values hash equally", &hash_of(&v), &hash_of(&w), &input)?;
        same("equal values have one postcard encoding", &postcard::to_stdvec(&v).expect("ser"), &postcard::to_stdvec(&w).expect("ser"), &input)?;
        same("equal values have one JSON encoding", &serde_json::to_string(&v).expect("ser"), &serde_json::to_string(&w).expect("ser"), &input)?;
        let back: EndpointAddr = serde_rt(&v, "postcard", &input)?;
        same("postcard round trip identity", &v, &back, &input)?;
        let back: EndpointAddr = serde_rt(&v, "json", &input)?;
        same("JSON round trip identity", &v, &back, &input)
    }
}

// =====================================================================================
/// C01: concretise the offers of TlsAuth.tla against iroh's TLS verifiers (verifier layer) and
/// dial real endpoints on 127.0.0.1 (end-to-end layer).
mod c01 {
    use std::{collections::BTreeMap, net::SocketAddr, time::Duration};

    use data_encoding::{BASE32_DNSSEC, HEXLOWER};
    use iroh::{Endpoint, EndpointAddr, TransportAddr, endpoint::presets, verif_hooks_ident as hooks};
    use iroh_base::{PublicKey, SecretKey};
    use rustls::pki_types::ServerName;

    use super::*;

    const KEYS: [&str; 3] = ["k1", "k2", "k3"];
    /// DER prefix of an Ed25519 SubjectPublicKeyInfo (RFC 8410): SEQ{ SEQ{ OID 1.3.101.112 } BIT STRING(0 unused) }
    const SPKI_PREFIX: [u8; 12] = [0x30, 0x2a, 0x30, 0x05, 0x06, 0x03, 0x2b, 0x65, 0x70, 0x03, 0x21, 0x00];
    const ED25519: u16 = 0x0807;
    const OTHER_SCHEMES: [u16; 6] = [0x0403, 0x0804, 0x0401, 0x0808, 0x0000, 0x0503];

    fn spki(key: &[u8; 32]) -> Vec<u8> {
        let mut v = SPKI_PREFIX.to_vec();
        v.extend_from_slice(key);
        v
    }

    fn der(tag: u8, content: &[u8]) -> Vec<u8> {
        let mut v = vec![tag];
        let n = content.len();
        if n < 128 {
            v.push(n as u8);
        } else if n < 256 {
            v.extend_from_slice(&[0x81, n as u8]);
        } else {
            v.extend_from_slice(&[0x82, (n >> 8) as u8, n as u8]);
        }
        v.extend_from_slice(content);
        v
    }

    /// An X.509-shaped certificate around the Ed25519 SPKI of `key` (self-"signed" with `sig`).
    fn x509(key: &[u8; 32], sig: &[u8; 64], rng: &mut ChaCha8Rng) -> Vec<u8> {
        let alg = der(0x30, &[0x06, 0x03, 0x2b, 0x65, 0x70]);
        let name = der(0x30, &der(0x31, &der(0x30, &[&[0x06, 0x03, 0x55, 0x04, 0x03][..], &der(0x0c, b"iroh")[..]].concat())));
        let validity = der(0x30, &[der(0x17, b"240101000000Z"), der(0x17, b"340101000000Z")].concat());
        let serial: [u8; 8] = rng.random();
        let tbs = der(
            0x30,
            &[der(0xa0, &[0x02, 0x01, 0x02]), der(0x02, &[&[0x01][..], &serial[..]].concat()), alg.clone(), name.clone(), validity, name, spki(key)]
                .concat(),
        );
        let mut bits = vec![0u8];
        bits.extend_from_slice(sig);
        der(0x30, &[tbs, alg, der(0x03, &bits)].concat())
    }

    fn non_point(rng: &mut ChaCha8Rng) -> [u8; 32] {
        loop {
            let b: [u8; 32] = rng.random();
            if ed25519_dalek::VerifyingKey::from_bytes(&b).is_err() {
                return b;
            }
        }
    }

    fn sign_with(sk: &SecretKey, msg: &[u8]) -> Vec<u8> {
        use ed25519_dalek::Signer;
        ed25519_dalek::SigningKey::from_bytes(&sk.to_bytes()).sign(msg).to_bytes().to_vec()
    }

    /// The content covered by a TLS 1.3 CertificateVerify signature (RFC 8446 4.4.3).
    fn transcript(server_signs: bool, rng: &mut ChaCha8Rng) -> Vec<u8> {
        let mut m = vec![0x20u8; 64];
        m.extend_from_slice(if server_signs { b"TLS 1.3, server CertificateVerify" } else { b"TLS 1.3, client CertificateVerify" });
        m.push(0);
        let hash: [u8; 32] = rng.random();
        m.extend_from_slice(&hash);
        m
    }

    struct World {
        keys: BTreeMap<&'static str, SecretKey>,
        /// the concrete small-order point standing for the spec's weak key "w1" in this run
        weak: Option<PublicKey>,
    }

    const WEAK: &str = "w1";

    /// Encodings of the eight small-order points of edwards25519 (plus the non-canonical and
    /// sign-bit spellings) that ed25519-dalek itself takes as a (weak) verifying key.
    fn small_order_encodings() -> Vec<[u8; 32]> {
        let hex = [
            "0100000000000000000000000000000000000000000000000000000000000000", // order 1
            "0000000000000000000000000000000000000000000000000000000000000000", // order 4
            "0000000000000000000000000000000000000000000000000000000000000080", // order 4
            "26e8958fc2b227b045c3f489f2ef98f0d5dfac05d3c63339b13802886d53fc05", // order 8
            "26e8958fc2b227b045c3f489f2ef98f0d5dfac05d3c63339b13802886d53fc85", // order 8
            "c7176a703d4dd84fba3c0b760d10670f2a2053fa2c39ccc64ec7fd7792ac037a", // order 8
            "c7176a703d4dd84fba3c0b760d10670f2a2053fa2c39ccc64ec7fd7792ac03fa", // order 8
            "0100000000000000000000000000000000000000000000000000000000000080", // order 1, sign bit set
        ];
        let mut cands: Vec<[u8; 32]> = hex
            .iter()
            .map(|h| {
                let v = HEXLOWER.decode(h.as_bytes()).unwrap_or_else(|e| panic!("harness: bad hex constant {h}: {e}"));
                <[u8; 32]>::try_from(v).unwrap_or_else(|v| panic!("harness: constant {h} has {} bytes", v.len()))
            })
            .collect();
        // y = p - 1 (order 2), and the non-canonical spellings y = p (= 0) and y = p + 1 (= 1), each with either sign bit
        for first in [0xecu8, 0xed, 0xee] {
            for last in [0x7fu8, 0xff] {
                let mut b = [0xffu8; 32];
                b[0] = first;
                b[31] = last;
                cands.push(b);
            }
        }
        let out: Vec<[u8; 32]> = cands
            .into_iter()
            .filter(|b| ed25519_dalek::VerifyingKey::from_bytes(b).map(|v| v.is_weak()).unwrap_or(false))
            .collect();
        assert!(out.len() >= 8, "harness: expected the 8 small-order points to be weak verifying keys, got {}", out.len());
        out
    }

    /// The universal forgeries: s = 0 with R any small-order point (and R = the presented key).
    /// For a small-order key A, [0]B = R + [k]A holds for exactly one small-order R per transcript.
    fn forgeries(key: Option<[u8; 32]>) -> Vec<Vec<u8>> {
        let mut rs = small_order_encodings();
        if let Some(k) = key {
            if !rs.contains(&k) {
                rs.push(k);
            }
        }
        rs.iter()
            .map(|r| {
                let mut sig = r.to_vec();
                sig.extend_from_slice(&[0u8; 32]);
                sig
            })
            .collect()
    }

    impl World {
        fn new(rng: &mut ChaCha8Rng) -> Self {
            let mut keys: BTreeMap<&'static str, SecretKey> = BTreeMap::new();
            for k in KEYS {
                loop {
                    let sk = SecretKey::from_bytes(&rng.random());
                    if keys.values().all(|o| o.public() != sk.public()) {
                        keys.insert(k, sk);
                        break;
                    }
                }
            }
            Self { keys, weak: None }
        }
        fn sk(&self, k: &str) -> &SecretKey {
            self.keys.get(k).unwrap_or_else(|| panic!("harness: unknown key name {k}"))
        }
        fn pk(&self, k: &str) -> PublicKey {
            if k == WEAK {
                return self.weak.expect("harness: weak key not set");
            }
            self.sk(k).public()
        }
        fn name_of(&self, pk: &PublicKey) -> String {
            if self.weak == Some(*pk) {
                return WEAK.to_string();
            }
            self.keys.iter().find(|(_, sk)| sk.public() == *pk).map(|(n, _)| n.to_string()).unwrap_or_else(|| format!("foreign:{pk}"))
        }
    }

    /// Builds the server name of the given form; forms are derived from the real `name::encode` output.
    fn build_name(w: &World, form: &str, nkey: &str, rng: &mut ChaCha8Rng) -> Result<String, Mismatch> {
        if form == "ip" {
            return Ok(["127.0.0.1", "::1", "192.0.2.7"][rng.random_range(0..3)].to_string());
        }
        if form == "bare" {
            return Ok("iroh.invalid".into());
        }
        if form == "emptyLabel" {
            return Ok(".iroh.invalid".into());
        }
        if form == "nonPoint" {
            return Ok(format!("{}.iroh.invalid", BASE32_DNSSEC.encode(&non_point(rng))));
        }
        let pk = w.pk(nkey);
        let enc = hooks::name_encode(pk);
        // the shape the property states, checked with an independent base32 decoder
        let label = enc.strip_suffix(".iroh.invalid").ok_or_else(|| mm("encode(id) ends in .iroh.invalid", "<base32>.iroh.invalid", &enc, &enc))?;
        let dec = BASE32_DNSSEC.decode(label.as_bytes()).ok();
        if dec.as_deref() != Some(&pk.as_bytes()[..]) || label.contains('.') {
            return Err(mm("encode(id) label is the base32 (DNSSEC alphabet) of the 32 key bytes", HEXLOWER.encode(pk.as_bytes()), &enc, &enc));
        }
        let syms: Vec<char> = "0123456789abcdefghijklmnopqrstuv".chars().collect();
        Ok(match form {
            "enc" => enc.clone(),
            "encUpper" => format!("{}.iroh.invalid", label.to_ascii_uppercase()),
            "upperSuffix" => format!("{label}.IROH.INVALID"),
            "trailingDot" => format!("{enc}."),
            "subdomain" => format!("{}.{enc}", ["x", "www", "a-b"][rng.random_range(0..3)]),
            "noMid" => format!("{label}.invalid"),
            "wrongTld" => format!("{label}.iroh.{}", ["example", "invalid2", "localhost", "invali"][rng.random_range(0..4)]),
            "wrongMid" => format!("{label}.{}.invalid", ["irox", "iro", "irohh", "n0"][rng.random_range(0..4)]),
            "short" => format!("{}.iroh.invalid", &label[..51]),
            "long" => {
                let extra: String = (0..rng.random_range(1..=4)).map(|_| syms[rng.random_range(0..32)]).collect();
                format!("{label}{extra}.iroh.invalid")
            }
            "notBase32" => {
                let mut cs: Vec<char> = label.chars().collect();
                let i = rng.random_range(1..51usize);
                cs[i] = ['w', 'x', 'y', 'z', '-', '_'][rng.random_range(0..6)];
                format!("{}.iroh.invalid", cs.into_iter().collect::<String>())
            }
            "nonCanon" => {
                let mut cs: Vec<char> = label.chars().collect();
                let v = syms.iter().position(|c| *c == cs[51]).expect("symbol");
                cs[51] = syms[(v & 0x10) | rng.random_range(1..16usize)];
                format!("{}.iroh.invalid", cs.into_iter().collect::<String>())
            }
            other => panic!("harness: unknown name form {other}"),
        })
    }

    fn build_ee(w: &World, cls: &str, ekey: &str, rng: &mut ChaCha8Rng) -> Vec<u8> {
        match cls {
            "spki" => spki(w.pk(ekey).as_bytes()),
            "badPrefix" => {
                let mut v = spki(w.pk(ekey).as_bytes());
                // not the OID's last byte (that is class badAlg)
                let i = [0usize, 1, 2, 3, 4, 5, 6, 7, 9, 10, 11][rng.random_range(0..11)];
                v[i] ^= 1 << rng.random_range(0..8);
                v
            }
            "badAlg" => {
                let mut v = spki(w.pk(ekey).as_bytes());
                v[8] = [0x6e, 0x6f, 0x71][rng.random_range(0..3)]; // X25519, X448, Ed448
                v
            }
            "trailing" => {
                let mut v = spki(w.pk(ekey).as_bytes());
                v.push(rng.random());
                v
            }
            "x509" => {
                let sig: [u8; 64] = sign_with(w.sk(ekey), b"tbs").try_into().expect("64");
                x509(w.pk(ekey).as_bytes(), &sig, rng)
            }
            "rawkey" => w.pk(ekey).as_bytes().to_vec(),
            "nonPointSpki" => spki(&non_point(rng)),
            "garbage" => {
                let n = [1usize, 12, 43, 44, 45, 200][rng.random_range(0..6)];
                let mut v = vec![0u8; n];
                rng.fill(&mut v[..]);
                v
            }
            "empty" => Vec::new(),
            other => panic!("harness: unknown ee class {other}"),
        }
    }

    /// One offer; an offer that involves the weak key is run once per small-order point that
    /// `EndpointId::from_bytes` accepts (exhaustively, not sampled).
    fn verifier_case(c: &Value, rng: &mut ChaCha8Rng) -> R {
        let mut w = World::new(rng);
        let o = c.get("o").expect("o");
        if fs(o, "nkey") != WEAK && fs(o, "ekey") != WEAK {
            return verifier_case_in(c, &w, rng);
        }
        for enc in small_order_encodings() {
            // a stricter from_bytes that refuses small-order ids leaves nothing to dial or present
            if let Ok(pk) = PublicKey::from_bytes(&enc) {
                w.weak = Some(pk);
                verifier_case_in(c, &w, rng)?;
            }
        }
        Ok(())
    }

    fn verifier_case_in(c: &Value, w: &World, rng: &mut ChaCha8Rng) -> R {
        let side = fs(c, "side");
        let o = c.get("o").expect("o");
        let (form, nkey, eecls, ekey) = (fs(o, "form"), fs(o, "nkey"), fs(o, "ee"), fs(o, "ekey"));
        let (inter, signer, scheme) = (fu(o, "inter"), fs(o, "signer"), fs(o, "scheme"));
        let (cert_ok, sig_ok) = (fb(c, "cert_ok"), fb(c, "sig_ok"));
        let client = side == "client";
        let honest = fb(c, "honest");

        // --- what the peer presents
        let msg = transcript(client, rng);
        let mut ee = build_ee(w, eecls, ekey, rng);
        let mut sig: Vec<u8> = match signer {
            // replaced below by the whole list of universal forgeries
            "forgery" => Vec::new(),
            "none" => {
                let n = [64usize, 64, 64, 0, 63, 65][rng.random_range(0..6)];
                let mut v = vec![0u8; n];
                rng.fill(&mut v[..]);
                v
            }
            "replay" => {
                // a genuine signature by the presented key (or some key) over another handshake's transcript
                let other = transcript(client, rng);
                let by = if KEYS.contains(&ekey) { w.sk(ekey).clone() } else { SecretKey::from_bytes(&rng.random()) };
                sign_with(&by, &other)
            }
            k => sign_with(w.sk(k), &msg),
        };
        let mut scheme_id = if scheme == "ed25519" { ED25519 } else { OTHER_SCHEMES[rng.random_range(0..OTHER_SCHEMES.len())] };
        if honest {
            // the honest offer is what the real certificate resolver / signer of that endpoint produces
            let (chain, sch, s) = hooks::present(w.sk(ekey), &msg).ok_or_else(|| mm("resolver presents a certificate and signs", "Some", "None", ""))?;
            if chain.len() != 1 || chain[0] != ee {
                return Err(mm("an endpoint presents exactly the Ed25519 SPKI of its key", HEXLOWER.encode(&ee), format!("{:?}", chain.iter().map(|c| HEXLOWER.encode(c)).collect::<Vec<_>>()), ""));
            }
            ee = chain[0].clone();
            sig = s;
            scheme_id = sch;
        }
        let sigs: Vec<Vec<u8>> = if signer == "forgery" {
            let key = if ekey == "none" { None } else { Some(*w.pk(ekey).as_bytes()) };
            forgeries(key)
        } else {
            vec![sig]
        };
        let inters: Vec<Vec<u8>> = (0..inter)
            .map(|_| match rng.random_range(0..3) {
                0 => spki(SecretKey::from_bytes(&rng.random()).public().as_bytes()),
                1 => ee.clone(),
                _ => build_ee(w, "garbage", "none", rng),
            })
            .collect();
        let input = format!(
            "side={side} name={form}({nkey}) ee={eecls}({ekey})={} inter={inter} signer={signer} scheme={scheme_id:#06x}",
            HEXLOWER.encode(&ee)
        );

        // --- certificate check
        let got_cert: Result<(), String> = if client {
            let name = build_name(w, form, nkey, rng)?;
            let input = format!("{input} name={name}");
            // name layer: decode against what the spec allows
            let allowed = fset(c, "decode");
            let got = hooks::name_decode(&name).map(|pk| w.name_of(&pk)).unwrap_or_else(|| "none".into());
            if !allowed.contains(&got) {
                return Err(mm("name::decode", format!("{allowed:?}"), got, &input));
            }
            let decoded = got != "none";
            match ServerName::try_from(name.as_str()) {
                // not a server name at all: it can never reach the verifier
                Err(e) => Err(format!("not presentable: {e}")),
                Ok(sn) => {
                    let r = hooks::server_cert(&ee, &inters, &sn).map_err(|e| format!("{e:?}"));
                    // a lenient-but-allowed decode changes what the certificate check may answer
                    if allowed.len() > 1 && !decoded && cert_ok {
                        if r.is_ok() {
                            return Err(mm("verify_server_cert for a name that does not decode", "reject", "accept", &input));
                        }
                        return check_sigs(client, &msg, &ee, scheme_id, &sigs, sig_ok, &input);
                    }
                    r
                }
            }
        } else {
            hooks::client_cert(&ee, &inters).map_err(|e| format!("{e:?}"))
        };
        if got_cert.is_ok() != cert_ok {
            let what = if client { "verify_server_cert" } else { "verify_client_cert" };
            return Err(mm(what, if cert_ok { "accept" } else { "reject" }, format!("{got_cert:?}"), &input));
        }
        check_sigs(client, &msg, &ee, scheme_id, &sigs, sig_ok, &input)
    }

    fn check_sigs(client: bool, msg: &[u8], ee: &[u8], scheme: u16, sigs: &[Vec<u8>], sig_ok: bool, input: &str) -> R {
        for sig in sigs {
            let input = if sigs.len() > 1 { format!("{input} sig={}", HEXLOWER.encode(sig)) } else { input.to_string() };
            check_sig(client, msg, ee, scheme, sig, sig_ok, &input)?;
        }
        Ok(())
    }

    fn check_sig(client: bool, msg: &[u8], ee: &[u8], scheme: u16, sig: &[u8], sig_ok: bool, input: &str) -> R {
        let got = if client { hooks::server_sig(msg, ee, scheme, sig) } else { hooks::client_sig(msg, ee, scheme, sig) };
        if got.is_ok() != sig_ok {
            return Err(mm("verify_tls13_signature", if sig_ok { "accept" } else { "reject" }, format!("{got:?}"), input));
        }
        if hooks::tls12_sig(!client, msg, ee, scheme, sig) {
            return Err(mm("verify_tls12_signature", "reject", "accept", input));
        }
        Ok(())
    }

    pub fn run_verifier(args: &Args) {
        let (offers_auth, srv_raw, cli_raw, s1, s2) = hooks::policy();
        assert!(offers_auth && srv_raw && cli_raw, "harness: verifier policy: client auth offered and raw public keys required");
        assert!(s1 == vec![ED25519] && s2 == vec![ED25519], "harness: verifier policy: only Ed25519 is advertised");
        drive(args, verifier_case);
    }

    // ------------------------------------------------------------------ end to end
    const ALPN: &[u8] = b"verif/c01";

    #[derive(Serialize, Default)]
    struct E2eObs {
        idx: u64,
        env_error: Option<String>,
        connected: bool,
        client_remote: String,
        client_error: String,
        server_accepted: bool,
        server_remote: String,
        server_error: String,
        second_connected: Option<bool>,
        second_remote: String,
        elapsed_ms: u64,
    }

    async fn bind(sk: SecretKey) -> Result<(Endpoint, SocketAddr), String> {
        let ep = Endpoint::builder(presets::Minimal)
            .secret_key(sk)
            .alpns(vec![ALPN.to_vec()])
            .clear_ip_transports()
            .bind_addr("127.0.0.1:0")
            .map_err(|e| format!("bind_addr: {e}"))?
            .bind()
            .await
            .map_err(|e| format!("bind: {e:?}"))?;
        let addr = ep.bound_sockets().into_iter().find(|a| a.is_ipv4()).ok_or("no bound IPv4 socket")?;
        let addr = SocketAddr::new(std::net::Ipv4Addr::LOCALHOST.into(), addr.port());
        Ok((ep, addr))
    }

    async fn e2e_case(c: &Value, seed: u64) -> E2eObs {
        let idx = c.get("idx").and_then(|v| v.as_u64()).expect("idx");
        let mut rng = case_rng(seed, idx, 0);
        let w = World::new(&mut rng);
        let (dialer, dial, actual) = (fs(c, "dialer"), fs(c, "dial"), fs(c, "actual"));
        let again = c.get("again").and_then(|v| v.as_bool()).unwrap_or(false);
        let mut obs = E2eObs { idx, ..Default::default() };
        let t0 = std::time::Instant::now();
        let (server, saddr) = match bind(w.sk(actual).clone()).await {
            Ok(x) => x,
            Err(e) => {
                obs.env_error = Some(e);
                return obs;
            }
        };
        let (client, _) = match bind(w.sk(dialer).clone()).await {
            Ok(x) => x,
            Err(e) => {
                obs.env_error = Some(e);
                return obs;
            }
        };
        // acceptor: reports every handshake outcome on the accepting side
        let (tx, mut rx) = tokio::sync::mpsc::unbounded_channel::<Result<PublicKey, String>>();
        let srv = server.clone();
        let acceptor = tokio::spawn(async move {
            while let Some(incoming) = srv.accept().await {
                let tx = tx.clone();
                tokio::spawn(async move {
                    match incoming.await {
                        Ok(conn) => {
                            let _ = tx.send(Ok(conn.remote_id()));
                            conn.closed().await;
                        }
                        Err(e) => {
                            let _ = tx.send(Err(format!("{e:?}")));
                        }
                    }
                });
            }
        });
        let target = EndpointAddr::from_parts(w.pk(dial), [TransportAddr::Ip(saddr)]);
        let rounds = if again { 2 } else { 1 };
        for round in 0..rounds {
            let r = tokio::time::timeout(Duration::from_secs(20), client.connect(target.clone(), ALPN)).await;
            let (connected, remote, err) = match r {
                Err(_) => (false, String::new(), "timeout".to_string()),
                Ok(Err(e)) => (false, String::new(), format!("{e:?}")),
                Ok(Ok(conn)) => {
                    let id = w.name_of(&conn.remote_id());
                    // make sure the acceptor saw the connection before closing
                    obs.server_error = "no event".into();
                    let deadline = tokio::time::Instant::now() + Duration::from_secs(10);
                    while let Ok(Some(ev)) = tokio::time::timeout_at(deadline, rx.recv()).await {
                        match ev {
                            Ok(pk) => {
                                obs.server_accepted = true;
                                obs.server_remote = w.name_of(&pk);
                                obs.server_error.clear();
                                break;
                            }
                            Err(e) => obs.server_error = e,
                        }
                    }
                    conn.close(0u32.into(), b"done");
                    (true, id, String::new())
                }
            };
            if round == 0 {
                obs.connected = connected;
                obs.client_remote = remote;
                obs.client_error = err;
                if !connected {
                    // the accepting side must not have an established connection either
                    if let Ok(Some(ev)) = tokio::time::timeout(Duration::from_millis(300), rx.recv()).await {
                        match ev {
                            Ok(pk) => {
                                obs.server_accepted = true;
                                obs.server_remote = w.name_of(&pk);
                            }
                            Err(e) => obs.server_error = e,
                        }
                    }
                }
            } else {
                obs.second_connected = Some(connected);
                obs.second_remote = remote;
            }
        }
        client.close().await;
        server.close().await;
        acceptor.abort();
        obs.elapsed_ms = t0.elapsed().as_millis() as u64;
        obs
    }

    pub fn run_e2e(args: &Args) {
        let cases: Vec<Value> = read_ndjson(&args.path("in"));
        let mut out = NdjsonOut::create(&args.path("out"));
        let seed: u64 = std::env::var("VERIF_SEED").ok().and_then(|s| s.parse().ok()).unwrap_or(1);
        let rt = tokio::runtime::Builder::new_multi_thread().worker_threads(4).enable_all().build().expect("runtime");
        for c in &cases {
            let obs = rt.block_on(e2e_case(c, seed));
            out.emit(&obs);
        }
        out.finish();
    }

    // ------------------------------------------------------------------ several dials of one endpoint
    #[derive(Serialize, Default)]
    struct DialObs {
        ok: bool,
        remote: String,
        error: String,
        server_remote: String,
    }
    #[derive(Serialize, Default)]
    struct SessObs {
        idx: u64,
        env_error: Option<String>,
        dials: Vec<DialObs>,
        elapsed_ms: u64,
    }

    /// Replays one behaviour of TlsSession.tla: one dialer endpoint, one server endpoint per key.
    async fn session_case(c: &Value, seed: u64) -> SessObs {
        let idx = c.get("idx").and_then(|v| v.as_u64()).expect("idx");
        let mut rng = case_rng(seed, idx, 0);
        let w = World::new(&mut rng);
        let mut obs = SessObs { idx, ..Default::default() };
        let t0 = std::time::Instant::now();
        let dialer_key = SecretKey::from_bytes(&rng.random());
        let (client, _) = match bind(dialer_key.clone()).await {
            Ok(x) => x,
            Err(e) => {
                obs.env_error = Some(e);
                return obs;
            }
        };
        let mut servers: BTreeMap<&'static str, (Endpoint, SocketAddr, tokio::sync::mpsc::UnboundedReceiver<Result<PublicKey, String>>)> = BTreeMap::new();
        let mut tasks = Vec::new();
        for k in KEYS {
            let (ep, addr) = match bind(w.sk(k).clone()).await {
                Ok(x) => x,
                Err(e) => {
                    obs.env_error = Some(e);
                    return obs;
                }
            };
            let (tx, rx) = tokio::sync::mpsc::unbounded_channel::<Result<PublicKey, String>>();
            let srv = ep.clone();
            tasks.push(tokio::spawn(async move {
                while let Some(incoming) = srv.accept().await {
                    let tx = tx.clone();
                    tokio::spawn(async move {
                        match incoming.await {
                            Ok(conn) => {
                                let _ = tx.send(Ok(conn.remote_id()));
                                conn.closed().await;
                            }
                            Err(e) => {
                                let _ = tx.send(Err(format!("{e:?}")));
                            }
                        }
                    });
                }
            }));
            servers.insert(k, (ep, addr, rx));
        }
        for d in c.get("dials").and_then(|v| v.as_array()).expect("dials") {
            let (dial, at) = (fs(d, "dial"), fs(d, "at"));
            let (_, saddr, rx) = servers.get_mut(at).expect("server");
            while rx.try_recv().is_ok() {}
            let target = EndpointAddr::from_parts(w.pk(dial), [TransportAddr::Ip(*saddr)]);
            let mut o = DialObs::default();
            match tokio::time::timeout(Duration::from_secs(20), client.connect(target, ALPN)).await {
                Err(_) => o.error = "timeout".into(),
                Ok(Err(e)) => o.error = format!("{e:?}"),
                Ok(Ok(conn)) => {
                    o.ok = true;
                    o.remote = w.name_of(&conn.remote_id());
                    // the acceptor's report for this connection; failure reports of earlier (refused)
                    // dials to the same endpoint may still be in flight and are skipped
                    let deadline = tokio::time::Instant::now() + Duration::from_secs(10);
                    while let Ok(Some(ev)) = tokio::time::timeout_at(deadline, rx.recv()).await {
                        if let Ok(pk) = ev {
                            o.server_remote = if pk == dialer_key.public() { "dialer".into() } else { w.name_of(&pk) };
                            break;
                        }
                    }
                    // leave time for the session tickets that follow the handshake to arrive
                    tokio::time::sleep(Duration::from_millis(150)).await;
                    conn.close(0u32.into(), b"done");
                }
            }
            obs.dials.push(o);
        }
        client.close().await;
        for (_, (ep, _, _)) in servers {
            ep.close().await;
        }
        for t in tasks {
            t.abort();
        }
        obs.elapsed_ms = t0.elapsed().as_millis() as u64;
        obs
    }

    pub fn run_sessions(args: &Args) {
        let cases: Vec<Value> = read_ndjson(&args.path("in"));
        let mut out = NdjsonOut::create(&args.path("out"));
        let seed: u64 = std::env::var("VERIF_SEED").ok().and_then(|s| s.parse().ok()).unwrap_or(1);
        let rt = tokio::runtime::Builder::new_multi_thread().worker_threads(4).enable_all().build().expect("runtime");
        for c in &cases {
            let obs = rt.block_on(session_case(c, seed));
            out.emit(&obs);
        }
        out.finish();
    }

    // ------------------------------------------------------------------ the key-less impostor, end to end
    /// A peer that holds no secret key at all: it presents the neutral element of edwards25519 (a point
    /// of order 1 that `EndpointId::from_bytes` accepts) as its raw public key and answers every request
    /// for a signature with the constant universal forgery R = neutral element, s = 0.  Plain noq/rustls.
    mod impostor {
        use std::sync::Arc;

        use noq::crypto::rustls::{QuicClientConfig, QuicServerConfig};
        use rustls::{
            DigitallySignedStruct, DistinguishedName, SignatureAlgorithm, SignatureScheme,
            client::{
                ResolvesClientCert,
                danger::{HandshakeSignatureValid, ServerCertVerified, ServerCertVerifier},
            },
            pki_types::{CertificateDer, ServerName, SubjectPublicKeyInfoDer, UnixTime},
            server::{
                ClientHello, ResolvesServerCert,
                danger::{ClientCertVerified, ClientCertVerifier},
            },
            sign::{CertifiedKey, Signer, SigningKey},
        };

        pub const WEAK_KEY: [u8; 32] = {
            let mut k = [0u8; 32];
            k[0] = 1;
            k
        };

        fn weak_spki() -> SubjectPublicKeyInfoDer<'static> {
            SubjectPublicKeyInfoDer::from(super::spki(&WEAK_KEY))
        }

        #[derive(Debug, Clone)]
        struct NoSecret;
        impl SigningKey for NoSecret {
            fn choose_scheme(&self, offered: &[SignatureScheme]) -> Option<Box<dyn Signer>> {
                offered.contains(&SignatureScheme::ED25519).then(|| Box::new(self.clone()) as Box<dyn Signer>)
            }
            fn algorithm(&self) -> SignatureAlgorithm {
                SignatureAlgorithm::ED25519
            }
            fn public_key(&self) -> Option<SubjectPublicKeyInfoDer<'_>> {
                Some(weak_spki())
            }
        }
        impl Signer for NoSecret {
            fn sign(&self, _message: &[u8]) -> Result<Vec<u8>, rustls::Error> {
                let mut sig = vec![0u8; 64];
                sig[0] = 1;
                Ok(sig)
            }
            fn scheme(&self) -> SignatureScheme {
                SignatureScheme::ED25519
            }
        }

        #[derive(Debug)]
        struct PresentWeakKey(Arc<CertifiedKey>);
        impl PresentWeakKey {
            fn new() -> Self {
                let cert = CertificateDer::from(weak_spki().to_vec());
                Self(Arc::new(CertifiedKey::new(vec![cert], Arc::new(NoSecret))))
            }
        }
        impl ResolvesClientCert for PresentWeakKey {
            fn resolve(&self, _: &[&[u8]], _: &[SignatureScheme]) -> Option<Arc<CertifiedKey>> {
                Some(self.0.clone())
            }
            fn only_raw_public_keys(&self) -> bool {
                true
            }
            fn has_certs(&self) -> bool {
                true
            }
        }
        impl ResolvesServerCert for PresentWeakKey {
            fn resolve(&self, _: ClientHello<'_>) -> Option<Arc<CertifiedKey>> {
                Some(self.0.clone())
            }
            fn only_raw_public_keys(&self) -> bool {
                true
            }
        }

        /// The impostor does not care who it talks to.
        #[derive(Debug)]
        struct AcceptAnyone;
        impl ServerCertVerifier for AcceptAnyone {
            fn verify_server_cert(&self, _: &CertificateDer<'_>, _: &[CertificateDer<'_>], _: &ServerName<'_>, _: &[u8], _: UnixTime) -> Result<ServerCertVerified, rustls::Error> {
                Ok(ServerCertVerified::assertion())
            }
            fn verify_tls12_signature(&self, _: &[u8], _: &CertificateDer<'_>, _: &DigitallySignedStruct) -> Result<HandshakeSignatureValid, rustls::Error> {
                Ok(HandshakeSignatureValid::assertion())
            }
            fn verify_tls13_signature(&self, _: &[u8], _: &CertificateDer<'_>, _: &DigitallySignedStruct) -> Result<HandshakeSignatureValid, rustls::Error> {
                Ok(HandshakeSignatureValid::assertion())
            }
            fn supported_verify_schemes(&self) -> Vec<SignatureScheme> {
                vec![SignatureScheme::ED25519]
            }
            fn requires_raw_public_keys(&self) -> bool {
                true
            }
        }
        impl ClientCertVerifier for AcceptAnyone {
            fn root_hint_subjects(&self) -> &[DistinguishedName] {
                &[]
            }
            fn verify_client_cert(&self, _: &CertificateDer<'_>, _: &[CertificateDer<'_>], _: UnixTime) -> Result<ClientCertVerified, rustls::Error> {
                Ok(ClientCertVerified::assertion())
            }
            fn verify_tls12_signature(&self, _: &[u8], _: &CertificateDer<'_>, _: &DigitallySignedStruct) -> Result<HandshakeSignatureValid, rustls::Error> {
                Ok(HandshakeSignatureValid::assertion())
            }
            fn verify_tls13_signature(&self, _: &[u8], _: &CertificateDer<'_>, _: &DigitallySignedStruct) -> Result<HandshakeSignatureValid, rustls::Error> {
                Ok(HandshakeSignatureValid::assertion())
            }
            fn supported_verify_schemes(&self) -> Vec<SignatureScheme> {
                vec![SignatureScheme::ED25519]
            }
            fn requires_raw_public_keys(&self) -> bool {
                true
            }
        }

        pub fn client_config(alpn: &[u8]) -> Result<noq::ClientConfig, String> {
            let mut crypto = rustls::ClientConfig::builder_with_provider(iroh::tls::default_provider())
                .with_protocol_versions(&[&rustls::version::TLS13])
                .map_err(|e| e.to_string())?
                .dangerous()
                .with_custom_certificate_verifier(Arc::new(AcceptAnyone))
                .with_client_cert_resolver(Arc::new(PresentWeakKey::new()));
            crypto.alpn_protocols = vec![alpn.to_vec()];
            crypto.enable_sni = false;
            Ok(noq::ClientConfig::new(Arc::new(QuicClientConfig::try_from(crypto).map_err(|e| e.to_string())?)))
        }

        pub fn server_config(alpn: &[u8]) -> Result<noq::ServerConfig, String> {
            let mut crypto = rustls::ServerConfig::builder_with_provider(iroh::tls::default_provider())
                .with_protocol_versions(&[&rustls::version::TLS13])
                .map_err(|e| e.to_string())?
                .with_client_cert_verifier(Arc::new(AcceptAnyone))
                .with_cert_resolver(Arc::new(PresentWeakKey::new()));
            crypto.alpn_protocols = vec![alpn.to_vec()];
            Ok(noq::ServerConfig::with_crypto(Arc::new(QuicServerConfig::try_from(crypto).map_err(|e| e.to_string())?)))
        }
    }

    #[derive(Serialize, Default)]
    struct ImpObs {
        idx: u64,
        env_error: Option<String>,
        /// the real iroh endpoint ended up with an established connection
        established: bool,
        remote: String,
        error: String,
    }

    async fn impostor_case(c: &Value, seed: u64) -> ImpObs {
        let idx = c.get("idx").and_then(|v| v.as_u64()).expect("idx");
        let mut rng = case_rng(seed, idx, 0);
        let mut obs = ImpObs { idx, ..Default::default() };
        let Ok(weak_id) = PublicKey::from_bytes(&impostor::WEAK_KEY) else {
            obs.error = "the weak point is not an endpoint id".into();
            return obs;
        };
        let (real, real_addr) = match bind(SecretKey::from_bytes(&rng.random())).await {
            Ok(x) => x,
            Err(e) => {
                obs.env_error = Some(e);
                return obs;
            }
        };
        let lo: SocketAddr = (std::net::Ipv4Addr::LOCALHOST, 0).into();
        if fs(c, "side") == "server" {
            // the real endpoint accepts; a key-less client claims to be the weak id
            let accept = tokio::spawn({
                let real = real.clone();
                async move {
                    let incoming = real.accept().await?;
                    Some(incoming.await.map(|conn| conn.remote_id()).map_err(|e| format!("{e:?}")))
                }
            });
            let cfg = match impostor::client_config(ALPN) {
                Ok(c) => c,
                Err(e) => {
                    obs.env_error = Some(e);
                    return obs;
                }
            };
            let imp = match noq::Endpoint::client(lo) {
                Ok(e) => e,
                Err(e) => {
                    obs.env_error = Some(format!("impostor bind: {e}"));
                    return obs;
                }
            };
            let connecting = match imp.connect_with(cfg, real_addr, "localhost") {
                Ok(c) => c,
                Err(e) => {
                    obs.env_error = Some(format!("impostor connect: {e}"));
                    return obs;
                }
            };
            // what the impostor sees is irrelevant (and racy): the accepting endpoint decides
            let imp_side = tokio::time::timeout(Duration::from_secs(30), connecting).await;
            match tokio::time::timeout(Duration::from_secs(30), accept).await {
                Ok(Ok(Some(Ok(id)))) => {
                    obs.established = true;
                    obs.remote = if id == weak_id { WEAK.into() } else { id.to_string() };
                }
                Ok(Ok(Some(Err(e)))) => obs.error = e,
                Ok(Ok(None)) => obs.env_error = Some("endpoint closed before accepting".into()),
                Ok(Err(e)) => obs.env_error = Some(format!("accept task: {e}")),
                Err(_) => obs.env_error = Some("the accepting endpoint saw no handshake within 30 s".into()),
            }
            drop(imp_side);
            imp.close(0u32.into(), b"");
        } else {
            // the real endpoint dials the weak id; the address belongs to a key-less server
            let cfg = match impostor::server_config(ALPN) {
                Ok(c) => c,
                Err(e) => {
                    obs.env_error = Some(e);
                    return obs;
                }
            };
            let imp = match noq::Endpoint::server(cfg, lo) {
                Ok(e) => e,
                Err(e) => {
                    obs.env_error = Some(format!("impostor bind: {e}"));
                    return obs;
                }
            };
            let imp_addr = match imp.local_addr() {
                Ok(a) => a,
                Err(e) => {
                    obs.env_error = Some(format!("impostor addr: {e}"));
                    return obs;
                }
            };
            let task = tokio::spawn({
                let imp = imp.clone();
                async move {
                    while let Some(incoming) = imp.accept().await {
                        tokio::spawn(async move {
                            if let Ok(conn) = incoming.await {
                                conn.closed().await;
                            }
                        });
                    }
                }
            });
            let target = EndpointAddr::from_parts(weak_id, [TransportAddr::Ip(imp_addr)]);
            match tokio::time::timeout(Duration::from_secs(30), real.connect(target, ALPN)).await {
                Ok(Ok(conn)) => {
                    obs.established = true;
                    let id = conn.remote_id();
                    obs.remote = if id == weak_id { WEAK.into() } else { id.to_string() };
                }
                Ok(Err(e)) => obs.error = format!("{e:?}"),
                Err(_) => obs.error = "timeout".into(),
            }
            imp.close(0u32.into(), b"");
            task.abort();
        }
        real.close().await;
        obs
    }

    pub fn run_impostor(args: &Args) {
        let cases: Vec<Value> = read_ndjson(&args.path("in"));
        let mut out = NdjsonOut::create(&args.path("out"));
        let seed: u64 = std::env::var("VERIF_SEED").ok().and_then(|s| s.parse().ok()).unwrap_or(1);
        let rt = tokio::runtime::Builder::new_multi_thread().worker_threads(4).enable_all().build().expect("runtime");
        for c in &cases {
            let obs = rt.block_on(impostor_case(c, seed));
            out.emit(&obs);
        }
        out.finish();
    }
}
