//! Conformance drivers for the socket send/receive-path properties (group "socktx").
//! Subcommands: c20 (bind address acceptance), c17 (relay receive loop), c18 (mapped
//! addresses), c19 (send dispatch).
use serde::{Deserialize, Serialize};
use vh::io::{Args, NdjsonOut, read_ndjson};

fn main() {
    let args = Args::parse();
    match args.sub.as_str() {
        "c20" => c20::run(&args),
        "c17" => c17::run(&args),
        "c18" => c18::run(&args),
        "c19" => c19::run(&args),
        other => {
            eprintln!("unknown subcommand {other}");
            std::process::exit(2);
        }
    }
}

/// C20: executes TLC-generated call sequences (specs/socket/BindAddrs.tla) on the real
/// `iroh::endpoint::Builder` and reports the result of every call.
mod c20 {
    use std::net::{IpAddr, Ipv4Addr, Ipv6Addr, SocketAddr};

    use iroh::endpoint::{BindOpts, Builder, InvalidSocketAddr};

    use super::*;

    #[derive(Deserialize)]
    struct Req {
        fam: String,
        pfx: String,
        def: String,
    }
    #[derive(Deserialize)]
    struct Case {
        reqs: Vec<Req>,
        /// concretisation variant (chooses concrete prefix lengths, addresses, ports, API form)
        variant: u64,
    }
    #[derive(Serialize)]
    struct Obs {
        case: usize,
        /// result of each executed call: "ok" | "dup" | "prefix" | "other:<msg>" | "panic:<msg>"
        res: Vec<String>,
        /// concrete calls, for the replay file / samples
        calls: Vec<String>,
    }

    const MID_V4: [u8; 5] = [24, 1, 31, 8, 16];
    const MID_V6: [u8; 5] = [64, 1, 127, 48, 96];

    fn concrete(r: &Req, i: usize, variant: u64) -> (SocketAddr, BindOpts, bool) {
        let k = (variant as usize).wrapping_add(i);
        let v4 = r.fam == "v4";
        let prefix = match (r.pfx.as_str(), v4) {
            ("zero", _) => 0,
            ("mid", true) => MID_V4[k % MID_V4.len()],
            ("mid", false) => MID_V6[k % MID_V6.len()],
            ("max", true) => 32,
            ("max", false) => 128,
            ("over", true) => 33 + ((k % 3) as u8) * 50, // 33, 83, 133
            ("over", false) => [129u8, 200, 255][k % 3],
            other => panic!("unknown prefix class {other:?}"),
        };
        let ip: IpAddr = if v4 {
            match variant % 3 {
                0 => Ipv4Addr::new(127, 0, 0, 1 + i as u8).into(),
                1 => Ipv4Addr::new(10, i as u8, 2, 3).into(),
                _ => Ipv4Addr::new(192, 168, 7, 9).into(), // the same address for every call
            }
        } else {
            match variant % 3 {
                0 => Ipv6Addr::LOCALHOST.into(),
                1 => Ipv6Addr::new(0xfd00, 0, 0, i as u16, 0, 0, 0, 1).into(),
                _ => Ipv6Addr::new(0x2001, 0xdb8, 0, 0, 0, 0, 0, 7).into(),
            }
        };
        let port = if variant % 2 == 0 { 0 } else { 40000 + i as u16 };
        let mut opts = BindOpts::default().set_prefix_len(prefix);
        match r.def.as_str() {
            "unset" => {}
            "true" => opts = opts.set_is_default_route(true),
            "false" => opts = opts.set_is_default_route(false),
            other => panic!("unknown default flag {other:?}"),
        }
        if k % 2 == 1 {
            opts = opts.set_is_required(false);
        }
        // `bind_addr(a)` is documented as prefix 0 / flag unset: use it for that class in odd variants
        let plain = r.pfx == "zero" && r.def == "unset" && k % 2 == 0 && variant % 2 == 1;
        (SocketAddr::new(ip, port), opts, plain)
    }

    fn classify(e: &InvalidSocketAddr) -> String {
        match e {
            InvalidSocketAddr::DuplicateDefaultAddr { .. } => "dup".into(),
            InvalidSocketAddr::InvalidPrefixLength { .. } => "prefix".into(),
            other => format!("other:{other}"),
        }
    }

    fn exec(c: &Case) -> (Vec<String>, Vec<String>) {
        let mut b: Option<Builder> = Some(Builder::empty());
        let mut res = Vec::new();
        let mut calls = Vec::new();
        for (i, r) in c.reqs.iter().enumerate() {
            let Some(builder) = b.take() else { break };
            let (addr, opts, plain) = concrete(r, i, c.variant);
            let as_str = c.variant % 4 == 3;
            calls.push(if plain {
                format!("bind_addr({addr})")
            } else {
                format!(
                    "bind_addr_with_opts({addr}, prefix_len={}, default_route={}, required={})",
                    opts.prefix_len(),
                    r.def,
                    opts.is_required()
                )
            });
            let out = match (plain, as_str) {
                (true, false) => builder.bind_addr(addr),
                (true, true) => builder.bind_addr(addr.to_string().as_str()),
                (false, false) => builder.bind_addr_with_opts(addr, opts),
                (false, true) => builder.bind_addr_with_opts(addr.to_string().as_str(), opts),
            };
            match out {
                Ok(nb) => {
                    res.push("ok".to_string());
                    b = Some(nb);
                }
                Err(e) => res.push(classify(&e)),
            }
        }
        (res, calls)
    }

    pub fn run(args: &Args) {
        let cases: Vec<Case> = read_ndjson(&args.path("in"));
        let mut out = NdjsonOut::create(&args.path("out"));
        for (case, c) in cases.iter().enumerate() {
            let obs = match vh::io::catch(|| exec(c)) {
                Ok((res, calls)) => Obs { case, res, calls },
                Err(p) => Obs { case, res: vec![format!("panic:{p}")], calls: vec![] },
            };
            out.emit(&obs);
        }
        out.finish();
    }
}

/// C17: executes TLC-generated arrive/poll behaviours (specs/socket/RelayRecv.tla) on the real
/// `RelayTransport::poll_recv` (through the cfg-guarded `FedRelayTransport`), then drains the
/// transport the way noq's driver does (poll again after Ready or after a wake-up, else sleep).
mod c17 {
    use std::{
        io::IoSliceMut,
        num::NonZeroU16,
        sync::{
            Arc,
            atomic::{AtomicUsize, Ordering},
        },
        task::{Context, Poll, Wake, Waker},
    };

    use bytes::Bytes;
    use iroh::{RelayUrl, SecretKey, verif_hooks_socktx::FedRelayTransport};
    use iroh_relay::protos::relay::Datagrams;

    use super::*;

    #[derive(Deserialize)]
    struct Step {
        op: String,
        len: usize,
        seg: usize,
        nb: usize,
    }
    #[derive(Deserialize)]
    struct Case {
        buflen: usize,
        steps: Vec<Step>,
        /// concretisation factor: every abstract length is multiplied by it (1, or a multiple of 4)
        scale: usize,
        /// number of buffers used by the drain phase
        drain_nb: usize,
    }
    /// One delivered datagram: bytes `off .. off+len` of batch `idx` (in bytes, scaled).
    #[derive(Serialize)]
    struct Piece {
        idx: usize,
        off: usize,
        len: usize,
        /// the bytes equal the bytes fed for (idx, off, len) and the slot's source is batch idx's sender
        intact: bool,
    }
    #[derive(Serialize)]
    struct StepObs {
        op: String,
        /// arrive/close: the waker was called during the call
        woke: bool,
        /// poll: "ready" | "pending" | "closed" | "err:<..>"
        ret: String,
        /// poll: number of slots filled
        slots: usize,
        pieces: Vec<Piece>,
    }
    #[derive(Serialize, Default)]
    struct Obs {
        case: usize,
        steps: Vec<StepObs>,
        drain: Vec<StepObs>,
        /// the drain phase hit its poll bound while the transport kept returning Ready
        livelock: bool,
        panic: Option<String>,
    }

    struct CountWaker(AtomicUsize);
    impl Wake for CountWaker {
        fn wake(self: Arc<Self>) {
            self.0.fetch_add(1, Ordering::SeqCst);
        }
        fn wake_by_ref(self: &Arc<Self>) {
            self.0.fetch_add(1, Ordering::SeqCst);
        }
    }

    fn contents(idx: usize, len: usize, scale: usize) -> Vec<u8> {
        if scale == 1 {
            (0..len).map(|o| (idx * 32 + o) as u8).collect()
        } else {
            (0..len)
                .map(|o| {
                    let w = o / 4;
                    [idx as u8, (w >> 16) as u8, (w >> 8) as u8, w as u8][o % 4]
                })
                .collect()
        }
    }

    struct Driver {
        t: FedRelayTransport,
        wakes: Arc<CountWaker>,
        waker: Waker,
        fed: Vec<Vec<u8>>, // contents per batch idx (1-based; [0] unused)
        buflen: usize,
        scale: usize,
    }

    impl Driver {
        fn wake_count(&self) -> usize {
            self.wakes.0.load(Ordering::SeqCst)
        }

        fn poll(&mut self, nb: usize) -> StepObs {
            let mut storage: Vec<Vec<u8>> = (0..nb).map(|_| vec![0xEEu8; self.buflen]).collect();
            let mut bufs: Vec<IoSliceMut<'_>> = storage.iter_mut().map(|b| IoSliceMut::new(b)).collect();
            let mut cx = Context::from_waker(&self.waker);
            let r = self.t.poll_recv(&mut cx, &mut bufs);
            drop(bufs);
            let mut obs = StepObs { op: "poll".into(), woke: false, ret: String::new(), slots: 0, pieces: vec![] };
            match r {
                Poll::Pending => obs.ret = "pending".into(),
                Poll::Ready(Err(e)) => {
                    obs.ret = if e.kind() == std::io::ErrorKind::NotConnected { "closed".into() } else { format!("err:{e}") }
                }
                Poll::Ready(Ok(slots)) => {
                    obs.ret = "ready".into();
                    obs.slots = slots.len();
                    for (i, (len, stride, src)) in slots.iter().enumerate() {
                        let data = &storage[i][..(*len).min(self.buflen)];
                        if *len == 0 || *stride == 0 {
                            obs.pieces.push(Piece { idx: 0, off: 0, len: *len, intact: false });
                            continue;
                        }
                        for chunk in data.chunks(*stride) {
                            obs.pieces.push(self.identify(chunk, src, *len > self.buflen));
                        }
                    }
                }
            }
            obs
        }

        fn identify(&self, chunk: &[u8], src: &str, overlong: bool) -> Piece {
            let (idx, off) = if self.scale == 1 {
                ((chunk[0] / 32) as usize, (chunk[0] % 32) as usize)
            } else if chunk.len() >= 4 {
                (chunk[0] as usize, 4 * (((chunk[1] as usize) << 16) | ((chunk[2] as usize) << 8) | chunk[3] as usize))
            } else {
                (0, 0)
            };
            let intact = !overlong
                && idx >= 1
                && idx < self.fed.len()
                && self.fed[idx].get(off..off + chunk.len()) == Some(chunk)
                && src.contains(&format!("relay{idx}.test"));
            Piece { idx, off, len: chunk.len(), intact }
        }
    }

    fn exec(c: &Case) -> Obs {
        let rt = tokio::runtime::Builder::new_current_thread().enable_all().build().unwrap();
        let _g = rt.enter();
        let me = SecretKey::from_bytes(&[0x11; 32]).public();
        let wakes = Arc::new(CountWaker(AtomicUsize::new(0)));
        let mut d = Driver {
            t: FedRelayTransport::new(64, me),
            waker: Waker::from(wakes.clone()),
            wakes,
            fed: vec![vec![]],
            buflen: c.buflen * c.scale,
            scale: c.scale,
        };
        let mut obs = Obs::default();
        let mut last_ret = String::from("none");
        let mut wakes_at_last_poll = 0usize;
        let mut ndgrams = 0usize;
        for s in &c.steps {
            match s.op.as_str() {
                "arrive" => {
                    let idx = d.fed.len();
                    let data = contents(idx, s.len * c.scale, c.scale);
                    d.fed.push(data.clone());
                    ndgrams += if s.seg == 0 { 1 } else { s.len.div_ceil(s.seg) };
                    let url: RelayUrl = format!("https://relay{idx}.test").parse().unwrap();
                    let src = SecretKey::from_bytes(&[idx as u8; 32]).public();
                    let dg = Datagrams {
                        ecn: None,
                        segment_size: NonZeroU16::new((s.seg * c.scale) as u16),
                        contents: Bytes::from(data),
                    };
                    let before = d.wake_count();
                    assert!(d.t.feed(url, src, dg), "receive queue full");
                    obs.steps.push(StepObs { op: "arrive".into(), woke: d.wake_count() > before, ret: "-".into(), slots: 0, pieces: vec![] });
                }
                "close" => {
                    let before = d.wake_count();
                    d.t.close();
                    obs.steps.push(StepObs { op: "close".into(), woke: d.wake_count() > before, ret: "-".into(), slots: 0, pieces: vec![] });
                }
                "poll" => {
                    wakes_at_last_poll = d.wake_count();
                    let o = d.poll(s.nb);
                    last_ret = o.ret.clone();
                    obs.steps.push(o);
                }
                "end" => {}
                other => panic!("unknown op {other}"),
            }
        }
        // drain as noq's driver: poll (again) after Ready, after a wake-up, or if never polled
        let bound = 2 * ndgrams + 8;
        loop {
            let due = last_ret == "none" || last_ret == "ready" || d.wake_count() > wakes_at_last_poll;
            if !due || last_ret == "closed" || last_ret.starts_with("err:") {
                break;
            }
            if obs.drain.len() >= bound {
                obs.livelock = true;
                break;
            }
            wakes_at_last_poll = d.wake_count();
            let o = d.poll(c.drain_nb);
            last_ret = o.ret.clone();
            obs.drain.push(o);
        }
        obs
    }

    pub fn run(args: &Args) {
        let cases: Vec<Case> = read_ndjson(&args.path("in"));
        let mut out = NdjsonOut::create(&args.path("out"));
        for (case, c) in cases.iter().enumerate() {
            let mut obs = match vh::io::catch(|| exec(c)) {
                Ok(o) => o,
                Err(p) => Obs { panic: Some(p), ..Default::default() },
            };
            obs.case = case;
            out.emit(&obs);
        }
        out.finish();
    }
}

/// C18: (a) hammers the real three `AddrMap`s (through the cfg-guarded `AddrMaps`) from several
/// threads and writes a call/ret trace for specs/socket/Trace_MappedAddrs.tla; (b) evaluates
/// `MultipathMappedAddr::from` on concretised abstract addresses (classification table).
mod c18 {
    use std::{
        net::{IpAddr, Ipv4Addr, Ipv6Addr, SocketAddr},
        sync::{
            Arc, Mutex,
            atomic::{AtomicU64, Ordering},
        },
    };

    use iroh::{
        EndpointId, RelayUrl, SecretKey,
        verif_hooks_socktx::{AddrMaps, HOST_SPACE, classify},
    };
    use iroh_base::CustomAddr;
    use rand::{RngExt, SeedableRng};
    use rand_chacha::ChaCha8Rng;

    use super::*;

    const PREFIX: [u8; 6] = [0xfd, 0x15, 0x07, 0x0a, 0x51, 0x0b];
    const KINDS: [&str; 3] = ["endpoint", "relay", "custom"];

    #[derive(Deserialize)]
    struct Hammer {
        traces: usize,
        threads: usize,
        ops: usize,
        keys: usize,
        /// 0: full 64-bit host space; n: hosts reduced modulo n (collisions in the generator loop)
        host_space: u64,
        seed: u64,
    }
    #[derive(Serialize, Clone)]
    struct Rec {
        ev: &'static str,
        t: String,
        name: &'static str,
        kind: &'static str,
        key: String,
        host: String,
        rhost: String,
        rkey: String,
        /// ret of get: MultipathMappedAddr::from(returned address) kind; "-" otherwise
        cls: String,
    }

    fn subnet(kind: &str) -> u16 {
        match kind {
            "endpoint" => 0,
            "relay" => 1,
            _ => 3,
        }
    }
    fn endpoint_key(i: usize) -> EndpointId {
        SecretKey::from_bytes(&[(i + 1) as u8; 32]).public()
    }
    /// relay keys are pairs: two urls x several endpoint ids, so that pairs sharing one component differ
    fn relay_key(i: usize) -> (RelayUrl, EndpointId) {
        let url: RelayUrl = format!("https://relay{}.test", i % 2).parse().unwrap();
        (url, endpoint_key(i / 2))
    }
    fn custom_key(i: usize) -> CustomAddr {
        CustomAddr::from_parts((i % 2) as u64, &[(i / 2) as u8, 7, 7])
    }

    fn do_get(m: &AddrMaps, kind: &str, i: usize) -> SocketAddr {
        match kind {
            "endpoint" => m.get_endpoint(&endpoint_key(i)),
            "relay" => {
                let (u, e) = relay_key(i);
                m.get_relay(&u, &e)
            }
            _ => m.get_custom(&custom_key(i)),
        }
    }
    /// reverse lookup, mapped back to the key name ("nokey" if absent, "foreign" if an unknown key came back)
    fn do_lookup(m: &AddrMaps, kind: &str, a: Ipv6Addr, nkeys: usize) -> String {
        let idx = match kind {
            "endpoint" => m.lookup_endpoint(a).expect("in range").map(|k| (0..nkeys).position(|i| endpoint_key(i) == k)),
            "relay" => m.lookup_relay(a).expect("in range").map(|k| (0..nkeys).position(|i| relay_key(i) == k)),
            _ => m.lookup_custom(a).expect("in range").map(|k| (0..nkeys).position(|i| custom_key(i) == k)),
        };
        match idx {
            None => "nokey".into(),
            Some(None) => "foreign".into(),
            Some(Some(i)) => format!("k{}", i + 1),
        }
    }
    fn v6(a: SocketAddr) -> Ipv6Addr {
        match a.ip() {
            IpAddr::V6(a) => a,
            IpAddr::V4(a) => a.to_ipv6_mapped(),
        }
    }
    fn synth(kind: &str, host: u64) -> Ipv6Addr {
        let mut b = [0u8; 16];
        b[..6].copy_from_slice(&PREFIX);
        b[6..8].copy_from_slice(&subnet(kind).to_be_bytes());
        b[8..].copy_from_slice(&host.to_be_bytes());
        Ipv6Addr::from(b)
    }

    fn hammer(h: &Hammer, out: &mut NdjsonOut) -> usize {
        HOST_SPACE.store(h.host_space, Ordering::SeqCst);
        let mut nrec = 0;
        for trace in 0..h.traces {
            let maps = AddrMaps::default();
            let seq = Arc::new(AtomicU64::new(0));
            let pool: Arc<Mutex<Vec<(&'static str, Ipv6Addr)>>> = Arc::default();
            let mut handles = Vec::new();
            for t in 0..h.threads {
                let (maps, seq, pool) = (maps.clone(), seq.clone(), pool.clone());
                let (ops, nkeys, hs) = (h.ops, h.keys, h.host_space);
                let mut rng = ChaCha8Rng::seed_from_u64(h.seed ^ ((trace as u64) << 16) ^ t as u64);
                handles.push(std::thread::spawn(move || {
                    let tn = format!("t{}", t + 1);
                    let mut log: Vec<(u64, Rec)> = Vec::with_capacity(2 * ops);
                    for _ in 0..ops {
                        let kind = KINDS[rng.random_range(0..3)];
                        if rng.random_range(0..100) < 55 {
                            let i = rng.random_range(0..nkeys);
                            let key = format!("k{}", i + 1);
                            let s1 = seq.fetch_add(1, Ordering::SeqCst);
                            let a = do_get(&maps, kind, i);
                            let s2 = seq.fetch_add(1, Ordering::SeqCst);
                            // publish only after the ret record has its sequence number
                            pool.lock().unwrap().push((kind, v6(a)));
                            let (cls, carried) = classify(a);
                            let cls = if carried.ip() == a.ip() && a.port() == 12345 { cls.to_string() } else { format!("{cls}!carried={carried}") };
                            let rhost = v6(a).to_string();
                            let base = Rec { ev: "call", t: tn.clone(), name: "get", kind, key, host: "none".into(), rhost, rkey: "nokey".into(), cls: "-".into() };
                            log.push((s1, base.clone()));
                            log.push((s2, Rec { ev: "ret", cls, ..base }));
                        } else {
                            // an address some get() returned, or a guess inside the kind's range
                            let known = {
                                let p = pool.lock().unwrap();
                                let c: Vec<_> = p.iter().filter(|(k, _)| *k == kind).map(|(_, a)| *a).collect();
                                if !c.is_empty() && rng.random_range(0..100) < 70 { Some(c[rng.random_range(0..c.len())]) } else { None }
                            };
                            let a = known.unwrap_or_else(|| synth(kind, if hs != 0 { rng.random_range(0..hs) } else { rng.random_range(0..4u64) }));
                            let s1 = seq.fetch_add(1, Ordering::SeqCst);
                            let rkey = do_lookup(&maps, kind, a, nkeys);
                            let s2 = seq.fetch_add(1, Ordering::SeqCst);
                            let base = Rec { ev: "call", t: tn.clone(), name: "lookup", kind, key: "nokey".into(), host: a.to_string(), rhost: "none".into(), rkey: "nokey".into(), cls: "-".into() };
                            log.push((s1, base.clone()));
                            log.push((s2, Rec { ev: "ret", rkey, ..base }));
                        }
                    }
                    log
                }));
            }
            let mut all: Vec<(u64, Rec)> = handles.into_iter().flat_map(|h| h.join().expect("worker thread")).collect();
            all.sort_by_key(|(s, _)| *s);
            for (_, r) in &all {
                out.emit(r);
            }
            nrec += all.len();
            out.emit(&Rec { ev: "reset", t: "-".into(), name: "-", kind: "-", key: "nokey".into(), host: "none".into(), rhost: "none".into(), rkey: "nokey".into(), cls: "-".into() });
            nrec += 1;
        }
        HOST_SPACE.store(0, Ordering::SeqCst);
        nrec
    }


    // ---------------------------------------------------------------- contention phase
    #[derive(Deserialize)]
    struct Contend {
        threads: usize,
        rounds: usize,
        /// agreeing rounds to emit as a sample (evenly spaced)
        sample: usize,
        /// at most this many disagreeing rounds are emitted
        max_suspicious: usize,
    }
    #[derive(Serialize)]
    struct ContendSummary {
        rounds: usize,
        /// rounds whose observations disagree (several addresses for the key, a lookup not answering the
        /// key, an address seen in another round): all of them (up to max_suspicious) go to the trace
        suspicious: usize,
        emitted_suspicious: usize,
        emitted_sample: usize,
    }
    /// What one thread saw in one round (sequence numbers: s1 before the barrier, s2 after get returned,
    /// s3 before / s4 after the lookup of the address it was given).
    #[derive(Clone, Copy)]
    struct Seen {
        s1: u64,
        s2: u64,
        s3: u64,
        s4: u64,
        addr: Ipv6Addr,
        /// lookup(addr): 0 none, 1 the round's key, 2 another key
        back: u8,
    }
    fn round_kind(r: usize) -> &'static str {
        match r % 8 {
            0 => "endpoint",
            1 => "relay",
            _ => "custom",
        }
    }
    fn round_custom_key(r: usize) -> CustomAddr {
        CustomAddr::from_parts(7, &(r as u64).to_be_bytes())
    }
    fn round_endpoint_key(r: usize) -> EndpointId {
        let mut b = [0x5au8; 32];
        b[..8].copy_from_slice(&(r as u64).to_be_bytes());
        SecretKey::from_bytes(&b).public()
    }

    /// K threads, released together by a spin barrier in every round, all call get() on the same
    /// brand-new key of the round and then look their address up again.
    fn contend(c: &Contend, out: &mut NdjsonOut) -> ContendSummary {
        use std::sync::atomic::AtomicUsize;
        HOST_SPACE.store(0, Ordering::SeqCst);
        let maps = AddrMaps::default();
        let seq = Arc::new(AtomicU64::new(0));
        let arrived = Arc::new(AtomicUsize::new(0));
        let url: RelayUrl = "https://relay0.test".parse().unwrap();
        // keys are made before the race so that nothing but the barrier precedes get()
        let ekeys: Arc<Vec<Option<EndpointId>>> =
            Arc::new((0..c.rounds).map(|r| (round_kind(r) != "custom").then(|| round_endpoint_key(r))).collect());
        let mut handles = Vec::new();
        for _t in 0..c.threads {
            let (maps, seq, arrived, ekeys, url) = (maps.clone(), seq.clone(), arrived.clone(), ekeys.clone(), url.clone());
            let (rounds, k) = (c.rounds, c.threads);
            handles.push(std::thread::spawn(move || {
                let mut log: Vec<Seen> = Vec::with_capacity(rounds);
                for r in 0..rounds {
                    let kind = round_kind(r);
                    let ckey = round_custom_key(r);
                    let s1 = seq.fetch_add(1, Ordering::SeqCst);
                    // spin barrier: round r is open once (r + 1) * k arrivals were counted
                    arrived.fetch_add(1, Ordering::SeqCst);
                    let mut spins = 0u32;
                    while arrived.load(Ordering::Acquire) < (r + 1) * k {
                        spins += 1;
                        if spins % 2048 == 0 {
                            std::thread::yield_now();
                        } else {
                            std::hint::spin_loop();
                        }
                    }
                    let a = match kind {
                        "endpoint" => maps.get_endpoint(ekeys[r].as_ref().unwrap()),
                        "relay" => maps.get_relay(&url, ekeys[r].as_ref().unwrap()),
                        _ => maps.get_custom(&ckey),
                    };
                    let s2 = seq.fetch_add(1, Ordering::SeqCst);
                    let a6 = v6(a);
                    let s3 = seq.fetch_add(1, Ordering::SeqCst);
                    let back = match kind {
                        "endpoint" => maps.lookup_endpoint(a6).flatten().map(|x| Some(x) == ekeys[r]),
                        "relay" => maps.lookup_relay(a6).flatten().map(|x| x.0 == url && Some(x.1) == ekeys[r]),
                        _ => maps.lookup_custom(a6).flatten().map(|x| x == ckey),
                    };
                    let s4 = seq.fetch_add(1, Ordering::SeqCst);
                    log.push(Seen { s1, s2, s3, s4, addr: a6, back: match back { None => 0, Some(true) => 1, Some(false) => 2 } });
                }
                log
            }));
        }
        let logs: Vec<Vec<Seen>> = handles.into_iter().map(|h| h.join().expect("contention thread")).collect();
        // which rounds disagree?  (selection only: the verdict is TLC's, on the emitted records)
        let mut owner: std::collections::HashMap<(&'static str, Ipv6Addr), usize> = Default::default();
        let mut partner: Vec<Option<usize>> = vec![None; c.rounds];
        let mut suspicious: Vec<usize> = Vec::new();
        for r in 0..c.rounds {
            let first = logs[0][r].addr;
            let mut bad = logs.iter().any(|l| l[r].addr != first || l[r].back != 1);
            for l in &logs {
                match owner.insert((round_kind(r), l[r].addr), r) {
                    Some(o) if o != r => {
                        bad = true;
                        partner[r] = Some(o);
                    }
                    _ => {}
                }
            }
            if bad {
                suspicious.push(r);
            }
        }
        let step = (c.rounds / c.sample.max(1)).max(1);
        let sample: Vec<usize> = (0..c.rounds).step_by(step).filter(|r| !suspicious.contains(r)).take(c.sample).collect();
        let emit_round = |rs: &[usize], out: &mut NdjsonOut| {
            let mut recs: Vec<(u64, Rec)> = Vec::new();
            let mut names: Vec<Ipv6Addr> = Vec::new();
            for (ki, &r) in rs.iter().enumerate() {
                let kind = round_kind(r);
                let key = format!("k{}", ki + 1);
                for (t, l) in logs.iter().enumerate() {
                    let s = l[r];
                    let hn = match names.iter().position(|x| *x == s.addr) {
                        Some(i) => i,
                        None => {
                            names.push(s.addr);
                            names.len() - 1
                        }
                    };
                    // round-local host names keep TLC's universe small; the real address is carried in `addr`
                    let host = format!("a{}", hn + 1);
                    let (cls, carried) = classify(SocketAddr::new(s.addr.into(), 12345));
                    let cls = if carried.ip() == IpAddr::from(s.addr) { cls.to_string() } else { format!("{cls}!carried={carried}") };
                    let tn = format!("t{}", t + 1);
                    let g = Rec { ev: "call", t: tn.clone(), name: "get", kind, key: key.clone(), host: "none".into(), rhost: host.clone(), rkey: "nokey".into(), cls: "-".into() };
                    recs.push((s.s1, g.clone()));
                    recs.push((s.s2, Rec { ev: "ret", cls: format!("{cls}"), ..g }));
                    let lk = Rec { ev: "call", t: tn, name: "lookup", kind, key: "nokey".into(), host, rhost: "none".into(), rkey: "nokey".into(), cls: format!("round {r} addr {}", s.addr) };
                    recs.push((s.s3, lk.clone()));
                    let rkey = match s.back { 0 => "nokey".to_string(), 1 => key.clone(), _ => "foreign".to_string() };
                    recs.push((s.s4, Rec { ev: "ret", rkey, ..lk }));
                }
            }
            recs.sort_by_key(|(s, _)| *s);
            for (_, r) in &recs {
                out.emit(r);
            }
            out.emit(&Rec { ev: "reset", t: "-".into(), name: "-", kind: "-", key: "nokey".into(), host: "none".into(), rhost: "none".into(), rkey: "nokey".into(), cls: "-".into() });
        };
        let mut emitted_suspicious = 0;
        for &r in suspicious.iter().take(c.max_suspicious) {
            match partner[r] {
                Some(o) => emit_round(&[o, r], out),
                None => emit_round(&[r], out),
            }
            emitted_suspicious += 1;
        }
        for &r in &sample {
            emit_round(&[r], out);
        }
        ContendSummary { rounds: c.rounds, suspicious: suspicious.len(), emitted_suspicious, emitted_sample: sample.len() }
    }

    #[derive(Deserialize)]
    struct ClsCase {
        fam: String,
        dev: usize,
        subnet: u16,
        /// concretisation: sign of the deviation, host bits, port
        variant: u64,
    }
    #[derive(Serialize)]
    struct ClsObs {
        case: usize,
        addr: String,
        kind: String,
        carried_ok: bool,
    }

    fn concretise(c: &ClsCase) -> SocketAddr {
        let mut rng = ChaCha8Rng::seed_from_u64(c.variant);
        let port: u16 = [12345u16, 0, 1, 443, 65535][(c.variant % 5) as usize];
        let mut b = [0u8; 16];
        b[..6].copy_from_slice(&PREFIX);
        b[6..8].copy_from_slice(&c.subnet.to_be_bytes());
        let host: u64 = match c.variant % 4 {
            0 => 0,
            1 => u64::MAX,
            _ => rng.random(),
        };
        b[8..].copy_from_slice(&host.to_be_bytes());
        if c.dev >= 1 {
            let i = c.dev - 1;
            b[i] = if (c.variant / 5) % 2 == 0 { b[i].wrapping_add(1) } else { b[i].wrapping_sub(1) };
        }
        match c.fam.as_str() {
            "v6" => SocketAddr::new(Ipv6Addr::from(b).into(), port),
            // an IPv4 address made of the same leading bytes
            "v4" => SocketAddr::new(Ipv4Addr::new(b[0], b[1], b[6], b[7]).into(), port),
            // ::ffff:a.b.c.d carrying bytes of the prefix and the subnet id
            "v4mapped" => SocketAddr::new(Ipv4Addr::new(b[0], b[1], b[6], b[7]).to_ipv6_mapped().into(), port),
            other => panic!("unknown family {other}"),
        }
    }

    pub fn run(args: &Args) {
        match args.get("mode").unwrap_or("hammer") {
            "hammer" => {
                let cfgs: Vec<Hammer> = read_ndjson(&args.path("in"));
                let mut out = NdjsonOut::create(&args.path("out"));
                let n: usize = cfgs.iter().map(|h| hammer(h, &mut out)).sum();
                out.finish();
                println!("{n}");
            }
            "contend" => {
                let cfgs: Vec<Contend> = read_ndjson(&args.path("in"));
                let mut out = NdjsonOut::create(&args.path("out"));
                for c in &cfgs {
                    let sum = contend(c, &mut out);
                    println!("{}", serde_json::to_string(&sum).unwrap());
                }
                out.finish();
            }
            "classify" => {
                let cases: Vec<ClsCase> = read_ndjson(&args.path("in"));
                let mut out = NdjsonOut::create(&args.path("out"));
                for (case, c) in cases.iter().enumerate() {
                    let a = concretise(c);
                    let obs = match vh::io::catch(|| classify(a)) {
                        Ok((kind, carried)) => ClsObs {
                            case,
                            addr: a.to_string(),
                            kind: kind.to_string(),
                            carried_ok: carried.ip() == a.ip() && (kind != "ip" || carried == a),
                        },
                        Err(p) => ClsObs { case, addr: a.to_string(), kind: format!("panic:{p}"), carried_ok: false },
                    };
                    out.emit(&obs);
                }
                out.finish();
            }
            other => panic!("unknown mode {other}"),
        }
    }
}

/// C19: executes TLC-generated (configuration, route) cases (specs/socket/SendDispatch.tla) on the
/// real `TransportsSender::poll_send` (through the cfg-guarded `VerifSender`): IPv4 sockets are
/// really bound inside 127.0.0.0/8 and the source port of the datagram that arrives at a
/// loopback listener identifies the socket used; relay / custom paths end in recording senders;
/// the per-bind decision functions are evaluated for both families.
mod c19 {
    use std::{
        collections::BTreeMap,
        net::{IpAddr, Ipv4Addr, Ipv6Addr, SocketAddr, SocketAddrV6, UdpSocket},
        time::{Duration, Instant},
    };

    use iroh::{
        RelayUrl, SecretKey,
        verif_hooks_socktx::{BindSpec, FourTuple, VerifSender},
    };
    use iroh_base::CustomAddr;

    use super::*;

    #[derive(Deserialize, Clone)]
    struct Bind {
        fam: String,
        wild: bool,
        addr: u8,
        plen: u8,
        dflt: bool,
        scope: u32,
    }
    #[derive(Deserialize)]
    struct Route {
        fam: String,
        #[serde(rename = "hasSrc")]
        has_src: bool,
        src: u8,
        dst: u8,
        ll: bool,
        dscope: u32,
    }
    #[derive(Deserialize)]
    struct Case {
        binds: Vec<Bind>,
        routes: Vec<Route>,
        /// concretisation variant: bits below the prefix, host parts
        variant: u8,
        /// really bind and send (IPv4 only); otherwise only the decision functions are evaluated
        real: bool,
        /// how long to wait for a datagram before the route counts as dropped (0 = 30 ms)
        #[serde(default)]
        wait_ms: u64,
    }
    #[derive(Serialize, Default)]
    struct RouteObs {
        /// "ip" | "relay" | "custom" | "drop" | "multi" | "skip"
        kind: String,
        /// 1-based bind index (ip) / sender index (relay, custom); 0 otherwise
        idx: usize,
        /// poll_send result: "ok" | "err:<..>" | "pending"
        ret: String,
        /// arrived at the listener of the intended destination (ip)
        right_dst: bool,
        /// per bind: BindSpec::is_valid_send_addr / is_valid_default_addr
        vs: Vec<bool>,
        vd: Vec<bool>,
        detail: String,
    }
    #[derive(Serialize, Default)]
    struct Obs {
        case: usize,
        /// "" or why the environment could not run the case (never a violation)
        env: String,
        routes: Vec<RouteObs>,
        /// bind indices in the order of the real routing table
        table: Vec<usize>,
        panic: Option<String>,
    }

    const MAGIC: &[u8] = b"verif-c19-datagram";

    fn ip_of(fam: &str, abs: u8, low: u8, host: u8) -> IpAddr {
        if fam == "v4" {
            Ipv4Addr::new(127, abs * 16 + (low % 16), 0, host).into()
        } else {
            Ipv6Addr::new(0x2001, 0x0db8, ((abs as u16) << 12) | ((low as u16 % 16) << 8), 0, 0, 0, 0, host as u16).into()
        }
    }
    fn spec_of(b: &Bind, variant: u8) -> BindSpec {
        let v4 = b.fam == "v4";
        let ip: IpAddr = if b.wild {
            if v4 { Ipv4Addr::UNSPECIFIED.into() } else { Ipv6Addr::UNSPECIFIED.into() }
        } else {
            ip_of(&b.fam, b.addr, 1, 1)
        };
        let base = if v4 { 8 } else { 32 };
        let _ = variant;
        let addr = match ip {
            IpAddr::V4(a) => SocketAddr::new(a.into(), 0),
            IpAddr::V6(a) => SocketAddr::V6(SocketAddrV6::new(a, 0, 0, b.scope)),
        };
        BindSpec { addr, prefix_len: if b.plen == 0 { 0 } else { base + b.plen }, is_default: b.dflt, is_required: true }
    }
    fn dst_of(r: &Route, variant: u8, port: u16) -> SocketAddr {
        if r.ll {
            SocketAddr::V6(SocketAddrV6::new(Ipv6Addr::new(0xfe80, 0, 0, 0, 0, 0, r.dst as u16, 2 + variant as u16), port, 0, r.dscope))
        } else {
            match ip_of(&r.fam, r.dst, 2 + variant, 2) {
                IpAddr::V4(a) => SocketAddr::new(a.into(), port),
                IpAddr::V6(a) => SocketAddr::V6(SocketAddrV6::new(a, port, 0, 0)),
            }
        }
    }
    fn src_of(r: &Route) -> Option<IpAddr> {
        r.has_src.then(|| ip_of(&r.fam, r.src, 1, 1))
    }

    fn exec(c: &Case) -> Obs {
        let mut obs = Obs::default();
        let specs: Vec<BindSpec> = c.binds.iter().map(|b| spec_of(b, c.variant)).collect();
        let rt = tokio::runtime::Builder::new_current_thread().enable_all().build().unwrap();
        let _g = rt.enter();
        // real sockets (IPv4) + listeners on every destination
        let mut sender = None;
        let mut listeners: BTreeMap<u8, UdpSocket> = BTreeMap::new();
        let mut port_to_bind: BTreeMap<u16, usize> = BTreeMap::new();
        if c.real {
            // The source port is what identifies the sending socket, so the local ports must be
            // pairwise distinct.  Two sockets bound to *different* specific addresses with port 0
            // can be given the same ephemeral port by the kernel (about 1 in 28 000 per pair; it
            // happened once in a quick run and made socket 2's datagrams look like socket 1's):
            // bind again until they differ (VH_C19_SAME_PORT=<p> forces the collision, self-test).
            let forced: Option<u16> = std::env::var("VH_C19_SAME_PORT").ok().and_then(|p| p.parse().ok());
            let mut bound = None;
            for _attempt in 0..50 {
                let specs_now: Vec<BindSpec> = match forced {
                    Some(p) => specs.iter().map(|s| { let mut s = s.clone(); s.addr.set_port(p); s }).collect(),
                    None => specs.clone(),
                };
                match VerifSender::over(&specs_now, 1, &[2, 1, 2]) {
                    Ok(s) => {
                        let mut ports: Vec<u16> = s.table().iter().map(|t| t.3.port()).collect();
                        ports.sort_unstable();
                        let n = ports.len();
                        ports.dedup();
                        if ports.len() == n {
                            bound = Some(Ok(s));
                            break;
                        }
                        bound = Some(Err(std::io::Error::other("bound sockets share a local port, the sender cannot be identified")));
                        if forced.is_some() {
                            break;
                        }
                    }
                    Err(e) => {
                        bound = Some(Err(e));
                        break;
                    }
                }
            }
            match bound.expect("at least one attempt") {
                Ok(s) => {
                    // map the real routing table back to bind indices (identical binds in stable order)
                    let mut used = vec![false; specs.len()];
                    for (bind_addr, plen, dflt, local) in s.table() {
                        let Some(i) = (0..specs.len()).find(|&i| {
                            !used[i] && specs[i].addr.ip() == bind_addr.ip() && specs[i].prefix_len == plen && specs[i].is_default == dflt
                        }) else {
                            obs.env = format!("routing table entry {bind_addr}/{plen} matches no bind");
                            return obs;
                        };
                        used[i] = true;
                        obs.table.push(i + 1);
                        port_to_bind.insert(local.port(), i + 1);
                    }
                    sender = Some(s);
                }
                Err(e) => {
                    obs.env = format!("bind failed: {e}");
                    return obs;
                }
            }
            for r in c.routes.iter().filter(|r| r.fam == "v4") {
                if !listeners.contains_key(&r.dst) {
                    match UdpSocket::bind(dst_of(r, c.variant, 0)) {
                        Ok(l) => {
                            l.set_nonblocking(true).unwrap();
                            listeners.insert(r.dst, l);
                        }
                        Err(e) => {
                            obs.env = format!("listener bind failed: {e}");
                            return obs;
                        }
                    }
                }
            }
        }
        for r in &c.routes {
            let mut o = RouteObs::default();
            match r.fam.as_str() {
                "v4" | "v6" => {
                    let dst0 = dst_of(r, c.variant, 9);
                    for s in &specs {
                        o.vs.push(s.is_valid_send_addr(src_of(r), dst0).unwrap_or(false));
                        o.vd.push(s.is_valid_default_addr(src_of(r), dst0).unwrap_or(false));
                    }
                    if !(c.real && r.fam == "v4") {
                        o.kind = "skip".into();
                        obs.routes.push(o);
                        continue;
                    }
                    let port = listeners[&r.dst].local_addr().unwrap().port();
                    let path = FourTuple::Ip { remote: dst_of(r, c.variant, port), local: src_of(r) };
                    let s = sender.as_mut().unwrap();
                    let res = rt.block_on(async {
                        tokio::time::timeout(Duration::from_secs(5), std::future::poll_fn(|cx| s.poll_send(cx, &path, MAGIC))).await
                    });
                    o.ret = match res {
                        Ok(Ok(())) => "ok".into(),
                        Ok(Err(e)) => format!("err:{e}"),
                        Err(_) => "pending".into(),
                    };
                    // who received it, from which source port
                    let deadline = Instant::now() + Duration::from_millis(if c.wait_ms == 0 { 30 } else { c.wait_ms });
                    let mut got: Vec<(u8, u16)> = Vec::new();
                    loop {
                        for (d, l) in &listeners {
                            let mut buf = [0u8; 64];
                            while let Ok((n, from)) = l.recv_from(&mut buf) {
                                if &buf[..n] == MAGIC {
                                    got.push((*d, from.port()));
                                }
                            }
                        }
                        if !got.is_empty() || Instant::now() > deadline {
                            break;
                        }
                        std::thread::sleep(Duration::from_millis(1));
                    }
                    match got.as_slice() {
                        [] => o.kind = "drop".into(),
                        [(d, p)] => {
                            o.kind = "ip".into();
                            o.idx = port_to_bind.get(p).copied().unwrap_or(0);
                            o.right_dst = *d == r.dst;
                        }
                        more => {
                            o.kind = "multi".into();
                            o.detail = format!("{more:?}");
                        }
                    }
                    let s = sender.as_mut().unwrap();
                    if s.relay_logs.iter_mut().any(|l| !l.drain().is_empty()) || s.custom_logs.iter().any(|l| !l.lock().unwrap().is_empty()) {
                        o.kind = "multi".into();
                        o.detail += " also handed to a relay/custom sender";
                    }
                }
                "relay" | "custom" => {
                    let Some(s) = sender.as_mut() else {
                        o.kind = "skip".into();
                        obs.routes.push(o);
                        continue;
                    };
                    let url: RelayUrl = "https://relay7.test".parse().unwrap();
                    let eid = SecretKey::from_bytes(&[9; 32]).public();
                    let custom = CustomAddr::from_parts(r.dst as u64, &[1, 2, 3]);
                    let path = if r.fam == "relay" {
                        FourTuple::Relay { url: url.clone(), endpoint_id: eid }
                    } else {
                        FourTuple::Custom { remote: custom.clone(), local: None }
                    };
                    let res = rt.block_on(async {
                        tokio::time::timeout(Duration::from_secs(5), std::future::poll_fn(|cx| s.poll_send(cx, &path, MAGIC))).await
                    });
                    o.ret = match res {
                        Ok(Ok(())) => "ok".into(),
                        Ok(Err(e)) => format!("err:{e}"),
                        Err(_) => "pending".into(),
                    };
                    let mut hits: Vec<(String, usize, bool)> = Vec::new();
                    for (i, l) in s.relay_logs.iter_mut().enumerate() {
                        for (u, e, n) in l.drain() {
                            hits.push(("relay".into(), i + 1, u == url && e == eid && n == MAGIC.len()));
                        }
                    }
                    for (i, l) in s.custom_logs.iter().enumerate() {
                        for (remote, local, n) in l.lock().unwrap().drain(..) {
                            hits.push(("custom".into(), i + 1, remote == custom && local.is_none() && n == MAGIC.len()));
                        }
                    }
                    std::thread::sleep(Duration::from_millis(2));
                    for l in listeners.values() {
                        let mut buf = [0u8; 64];
                        if l.recv_from(&mut buf).is_ok() {
                            hits.push(("ip".into(), 0, false));
                        }
                    }
                    match hits.as_slice() {
                        [] => o.kind = "drop".into(),
                        [(k, i, intact)] => {
                            o.kind = k.clone();
                            o.idx = *i;
                            o.right_dst = *intact;
                        }
                        more => {
                            o.kind = "multi".into();
                            o.detail = format!("{more:?}");
                        }
                    }
                }
                other => panic!("unknown route family {other}"),
            }
            obs.routes.push(o);
        }
        obs
    }

    pub fn run(args: &Args) {
        let cases: Vec<Case> = read_ndjson(&args.path("in"));
        let mut out = NdjsonOut::create(&args.path("out"));
        for (case, c) in cases.iter().enumerate() {
            let mut obs = match vh::io::catch(|| exec(c)) {
                Ok(o) => o,
                Err(p) => Obs { panic: Some(p), ..Default::default() },
            };
            obs.case = case;
            out.emit(&obs);
        }
        out.finish();
    }
}
