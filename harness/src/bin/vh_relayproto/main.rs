//! Conformance drivers for the relay protocol properties of group "relayproto".
//! Subcommands: c16 (Datagrams::take_segments), c43 (RelayMap), c12 (auth token),
//! c10 (frame codec), c09 (token bucket / RateLimited).
use vh::io::Args;

mod c09;
mod c10;
mod c12;
mod c16;
mod c43;

fn main() {
    let args = Args::parse();
    match args.sub.as_str() {
        "c09" => c09::run(&args),
        "c10" => c10::run(&args),
        "c12" => c12::run(&args),
        "c16" => c16::run(&args),
        "c43" => c43::run(&args),
        other => {
            eprintln!("unknown subcommand {other}");
            std::process::exit(2);
        }
    }
}
