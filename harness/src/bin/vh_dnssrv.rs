//! Conformance drivers for the DNS server properties (C36-C39).
//! Subcommands: c36, c37, c38, c39 (crash images), c39e (eviction)
use serde::{Deserialize, Serialize};
use vh::io::{Args, NdjsonOut, read_ndjson};

fn main() {
    let args = Args::parse();
    match args.sub.as_str() {
        "c36" => c36::run(&args),
        "c37" => c37::run(&args),
        "c38" => c38::run(&args),
        "c39" => c39::run_crash(&args),
        "c39e" => c39::run_evict(&args),
        other => {
            eprintln!("unknown subcommand {other}");
            std::process::exit(2);
        }
    }
}

/// Concretisation shared by all drivers: keys, records, signed packets.
mod common {
    use std::net::{Ipv4Addr, Ipv6Addr};

    use iroh_base::SecretKey;
    use iroh_dns::pkarr::SignedPacket;
    use serde::{Deserialize, Serialize};
    use simple_dns::{
        CLASS, Name, Packet, ResourceRecord,
        rdata::{self, RData},
    };

    /// A record of the model: zone label class, name inside the zone, type, value id.
    #[derive(Deserialize, Serialize, Clone, Debug, PartialEq, Eq, PartialOrd, Ord)]
    pub struct Rec {
        pub zl: String,
        pub rel: String,
        pub ty: String,
        pub v: u64,
    }

    pub fn seed() -> u64 {
        std::env::var("VERIF_SEED").ok().and_then(|s| s.parse().ok()).unwrap_or(1)
    }

    fn splitmix(x: &mut u64) -> u64 {
        *x = x.wrapping_add(0x9E37_79B9_7F4A_7C15);
        let mut z = *x;
        z = (z ^ (z >> 30)).wrapping_mul(0xBF58_476D_1CE4_E5B9);
        z = (z ^ (z >> 27)).wrapping_mul(0x94D0_49BB_1331_11EB);
        z ^ (z >> 31)
    }

    /// Deterministic secret key for (seed, case, key name).
    pub fn secret(seed: u64, case: u64, name: &str) -> SecretKey {
        let mut st = seed ^ case.wrapping_mul(0xA24B_AED4_963E_E407);
        for b in name.bytes() {
            st = st.rotate_left(8) ^ b as u64;
            splitmix(&mut st);
        }
        let mut bytes = [0u8; 32];
        for c in bytes.chunks_mut(8) {
            c.copy_from_slice(&splitmix(&mut st).to_le_bytes());
        }
        SecretKey::from_bytes(&bytes)
    }

    /// Owner name of a record: `<rel>.<zone label>`; `zone(zl)` maps a model zone label to text
    /// (empty = no zone label at all).
    pub fn owner_name(r: &Rec, zone: &dyn Fn(&str) -> String) -> String {
        if r.zl == "none" {
            return String::new(); // the root name
        }
        let z = zone(&r.zl);
        let rel = if r.rel == "@" { "" } else { r.rel.as_str() };
        match (rel.is_empty(), z.is_empty()) {
            (true, _) => z,
            (false, true) => rel.to_string(),
            (false, false) => format!("{rel}.{z}"),
        }
    }

    pub fn txt_value(v: u64) -> String {
        format!("v={v}")
    }
    pub fn host_value(prefix: &str, v: u64) -> String {
        format!("{prefix}{v}.verif.test")
    }

    /// Encodes the DNS payload of a packet.
    pub fn dns_payload(recs: &[Rec], zone: &dyn Fn(&str) -> String) -> Vec<u8> {
        dns_payload_with_id(recs, zone, 0)
    }

    /// Same with a chosen DNS message id (the first two payload bytes: decides the byte order of payloads).
    pub fn dns_payload_with_id(recs: &[Rec], zone: &dyn Fn(&str) -> String, id: u16) -> Vec<u8> {
        let mut packet = Packet::new_reply(id);
        for r in recs {
            let owner = owner_name(r, zone);
            let name = Name::new_unchecked(&owner).into_owned();
            let v = r.v;
            let data: RData<'static> = match r.ty.as_str() {
                "TXT" => {
                    let value = txt_value(v);
                    let mut t = rdata::TXT::new();
                    t.add_string(&value).expect("txt");
                    RData::TXT(t.into_owned())
                }
                "A" => RData::A(rdata::A { address: Ipv4Addr::new(10, 0, (v >> 8) as u8, v as u8).into() }),
                "AAAA" => RData::AAAA(rdata::AAAA {
                    address: Ipv6Addr::new(0xfd00, 0, 0, 0, 0, 0, 0, v as u16).into(),
                }),
                "CNAME" => RData::CNAME(rdata::CNAME(Name::new_unchecked(&host_value("t", v)).into_owned())),
                "NS" => RData::NS(rdata::NS(Name::new_unchecked(&host_value("ns", v)).into_owned())),
                "SOA" => RData::SOA(rdata::SOA {
                    mname: Name::new_unchecked(&host_value("ns", v)).into_owned(),
                    rname: Name::new_unchecked("h.verif.test").into_owned(),
                    serial: v as u32,
                    refresh: 60,
                    retry: 60,
                    expire: 60,
                    minimum: 60,
                }),
                other => panic!("unknown record type {other}"),
            };
            packet.answers.push(ResourceRecord::new(name, CLASS::IN, 30, data));
        }
        packet.build_bytes_vec_compressed().expect("encode dns payload")
    }

    /// BEP44 signable of a pkarr packet.
    pub fn signable(ts: u64, v: &[u8]) -> Vec<u8> {
        let mut s = format!("3:seqi{}e1:v{}:", ts, v.len()).into_bytes();
        s.extend_from_slice(v);
        s
    }

    /// Full signed-packet bytes `<key><sig><ts><dns>`; `tamper` flips one signature bit.
    pub fn packet_bytes(signer: &SecretKey, ts: u64, dns: &[u8], tamper: bool) -> Vec<u8> {
        let mut sig = signer.sign(&signable(ts, dns)).to_bytes();
        if tamper {
            sig[7] ^= 0x10;
        }
        let mut out = Vec::with_capacity(104 + dns.len());
        out.extend_from_slice(signer.public().as_bytes());
        out.extend_from_slice(&sig);
        out.extend_from_slice(&ts.to_be_bytes());
        out.extend_from_slice(dns);
        out
    }

    /// A verified packet (panics if the concretisation is broken).
    pub fn signed_packet(signer: &SecretKey, ts: u64, dns: &[u8]) -> SignedPacket {
        SignedPacket::from_bytes(&packet_bytes(signer, ts, dns, false)).expect("self-built packet verifies")
    }
}

#[derive(Serialize, Default)]
struct Obs {
    case: usize,
    ok: bool,
    step: usize,
    what: String,
    exp: String,
    got: String,
}

impl Obs {
    fn good(case: usize) -> Self {
        Obs { case, ok: true, ..Default::default() }
    }
}

type Mismatch = (usize, String, String, String);

fn store_options_no_eviction() -> iroh_dns_server::verif_hooks::StoreOptions {
    iroh_dns_server::verif_hooks::StoreOptions {
        max_batch_size: 1024 * 64,
        max_batch_time: std::time::Duration::from_millis(20),
        // `now - eviction` saturates to 0: nothing ever counts as expired
        eviction: std::time::Duration::from_micros(u64::MAX),
        eviction_interval: std::time::Duration::from_secs(3600),
    }
}

/// C37: replay publish sequences generated by TLC (specs/dnsserver/DnsServer.tla, Spec37) on the
/// real `ZoneStore` (in-memory redb): insert flag, stored packet, resolved TXT after every step.
mod c37 {
    use std::collections::BTreeMap;

    use iroh_dns_server::verif_hooks::{
        VerifZoneStore,
        proto::rr::{Name, RData, RecordType},
    };

    use super::{common::*, *};

    #[derive(Deserialize)]
    struct StoredExp {
        ts: u64,
        pl: u64,
    }
    #[derive(Deserialize)]
    struct Row {
        k: String,
        rel: String,
        ty: String,
        vs: Vec<u64>,
    }
    #[derive(Deserialize)]
    struct Step {
        k: String,
        ts: u64,
        pl: u64,
        recs: Vec<Rec>,
        res: String,
        stored: BTreeMap<String, StoredExp>,
        table: Vec<Row>,
    }
    #[derive(Deserialize)]
    struct Behaviour {
        steps: Vec<Step>,
    }

    const TS_BASE: u64 = 1_700_000_000_000_000;

    async fn replay(store: &VerifZoneStore, case: usize, b: &Behaviour) -> Result<(), Mismatch> {
        let seed = seed();
        let names: Vec<String> = b.steps[0].stored.keys().cloned().collect();
        let secrets: BTreeMap<String, iroh_base::SecretKey> =
            names.iter().map(|n| (n.clone(), secret(seed, case as u64, n))).collect();
        let zone = |zl: &str| secrets[zl].public().to_z32();
        let iroh_name = Name::from_labels(vec![b"_iroh" as &[u8]]).expect("name");
        // every packet this behaviour publishes, by (key, ts, pl)
        let mut built: BTreeMap<(String, u64, u64), Vec<u8>> = BTreeMap::new();
        for (i, s) in b.steps.iter().enumerate() {
            let dns = dns_payload(&s.recs, &zone);
            let packet = signed_packet(&secrets[&s.k], TS_BASE + s.ts, &dns);
            built.insert((s.k.clone(), s.ts, s.pl), packet.as_bytes().to_vec());
            // the payload rank of the model must be the byte order of the encoded payloads
            for ((k2, ts2, pl2), bytes2) in &built {
                if *k2 == s.k && *ts2 == s.ts && *pl2 != s.pl {
                    let lt = bytes2[104..] < packet.as_bytes()[104..];
                    assert_eq!(lt, *pl2 < s.pl, "concretisation: payload rank does not follow byte order");
                }
            }
            let flag = store.insert(packet).await.map_err(|e| (i, "insert failed".to_string(), "Ok".to_string(), format!("{e:#}")))?;
            let exp_flag = s.res == "updated";
            if flag != exp_flag {
                return Err((i, "insert flag".into(), exp_flag.to_string(), flag.to_string()));
            }
            for (x, exp) in &s.stored {
                let key = *secrets[x].public().as_bytes();
                let got = store.get_signed_packet(&key).await.map_err(|e| (i, "get failed".to_string(), "Ok".to_string(), format!("{e:#}")))?;
                let exp_desc = format!("{x}:ts{}:pl{}", exp.ts, exp.pl);
                let got_desc = match &got {
                    None => format!("{x}:ts0:pl0"),
                    Some(p) => match built.iter().find(|(_, bytes)| bytes.as_slice() == p.as_bytes()) {
                        Some(((k, ts, pl), _)) => format!("{k}:ts{ts}:pl{pl}"),
                        None => format!("{x}:unknown-bytes"),
                    },
                };
                if exp_desc != got_desc {
                    return Err((i, "stored packet".into(), exp_desc, got_desc));
                }
                // resolved TXT under `_iroh`
                let exp_vs: Vec<u64> = s
                    .table
                    .iter()
                    .find(|r| &r.k == x && r.rel == "_iroh" && r.ty == "TXT")
                    .map(|r| r.vs.clone())
                    .unwrap_or_default();
                let rset = store
                    .resolve(&key, &iroh_name, RecordType::TXT)
                    .await
                    .map_err(|e| (i, "resolve failed".to_string(), "Ok".to_string(), format!("{e:#}")))?;
                let mut got_vs: Vec<String> = Vec::new();
                if let Some(rset) = rset {
                    for r in rset.records_without_rrsigs() {
                        match &r.data {
                            RData::TXT(t) => got_vs.push(t.to_string()),
                            other => got_vs.push(format!("{other:?}")),
                        }
                    }
                }
                got_vs.sort();
                let mut exp_txt: Vec<String> = exp_vs.iter().map(|v| txt_value(*v)).collect();
                exp_txt.sort();
                if got_vs != exp_txt {
                    return Err((i, format!("resolved TXT for {x}"), format!("{exp_txt:?}"), format!("{got_vs:?}")));
                }
            }
        }
        Ok(())
    }

    pub fn run(args: &Args) {
        let cases: Vec<Behaviour> = read_ndjson(&args.path("in"));
        let mut out = NdjsonOut::create(&args.path("out"));
        let rt = tokio::runtime::Builder::new_multi_thread().worker_threads(2).enable_all().build().unwrap();
        let store = rt.block_on(async { VerifZoneStore::in_memory(store_options_no_eviction()).expect("store") });
        for (case, b) in cases.iter().enumerate() {
            let r = vh::io::catch(|| rt.block_on(replay(&store, case, b)));
            let obs = match r {
                Ok(Ok(())) => Obs::good(case),
                Ok(Err((step, what, exp, got))) => Obs { case, ok: false, step, what, exp, got },
                Err(p) => Obs { case, ok: false, step: 0, what: "panic".into(), exp: "no panic".into(), got: p },
            };
            out.emit(&obs);
        }
        out.finish();
        drop(store);
    }
}

/// C38: force every interleaving (word) generated by TLC from specs/dnsserver/DnsCache.tla onto the
/// real `ZoneStore::resolve` / `ZoneStore::insert` through the pause points in store.rs, and log
/// the client-visible events (call starts, answers, acknowledgements) for the property monitor.
mod c38 {
    use std::{
        collections::BTreeMap,
        time::{Duration, Instant},
    };

    use iroh_dns::verif;
    use iroh_dns_server::verif_hooks::{
        VerifZoneStore, packet_tag,
        proto::rr::{Name, RData, RecordType},
    };
    use serde_json::{Value, json};
    use tokio::task::JoinHandle;

    use super::{common::*, *};

    #[derive(Deserialize)]
    struct WStep {
        p: String,
        a: String,
    }
    #[derive(Deserialize)]
    struct Case {
        word: Vec<WStep>,
        warm: bool,
        verof: BTreeMap<String, u64>,
        tsof: Vec<u64>,
        /// lookup process -> key name, publish process -> key name
        #[serde(default)]
        rkey: BTreeMap<String, String>,
        #[serde(default)]
        pkey: BTreeMap<String, String>,
    }
    #[derive(Serialize)]
    struct Out {
        case: usize,
        /// client-visible events in the order the driver observed them
        events: Vec<Value>,
        /// resolver -> version answered (0 = no answer)
        answers: BTreeMap<String, u64>,
        /// publisher -> flag returned by insert
        flags: BTreeMap<String, bool>,
        /// indices of word steps that did not reach their next pause point in time (lock held by someone else)
        blocked: Vec<usize>,
        /// the real call sequence left the word (finished early / paused where the word has no step)
        diverged: bool,
        /// a call did not return although every pause point was released
        hang: bool,
        error: String,
    }

    #[derive(Debug, Clone)]
    enum Outcome {
        Ans(u64),
        Flag(bool),
        Err(String),
    }

    struct Proc {
        resolver: bool,
        key: String,
        ver: u64,
        gates: Vec<String>,
        /// index into `gates` of the pause point the call is held at (None: not there)
        at: Option<usize>,
        next_gate: usize,
        handle: Option<JoinHandle<Outcome>>,
        outcome: Option<Outcome>,
        started: bool,
    }

    const TS_BASE: u64 = 1_700_000_000_000_000;
    const BLOCK_MS: u64 = 300;

    fn version_of(txt: &str) -> u64 {
        txt.strip_prefix("v=").and_then(|v| v.parse().ok()).unwrap_or(999)
    }

    async fn resolve_version(store: &VerifZoneStore, key: &[u8; 32], name: &str) -> Outcome {
        let n = Name::from_labels(vec![name.as_bytes()]).expect("name");
        match store.resolve(key, &n, RecordType::TXT).await {
            Err(e) => Outcome::Err(format!("{e:#}")),
            Ok(None) => Outcome::Ans(0),
            Ok(Some(rset)) => {
                let mut v = 0;
                for r in rset.records_without_rrsigs() {
                    if let RData::TXT(t) = &r.data {
                        v = version_of(&t.to_string());
                    }
                }
                Outcome::Ans(v)
            }
        }
    }

    struct Runner<'a> {
        rt: &'a tokio::runtime::Runtime,
        procs: BTreeMap<String, Proc>,
        out: Out,
    }

    impl Runner<'_> {
        /// Non-blocking: has `p` finished or reached its next pause point?  Logs the `done` event.
        fn poll(&mut self, name: &str) -> bool {
            let rt = self.rt;
            let p = self.procs.get_mut(name).unwrap();
            if p.outcome.is_some() || p.at.is_some() || !p.started {
                return true;
            }
            if p.handle.as_ref().map(|h| h.is_finished()).unwrap_or(false) {
                let o = rt.block_on(p.handle.take().unwrap()).unwrap_or_else(|e| Outcome::Err(format!("task: {e}")));
                match &o {
                    Outcome::Ans(v) => {
                        self.out.events.push(json!({"ev": "rdone", "r": name, "ans": v}));
                        self.out.answers.insert(name.to_string(), *v);
                    }
                    Outcome::Flag(f) => {
                        self.out.events.push(json!({"ev": "pdone", "p": name, "k": p.key, "v": p.ver, "res": f}));
                        self.out.flags.insert(name.to_string(), *f);
                    }
                    Outcome::Err(e) => self.out.error = format!("{name}: {e}"),
                }
                p.outcome = Some(o);
                return true;
            }
            if p.next_gate < p.gates.len() && verif::arrived(&p.gates[p.next_gate]) >= 1 {
                p.at = Some(p.next_gate);
                p.next_gate += 1;
                return true;
            }
            false
        }

        fn wait(&mut self, name: &str, ms: u64) -> bool {
            let t0 = Instant::now();
            loop {
                if self.poll(name) {
                    return true;
                }
                if t0.elapsed() > Duration::from_millis(ms) {
                    return false;
                }
                std::thread::sleep(Duration::from_micros(20));
            }
        }

        fn describe(&self) -> String {
            self.procs
                .iter()
                .map(|(n, p)| {
                    let arrived: Vec<usize> = p.gates.iter().map(|g| verif::arrived(g)).collect();
                    format!("{n}[started={} at={:?} next_gate={} done={} arrived={arrived:?}]", p.started, p.at, p.next_gate, p.outcome.is_some())
                })
                .collect::<Vec<_>>()
                .join(" ")
        }

        fn poll_others(&mut self, except: &str) {
            let names: Vec<String> = self.procs.keys().filter(|n| n.as_str() != except).cloned().collect();
            for n in names {
                self.poll(&n);
            }
        }
    }

    fn run_case(rt: &tokio::runtime::Runtime, store: &VerifZoneStore, case: usize, c: &Case) -> Out {
        let seed = seed();
        let key_of = |p: &str| -> String { c.rkey.get(p).or_else(|| c.pkey.get(p)).cloned().unwrap_or_else(|| "a".to_string()) };
        let mut key_names: Vec<String> = c.word.iter().map(|s| key_of(&s.p)).collect();
        key_names.sort();
        key_names.dedup();
        // per key: secret, and one packet per version carrying the same TXT value under one name per lookup process
        // of that key plus the follow-up lookup `rf<key>`
        let mut key_bytes: BTreeMap<String, [u8; 32]> = BTreeMap::new();
        let mut packets: BTreeMap<String, Vec<iroh_dns::pkarr::SignedPacket>> = BTreeMap::new();
        for k in &key_names {
            let sk = secret(seed, case as u64, &format!("c38{k}"));
            let z32 = sk.public().to_z32();
            let mut names: Vec<String> = c.word.iter().filter(|s| s.a == "RCheck" && &key_of(&s.p) == k).map(|s| s.p.clone()).collect();
            names.push(format!("rf{k}"));
            let ps: Vec<_> = (1..=c.tsof.len() as u64)
                .map(|v| {
                    let recs: Vec<Rec> = names.iter().map(|r| Rec { zl: "k".into(), rel: r.clone(), ty: "TXT".into(), v }).collect();
                    let dns = dns_payload(&recs, &|_| z32.clone());
                    signed_packet(&sk, TS_BASE + c.tsof[v as usize - 1], &dns)
                })
                .collect();
            for w in ps.windows(2) {
                assert!(w[1].more_recent_than(&w[0]), "concretisation: version order is not the recency order");
            }
            key_bytes.insert(k.clone(), *sk.public().as_bytes());
            packets.insert(k.clone(), ps);
        }
        let mut run = Runner {
            rt,
            procs: BTreeMap::new(),
            out: Out {
                case,
                events: vec![],
                answers: BTreeMap::new(),
                flags: BTreeMap::new(),
                blocked: vec![],
                diverged: false,
                hang: false,
                error: String::new(),
            },
        };
        // setup: version 1 of every key stored, cache cold or warm
        let setup = rt.block_on(async {
            for k in &key_names {
                let f = store.insert(packets[k][0].clone()).await.map_err(|e| format!("{e:#}"))?;
                if !f {
                    return Err("setup insert returned false".to_string());
                }
                if c.warm {
                    match resolve_version(store, &key_bytes[k], &format!("rf{k}")).await {
                        Outcome::Ans(1) => {}
                        o => return Err(format!("setup resolve: {o:?}")),
                    }
                }
            }
            Ok(())
        });
        if let Err(e) = setup {
            run.out.error = e;
            return run.out;
        }
        verif::clear_gates();
        for s in &c.word {
            if run.procs.contains_key(&s.p) {
                continue;
            }
            let resolver = s.a.starts_with('R');
            let (ver, gates) = if resolver {
                // the tag is the queried name as store.rs prints it
                let tag = Name::from_labels(vec![s.p.as_bytes()]).expect("name").to_string();
                (0, vec![format!("dnssrv.resolve.miss:{tag}"), format!("dnssrv.resolve.got:{tag}")])
            } else {
                let ver = c.verof[&s.p];
                let tag = packet_tag(&packets[&key_of(&s.p)][ver as usize - 1]);
                (ver, vec![format!("dnssrv.insert.upserted:{tag}"), format!("dnssrv.insert.invalidated:{tag}")])
            };
            for g in &gates {
                verif::arm(g, 1);
            }
            run.procs.insert(
                s.p.clone(),
                Proc { resolver, key: key_of(&s.p), ver, gates, at: None, next_gate: 0, handle: None, outcome: None, started: false },
            );
        }
        for (i, s) in c.word.iter().enumerate() {
            let first = s.a == "RCheck" || s.a == "PUpsert";
            if first {
                let p = run.procs.get_mut(&s.p).unwrap();
                p.started = true;
                let st = store.clone();
                let kname = key_of(&s.p);
                if p.resolver {
                    run.out.events.push(json!({"ev": "rstart", "r": s.p, "k": kname}));
                    let name = s.p.clone();
                    let key = key_bytes[&kname];
                    p.handle = Some(rt.spawn(async move { resolve_version(&st, &key, &name).await }));
                } else {
                    run.out.events.push(json!({"ev": "pstart", "p": s.p, "k": kname, "v": p.ver}));
                    let packet = packets[&kname][p.ver as usize - 1].clone();
                    p.handle = Some(rt.spawn(async move {
                        match st.insert(packet).await {
                            Ok(f) => Outcome::Flag(f),
                            Err(e) => Outcome::Err(format!("{e:#}")),
                        }
                    }));
                }
            } else {
                // the call must be held at the pause point before this action
                if !run.wait(&s.p, 60_000) {
                    run.out.hang = true;
                    run.out.error = format!("step {i} ({}.{}): call neither paused nor finished: {}", s.p, s.a, run.describe());
                    break;
                }
                let p = run.procs.get_mut(&s.p).unwrap();
                match p.at.take() {
                    Some(g) => verif::release(&p.gates[g], 1),
                    None => {
                        run.out.diverged = true; // already finished: the word has a step the code did not take
                        continue;
                    }
                }
            }
            if !run.wait(&s.p, BLOCK_MS) {
                run.out.blocked.push(i);
            }
            run.poll_others(&s.p);
        }
        // let everything run to completion
        for p in run.procs.values() {
            if p.at.is_some() {
                run.out.diverged = true; // paused where the word has no further step
            }
        }
        verif::reset();
        let names: Vec<String> = run.procs.keys().cloned().collect();
        let t0 = Instant::now();
        loop {
            let mut all = true;
            for n in &names {
                run.procs.get_mut(n).unwrap().at = None;
                if !run.poll(n) || run.procs[n].outcome.is_none() {
                    all = false;
                }
            }
            if all {
                break;
            }
            if t0.elapsed() > Duration::from_secs(60) {
                run.out.hang = true;
                if run.out.error.is_empty() {
                    run.out.error = format!("calls did not return after all pause points were released: {}", run.describe());
                }
                break;
            }
            std::thread::sleep(Duration::from_micros(50));
        }
        verif::clear_gates();
        if !run.out.hang {
            // follow-up lookups (one per key), started after every acknowledgement
            for k in &key_names {
                let rf = format!("rf{k}");
                run.out.events.push(json!({"ev": "rstart", "r": rf, "k": k}));
                match rt.block_on(resolve_version(store, &key_bytes[k], &rf)) {
                    Outcome::Ans(v) => {
                        run.out.events.push(json!({"ev": "rdone", "r": rf, "ans": v}));
                        run.out.answers.insert(rf, v);
                    }
                    o => run.out.error = format!("follow-up: {o:?}"),
                }
            }
        }
        run.out
    }

    pub fn run(args: &Args) {
        let cases: Vec<Case> = read_ndjson(&args.path("in"));
        let mut out = NdjsonOut::create(&args.path("out"));
        let rt = tokio::runtime::Builder::new_multi_thread().worker_threads(4).enable_all().build().unwrap();
        let store = rt.block_on(async { VerifZoneStore::in_memory(store_options_no_eviction()).expect("store") });
        for (case, c) in cases.iter().enumerate() {
            out.emit(&run_case(&rt, &store, case, c));
        }
        out.finish();
        drop(store);
    }
}

/// C36: replay put sequences generated by TLC (specs/dnsserver/DnsServer.tla, Gen36) on the public
/// `iroh_dns_server::Server` bound to 127.0.0.1: PUT / GET `/pkarr/<z32>` over HTTP and DNS queries
/// over UDP; after every put the whole observation table is compared with the model.
mod c36 {
    use std::{
        collections::{BTreeMap, BTreeSet},
        net::{IpAddr, Ipv4Addr, SocketAddr},
        time::Duration,
    };

    use iroh_dns_server::{
        Server,
        config::{Config, MetricsConfig, RateLimitConfig},
    };
    use simple_dns::{CLASS, Name, Packet, QCLASS, QTYPE, Question, TYPE, rdata::RData};
    use tokio::{
        io::{AsyncReadExt, AsyncWriteExt},
        net::{TcpStream, UdpSocket},
    };

    use super::{common::*, *};

    #[derive(Deserialize)]
    struct StoredExp {
        ts: u64,
        pl: u64,
    }
    #[derive(Deserialize)]
    struct Row {
        k: String,
        rel: String,
        ty: String,
        vs: Vec<u64>,
    }
    #[derive(Deserialize)]
    struct Step {
        k: String,
        signer: String,
        #[serde(rename = "sigOk")]
        sig_ok: bool,
        ts: u64,
        pl: u64,
        recs: Vec<Rec>,
        res: String,
        stored: BTreeMap<String, StoredExp>,
        table: Vec<Row>,
    }
    #[derive(Deserialize)]
    struct Behaviour {
        steps: Vec<Step>,
    }

    const RELS: [&str; 3] = ["@", "_iroh", "a.b"];
    const TYPES: [&str; 6] = ["TXT", "A", "AAAA", "SOA", "NS", "CNAME"];
    const ORIGIN: &str = "irohdns.example";

    /// Environment failure (socket, timeout of the harness itself): never a property violation.
    fn env<T, E: std::fmt::Display>(r: Result<T, E>, what: &str) -> T {
        match r {
            Ok(v) => v,
            Err(e) => {
                eprintln!("environment: {what}: {e}");
                std::process::exit(3);
            }
        }
    }

    async fn http(addr: SocketAddr, method: &str, path: &str, body: &[u8]) -> (u16, Vec<u8>) {
        let fut = async {
            let mut s = TcpStream::connect(addr).await?;
            let head = format!(
                "{method} {path} HTTP/1.1\r\nHost: localhost\r\nConnection: close\r\nContent-Length: {}\r\n\r\n",
                body.len()
            );
            s.write_all(head.as_bytes()).await?;
            s.write_all(body).await?;
            let mut resp = Vec::new();
            s.read_to_end(&mut resp).await?;
            Ok::<_, std::io::Error>(resp)
        };
        let resp = env(env(tokio::time::timeout(Duration::from_secs(20), fut).await, "http timeout"), "http io");
        let split = resp.windows(4).position(|w| w == b"\r\n\r\n").unwrap_or(resp.len());
        let head = String::from_utf8_lossy(&resp[..split]).to_string();
        let status: u16 = head.split_whitespace().nth(1).and_then(|c| c.parse().ok()).unwrap_or(0);
        let mut body = resp.get(split + 4..).unwrap_or(&[]).to_vec();
        if head.to_ascii_lowercase().contains("transfer-encoding: chunked") {
            // de-chunk
            let mut out = Vec::new();
            let mut rest = &body[..];
            loop {
                let Some(nl) = rest.windows(2).position(|w| w == b"\r\n") else { break };
                let len = usize::from_str_radix(String::from_utf8_lossy(&rest[..nl]).trim(), 16).unwrap_or(0);
                if len == 0 {
                    break;
                }
                out.extend_from_slice(&rest[nl + 2..nl + 2 + len]);
                rest = &rest[nl + 2 + len + 2..];
            }
            body = out;
        }
        (status, body)
    }

    fn qtype(ty: &str) -> TYPE {
        match ty {
            "TXT" => TYPE::TXT,
            "A" => TYPE::A,
            "AAAA" => TYPE::AAAA,
            "SOA" => TYPE::SOA,
            "NS" => TYPE::NS,
            "CNAME" => TYPE::CNAME,
            other => panic!("type {other}"),
        }
    }

    /// Value id carried by an answer record, if it is one of ours.
    fn value_of(data: &RData) -> Option<u64> {
        let num = |s: &str, prefix: &str| -> Option<u64> {
            let s = s.strip_prefix(prefix)?;
            let digits: String = s.chars().take_while(|c| c.is_ascii_digit()).collect();
            if s[digits.len()..].starts_with(".verif.test") { digits.parse().ok() } else { None }
        };
        match data {
            RData::TXT(t) => {
                let s: String = t.clone().try_into().ok()?;
                s.strip_prefix("v=")?.parse().ok()
            }
            RData::A(a) => {
                let o = Ipv4Addr::from(a.address).octets();
                (o[0] == 10 && o[1] == 0).then_some(o[2] as u64 * 256 + o[3] as u64)
            }
            RData::AAAA(a) => {
                let seg = std::net::Ipv6Addr::from(a.address).segments();
                (seg[0] == 0xfd00).then_some(seg[7] as u64)
            }
            RData::CNAME(c) => num(&c.0.to_string(), "t"),
            RData::NS(n) => num(&n.0.to_string(), "ns"),
            RData::SOA(s) => num(&s.mname.to_string(), "ns"),
            _ => None,
        }
    }

    struct Dns {
        sock: UdpSocket,
        server: SocketAddr,
        id: u16,
    }

    impl Dns {
        /// (rcode, answers as (owner, type, value id or 0 for foreign data))
        async fn query(&mut self, name: &str, ty: &str) -> (String, Vec<(String, String, u64)>) {
            self.id = self.id.wrapping_add(1);
            let mut q = Packet::new_query(self.id);
            q.questions.push(Question::new(Name::new_unchecked(name), QTYPE::TYPE(qtype(ty)), QCLASS::CLASS(CLASS::IN), false));
            let bytes = env(q.build_bytes_vec(), "encode query");
            env(self.sock.send_to(&bytes, self.server).await, "udp send");
            let mut buf = vec![0u8; 4096];
            loop {
                let n = env(env(tokio::time::timeout(Duration::from_secs(20), self.sock.recv(&mut buf)).await, "dns timeout"), "udp recv");
                let resp = env(Packet::parse(&buf[..n]), "parse dns response");
                if resp.id() != self.id {
                    continue;
                }
                let answers = resp
                    .answers
                    .iter()
                    .map(|a| {
                        let t = format!("{:?}", a.rdata.type_code());
                        (a.name.to_string(), t, value_of(&a.rdata).unwrap_or(0))
                    })
                    .collect();
                return (format!("{:?}", resp.rcode()), answers);
            }
        }
    }

    /// Concrete value of a model record: value id + 10 * timestamp + 100 * index of the signer.
    fn concrete_v(v: u64, ts: u64, signer: &str) -> u64 {
        let idx: u64 = signer.trim_start_matches('k').parse().unwrap_or(9);
        v + 10 * ts + 100 * idx
    }

    async fn replay(http_addr: SocketAddr, dns: &mut Dns, case: usize, b: &Behaviour, ts_base: u64) -> Result<(), Mismatch> {
        let seed = seed();
        let names: Vec<String> = b.steps[0].stored.keys().cloned().collect();
        let secrets: BTreeMap<String, iroh_base::SecretKey> =
            names.iter().map(|n| (n.clone(), secret(seed, case as u64, n))).collect();
        // variants of a zone label that is not a key: plain word / key label not last / no label at all
        let other = match (seed as usize + case) % 3 {
            0 => "example".to_string(),
            1 => format!("{}.example", secrets[&names[0]].public().to_z32()),
            _ => String::new(),
        };
        let zone = |zl: &str| if zl == "other" { other.clone() } else { secrets[zl].public().to_z32() };
        // honest payloads carry DNS id 0x0100, so that a forged payload can be byte-wise smaller (id 0) or greater (id 0x0200)
        const HONEST_ID: u16 = 0x0100;
        // relay payload of the packet currently accepted per (key, ts)
        let mut accepted: BTreeMap<(String, u64, u64), Vec<u8>> = BTreeMap::new();
        for (i, s) in b.steps.iter().enumerate() {
            let recs: Vec<Rec> = s.recs.iter().map(|r| Rec { v: concrete_v(r.v, s.ts, &s.signer), ..r.clone() }).collect();
            let body = if s.signer == "replay" {
                // adversary: signature and timestamp of the packet stored for s.k, over another payload
                let stored = if i == 0 { None } else { b.steps[i - 1].stored.get(&s.k) };
                let victim = stored.and_then(|st| accepted.get(&(s.k.clone(), st.ts, st.pl))).expect("model: replay needs a stored packet");
                let payload = dns_payload_with_id(&recs, &zone, if s.pl == 0 { 0 } else { 0x0200 });
                assert_eq!(payload[..] > victim[72..], s.pl != 0, "concretisation: byte order of the forged payload");
                let mut body = victim[..72].to_vec();
                body.extend_from_slice(&payload);
                body
            } else {
                let payload = dns_payload_with_id(&recs, &zone, HONEST_ID);
                packet_bytes(&secrets[&s.signer], ts_base + s.ts * 1_000_000, &payload, !s.sig_ok)[32..].to_vec()
            };
            let path = format!("/pkarr/{}", secrets[&s.k].public().to_z32());
            let (status, _) = http(http_addr, "PUT", &path, &body).await;
            let exp_status = if s.res == "rejected" { 400 } else { 204 };
            if status != exp_status {
                return Err((i, "PUT status".into(), exp_status.to_string(), status.to_string()));
            }
            if s.res != "rejected" {
                accepted.insert((s.k.clone(), s.ts, s.pl), body);
            }
            for (x, exp) in &s.stored {
                let z32 = secrets[x].public().to_z32();
                let (status, got) = http(http_addr, "GET", &format!("/pkarr/{z32}"), &[]).await;
                let exp_desc = if exp.ts == 0 { format!("{x}:404") } else { format!("{x}:ts{}:pl{}", exp.ts, exp.pl) };
                let got_desc = if status == 404 {
                    format!("{x}:404")
                } else if status != 200 {
                    format!("{x}:status{status}")
                } else {
                    match accepted.iter().find(|(_, p)| **p == got) {
                        Some(((k, ts, pl), _)) => format!("{k}:ts{ts}:pl{pl}"),
                        None => format!("{x}:unknown-bytes"),
                    }
                };
                if exp_desc != got_desc {
                    return Err((i, format!("GET /pkarr for {x}"), exp_desc, got_desc));
                }
                for rel in RELS {
                    for ty in TYPES {
                        let exp_vs: BTreeSet<u64> = s
                            .table
                            .iter()
                            .find(|r| &r.k == x && r.rel == rel && r.ty == ty)
                            .map(|r| r.vs.iter().map(|v| concrete_v(*v, exp.ts, x)).collect())
                            .unwrap_or_default();
                        let relp = if rel == "@" { String::new() } else { format!("{rel}.") };
                        // under the configured origin, and (for one name per key) under the root origin
                        let mut qnames = vec![format!("{relp}{z32}.{ORIGIN}")];
                        if rel == "_iroh" {
                            qnames.push(format!("{relp}{z32}"));
                        }
                        for qname in qnames {
                            let (rcode, answers) = dns.query(&qname, ty).await;
                            let mut got_vs = BTreeSet::new();
                            for (owner, t, v) in &answers {
                                if v != &0 {
                                    got_vs.insert(*v);
                                    if !owner.trim_end_matches('.').eq_ignore_ascii_case(&qname) || t != ty {
                                        return Err((i, format!("DNS answer owner/type for {x} {rel} {ty}"), format!("{qname} {ty}"), format!("{owner} {t}")));
                                    }
                                }
                            }
                            if got_vs != exp_vs {
                                return Err((
                                    i,
                                    format!("DNS answer for {x} {rel} {ty}"),
                                    format!("{exp_vs:?}"),
                                    format!("{got_vs:?} ({rcode}, {} records, name {qname})", answers.len()),
                                ));
                            }
                        }
                    }
                }
            }
        }
        Ok(())
    }

    pub fn run(args: &Args) {
        let cases: Vec<Behaviour> = read_ndjson(&args.path("in"));
        let mut out = NdjsonOut::create(&args.path("out"));
        let dir = args.path("dir");
        let rt = tokio::runtime::Builder::new_multi_thread().worker_threads(4).enable_all().build().unwrap();
        let lo = IpAddr::V4(Ipv4Addr::LOCALHOST);
        let server = rt.block_on(async {
            let mut config = Config::default();
            config.dns.port = 0;
            config.dns.bind_addr = Some(lo);
            let h = config.http.as_mut().expect("default http config");
            h.port = 0;
            h.bind_addr = Some(lo);
            config.https = None;
            config.metrics = Some(MetricsConfig::disabled());
            config.mainline = None;
            config.pkarr_put_rate_limit = RateLimitConfig::Disabled;
            config.data_dir = Some(dir.clone());
            env(Server::bind(config).await, "bind iroh-dns-server on 127.0.0.1")
        });
        let http_addr = env(server.http_addr().ok_or("no http listener"), "http addr");
        let dns_addr = server.dns_addr();
        let mut dns = rt.block_on(async {
            Dns { sock: env(UdpSocket::bind((lo, 0)).await, "bind udp"), server: dns_addr, id: 1 }
        });
        env(rt.block_on(dns.sock.connect(dns_addr)), "connect udp");
        // timestamps one hour back: far from the 7-day eviction cut-off and from the future
        let now = std::time::SystemTime::now().duration_since(std::time::UNIX_EPOCH).unwrap().as_micros() as u64;
        let ts_base = now - 3_600_000_000;
        for (case, b) in cases.iter().enumerate() {
            let r = vh::io::catch(|| rt.block_on(replay(http_addr, &mut dns, case, b, ts_base)));
            let obs = match r {
                Ok(Ok(())) => Obs::good(case),
                Ok(Err((step, what, exp, got))) => Obs { case, ok: false, step, what, exp, got },
                Err(p) => Obs { case, ok: false, step: 0, what: "panic".into(), exp: "no panic".into(), got: p },
            };
            out.emit(&obs);
        }
        out.finish();
        env(rt.block_on(server.shutdown()), "server shutdown");
    }
}

/// C39: (a) run TLC-generated workloads on the real store over a recording redb `StorageBackend`,
/// cut the backend's operation log after every operation, reopen every image with the real store and
/// project its content; (b) eviction workloads with timestamps on both sides of the retention cut-off.
mod c39 {
    use std::{
        collections::BTreeMap,
        sync::{Arc, Mutex},
        time::{Duration, Instant},
    };

    use iroh_dns::verif;
    use iroh_dns_server::verif_hooks::{StoreDump, StoreOptions, VerifZoneStore};
    use redb::{Database, StorageBackend};

    use super::{common::*, *};

    #[derive(Clone, Debug)]
    enum Op {
        Write(u64, Vec<u8>),
        SetLen(u64),
        Sync,
        Sent,
        Acked,
        Opened,
    }

    /// In-memory storage that logs every mutating backend call.
    #[derive(Debug)]
    struct RecBackend {
        /// shared, so that a second store can be opened on what the first one left
        data: Arc<Mutex<Vec<u8>>>,
        log: Option<Arc<Mutex<Vec<Op>>>>,
    }

    impl RecBackend {
        fn push(&self, op: Op) {
            if let Some(l) = &self.log {
                l.lock().unwrap().push(op);
            }
        }
    }

    impl StorageBackend for RecBackend {
        fn len(&self) -> Result<u64, std::io::Error> {
            Ok(self.data.lock().unwrap().len() as u64)
        }
        fn read(&self, offset: u64, out: &mut [u8]) -> Result<(), std::io::Error> {
            let d = self.data.lock().unwrap();
            let (o, n) = (offset as usize, out.len());
            if o + n > d.len() {
                return Err(std::io::Error::new(std::io::ErrorKind::UnexpectedEof, "read past end"));
            }
            out.copy_from_slice(&d[o..o + n]);
            Ok(())
        }
        fn set_len(&self, len: u64) -> Result<(), std::io::Error> {
            self.data.lock().unwrap().resize(len as usize, 0);
            self.push(Op::SetLen(len));
            Ok(())
        }
        fn sync_data(&self) -> Result<(), std::io::Error> {
            self.push(Op::Sync);
            Ok(())
        }
        fn write(&self, offset: u64, data: &[u8]) -> Result<(), std::io::Error> {
            let mut d = self.data.lock().unwrap();
            let o = offset as usize;
            if o + data.len() > d.len() {
                d.resize(o + data.len(), 0);
            }
            d[o..o + data.len()].copy_from_slice(data);
            drop(d);
            self.push(Op::Write(offset, data.to_vec()));
            Ok(())
        }
    }

    fn apply(image: &mut Vec<u8>, op: &Op) {
        match op {
            Op::Write(off, data) => {
                let o = *off as usize;
                if o + data.len() > image.len() {
                    image.resize(o + data.len(), 0);
                }
                image[o..o + data.len()].copy_from_slice(data);
            }
            Op::SetLen(l) => image.resize(*l as usize, 0),
            _ => {}
        }
    }

    #[derive(Deserialize)]
    struct P {
        ts: u64,
        pl: u64,
    }
    #[derive(Deserialize)]
    struct Msg {
        op: String,
        k: String,
        ts: u64,
        pl: u64,
        #[serde(default)]
        flag: bool,
        #[serde(default)]
        got: Option<P>,
        /// committed packet per key at the time the message is handled (compared for "snap")
        #[serde(default)]
        seen: BTreeMap<String, P>,
    }
    #[derive(Deserialize)]
    struct Case {
        b: usize,
        msgs: Vec<Msg>,
        /// mixed batches: the store is reopened on a database that holds an expired packet of k2, so the
        /// eviction task's CheckExpired opens the first batch
        #[serde(default)]
        mixed: bool,
    }
    #[derive(Serialize)]
    struct Cut {
        from: usize,
        to: usize,
        sent: usize,
        acked: usize,
        /// client position at the last sync before the cut (subset images only)
        sent0: usize,
        acked0: usize,
        subset: bool,
        state: String,
    }
    #[derive(Serialize)]
    struct CrashOut {
        case: usize,
        ok: bool,
        step: usize,
        what: String,
        exp: String,
        got: String,
        backend_ops: usize,
        reopened: usize,
        cuts: Vec<Cut>,
    }

    const TS_BASE: u64 = 1_700_000_000_000_000;

    fn opts(b: usize, eviction: Duration, interval: Duration, batch_time: Duration) -> StoreOptions {
        StoreOptions { max_batch_size: b, max_batch_time: batch_time, eviction, eviction_interval: interval }
    }

    fn wait_scan_done() {
        let t0 = Instant::now();
        while !verif::events().iter().any(|e| e.label == "dnssrv.evict.scan_done") {
            if t0.elapsed() > Duration::from_secs(20) {
                eprintln!("environment: eviction task did not finish its first scan");
                std::process::exit(3);
            }
            std::thread::sleep(Duration::from_micros(100));
        }
    }

    /// Canonical text of a store content: `k1=ts.pl,k2=0.0|ts@k1,...` (keys and entries sorted).
    fn project(dump: &StoreDump, keys: &BTreeMap<String, [u8; 32]>, built: &BTreeMap<Vec<u8>, (String, u64, u64)>) -> String {
        // real timestamp -> model timestamp, from the packets this case can publish
        let ts_of: BTreeMap<u64, u64> = built.iter().map(|(b, (_, ts, _))| (u64::from_be_bytes(b[96..104].try_into().unwrap()), *ts)).collect();
        let name_of = |kb: &[u8; 32]| keys.iter().find(|(_, v)| *v == kb).map(|(n, _)| n.clone()).unwrap_or_else(|| "?".into());
        let mut pk: BTreeMap<String, String> = keys.keys().map(|k| (k.clone(), "0.0".to_string())).collect();
        for (kb, row) in &dump.packets {
            let k = name_of(kb);
            let v = match row {
                Err(_) => "!".to_string(),
                Ok(bytes) => match built.get(bytes) {
                    Some((bk, ts, pl)) if *bk == k => format!("{ts}.{pl}"),
                    _ => "?".to_string(),
                },
            };
            pk.insert(k, v);
        }
        let mut ix: Vec<String> = dump
            .index
            .iter()
            .map(|(t, kb)| {
                let ts = ts_of.get(t).map(|m| m.to_string()).unwrap_or_else(|| "?".into());
                format!("{ts}@{}", name_of(kb))
            })
            .collect();
        ix.sort();
        let pks: Vec<String> = pk.iter().map(|(k, v)| format!("{k}={v}")).collect();
        format!("{}|{}", pks.join(","), ix.join(","))
    }

    fn reopen(rt: &tokio::runtime::Runtime, image: &[u8], keys: &BTreeMap<String, [u8; 32]>, built: &BTreeMap<Vec<u8>, (String, u64, u64)>) -> String {
        let backend = RecBackend { data: Arc::new(Mutex::new(image.to_vec())), log: None };
        let db = match Database::builder().create_with_backend(backend) {
            Ok(db) => db,
            Err(e) => return format!("open-failed: {e}"),
        };
        let res = rt.block_on(async {
            let store = VerifZoneStore::with_database(db, opts(1024, Duration::from_micros(u64::MAX), Duration::from_secs(3600), Duration::from_millis(5)))
                .map_err(|e| format!("store-open-failed: {e:#}"))?;
            let dump = store.dump().await.map_err(|e| format!("dump-failed: {e:#}"))?;
            Ok::<_, String>((store, dump))
        });
        match res {
            Err(e) => e,
            Ok((store, dump)) => {
                let s = project(&dump, keys, built);
                drop(store);
                s
            }
        }
    }

    fn crash_case(rt: &tokio::runtime::Runtime, case: usize, c: &Case, subsets: usize) -> CrashOut {
        let seed = seed();
        let mut out = CrashOut { case, ok: true, step: 0, what: String::new(), exp: String::new(), got: String::new(), backend_ops: 0, reopened: 0, cuts: vec![] };
        let knames = ["k1", "k2"];
        let secrets: BTreeMap<String, iroh_base::SecretKey> = knames.iter().map(|n| (n.to_string(), secret(seed, case as u64, n))).collect();
        let keys: BTreeMap<String, [u8; 32]> = secrets.iter().map(|(n, s)| (n.clone(), *s.public().as_bytes())).collect();
        let mut built: BTreeMap<Vec<u8>, (String, u64, u64)> = BTreeMap::new();
        let mut packets = BTreeMap::new();
        let retention = Duration::from_secs(3600);
        let now = std::time::SystemTime::now().duration_since(std::time::UNIX_EPOCH).unwrap().as_micros() as u64;
        // mixed: model timestamp 1 is an hour beyond the retention, 2 and 3 are half an hour inside it
        let real_ts = |ts: u64| -> u64 {
            if !c.mixed {
                TS_BASE + ts
            } else if ts == 1 {
                now - 2 * retention.as_micros() as u64
            } else {
                now - retention.as_micros() as u64 / 2 + ts * 60_000_000
            }
        };
        for k in knames {
            for ts in 1..=3u64 {
                for pl in 1..=3u64 {
                    let z = secrets[k].public().to_z32();
                    let dns = dns_payload(&[Rec { zl: k.into(), rel: "_iroh".into(), ty: "TXT".into(), v: pl }], &|_| z.clone());
                    let p = signed_packet(&secrets[k], real_ts(ts), &dns);
                    built.insert(p.as_bytes().to_vec(), (k.to_string(), ts, pl));
                    packets.insert((k.to_string(), ts, pl), p);
                }
            }
        }
        let log = Arc::new(Mutex::new(Vec::<Op>::new()));
        let data = Arc::new(Mutex::new(Vec::new()));
        let hour = Duration::from_secs(3600);
        let open_store = |eviction: Duration| {
            let backend = RecBackend { data: data.clone(), log: Some(log.clone()) };
            verif::take_events();
            verif::record(true);
            let db = Database::builder().create_with_backend(backend).expect("open database on recording backend");
            let store = rt.block_on(async { VerifZoneStore::with_database(db, opts(c.b, eviction, hour, hour)).expect("open store") });
            // the eviction task's only scan is over: its snapshot request cannot land inside a client batch, and
            // every CheckExpired it found reason for is queued ahead of whatever the client sends from now on
            wait_scan_done();
            verif::record(false);
            store
        };
        let store = if c.mixed {
            let first = open_store(Duration::from_micros(u64::MAX));
            let f = rt.block_on(first.insert(packets[&("k2".to_string(), 1, 1)].clone())).expect("insert expired packet");
            assert!(f, "setup: expired packet not stored");
            drop(first); // clean close: the expired packet is committed
            open_store(retention)
        } else {
            open_store(Duration::from_micros(u64::MAX))
        };
        log.lock().unwrap().push(Op::Opened);
        for (i, m) in c.msgs.iter().enumerate() {
            log.lock().unwrap().push(Op::Sent);
            let mismatch = rt.block_on(async {
                if m.op == "upsert" {
                    let f = store.insert(packets[&(m.k.clone(), m.ts, m.pl)].clone()).await.map_err(|e| ("insert failed".to_string(), "Ok".to_string(), format!("{e:#}")))?;
                    if f != m.flag {
                        return Err(("insert flag".to_string(), m.flag.to_string(), f.to_string()));
                    }
                } else if m.op == "snap" {
                    let d = store.dump().await.map_err(|e| ("snapshot failed".to_string(), "Ok".to_string(), format!("{e:#}")))?;
                    let shown = project(&d, &keys, &built);
                    let got = shown.split('|').next().unwrap_or("").to_string();
                    let exp = m.seen.iter().map(|(k, p)| format!("{k}={}.{}", p.ts, p.pl)).collect::<Vec<_>>().join(",");
                    if got != exp {
                        return Err(("snapshot content".to_string(), exp, got));
                    }
                } else {
                    let g = store.get_signed_packet(&keys[&m.k]).await.map_err(|e| ("get failed".to_string(), "Ok".to_string(), format!("{e:#}")))?;
                    let got = match &g {
                        None => "0.0".to_string(),
                        Some(p) => built.get(p.as_bytes()).map(|(_, ts, pl)| format!("{ts}.{pl}")).unwrap_or("?".into()),
                    };
                    let exp = m.got.as_ref().map(|p| format!("{}.{}", p.ts, p.pl)).unwrap_or("0.0".into());
                    if got != exp {
                        return Err(("get result".to_string(), exp, got));
                    }
                }
                Ok(())
            });
            log.lock().unwrap().push(Op::Acked);
            if let Err((what, exp, got)) = mismatch {
                out.ok = false;
                out.step = i;
                out.what = what;
                out.exp = exp;
                out.got = got;
                break;
            }
        }
        drop(store); // cancel: the open batch is committed, both threads are joined
        let ops = log.lock().unwrap().clone();
        out.backend_ops = ops.iter().filter(|o| matches!(o, Op::Write(..) | Op::SetLen(_) | Op::Sync)).count();
        let opened = ops.iter().position(|o| matches!(o, Op::Opened)).expect("opened marker");
        let mut image = Vec::new();
        let (mut sent, mut acked) = (0usize, 0usize);
        let (mut sent0, mut acked0, mut last_sync, mut synced_image) = (0usize, 0usize, 0usize, Vec::new());
        let mut rng = seed ^ (case as u64).wrapping_mul(0x9E37_79B9);
        let mut next = move || {
            rng ^= rng << 13;
            rng ^= rng >> 7;
            rng ^= rng << 17;
            rng
        };
        let mut last_state: Option<String> = None;
        for (p, op) in ops.iter().enumerate() {
            let changed = matches!(op, Op::Write(..) | Op::SetLen(_));
            apply(&mut image, op);
            match op {
                Op::Sent => sent += 1,
                Op::Acked => acked += 1,
                Op::Sync => {
                    sent0 = sent;
                    acked0 = acked;
                    last_sync = p;
                    synced_image = image.clone();
                }
                _ => {}
            }
            if p < opened || !matches!(op, Op::Write(..) | Op::SetLen(_) | Op::Sync | Op::Acked) {
                continue;
            }
            // crash right after operation p: everything issued so far reached the disk
            let state = match (&last_state, changed) {
                (Some(s), false) => s.clone(),
                _ => {
                    out.reopened += 1;
                    reopen(rt, &image, &keys, &built)
                }
            };
            last_state = Some(state.clone());
            match out.cuts.last_mut() {
                Some(c) if !c.subset && c.state == state && c.sent == sent && c.acked == acked => c.to = p,
                _ => out.cuts.push(Cut { from: p, to: p, sent, acked, sent0: sent, acked0: acked, subset: false, state }),
            }
            // crash with only a subset of the not yet synced writes on disk
            for _ in 0..(if matches!(op, Op::Acked) { 0 } else { subsets }) {
                let pending: Vec<&Op> = ops[last_sync + 1..=p].iter().filter(|o| matches!(o, Op::Write(..) | Op::SetLen(_))).collect();
                if pending.len() < 2 || last_sync < opened {
                    break;
                }
                let mut img = synced_image.clone();
                for o in pending {
                    if matches!(o, Op::SetLen(_)) || next() % 2 == 0 {
                        apply(&mut img, o);
                    }
                }
                out.reopened += 1;
                let state = reopen(rt, &img, &keys, &built);
                out.cuts.push(Cut { from: p, to: p, sent, acked, sent0, acked0, subset: true, state });
            }
        }
        out
    }

    pub fn run_crash(args: &Args) {
        let cases: Vec<Case> = read_ndjson(&args.path("in"));
        let subsets = args.num("subsets", 0) as usize;
        let mut out = NdjsonOut::create(&args.path("out"));
        let rt = tokio::runtime::Builder::new_multi_thread().worker_threads(4).enable_all().build().unwrap();
        for (case, c) in cases.iter().enumerate() {
            out.emit(&crash_case(&rt, case, c, subsets));
        }
        out.finish();
    }

    // ------------------------------------------------------------------ eviction
    #[derive(Deserialize)]
    struct EvictCase {
        msgs: Vec<Msg>,
        /// key -> packet that must remain (ts 0 = nothing)
        r#final: BTreeMap<String, P>,
        cutoff: u64,
    }
    #[derive(Serialize)]
    struct EvictOut {
        case: usize,
        ok: bool,
        what: String,
        exp: String,
        got: String,
        waited_ms: u64,
    }

    pub fn run_evict(args: &Args) {
        let cases: Vec<EvictCase> = read_ndjson(&args.path("in"));
        let mut out = NdjsonOut::create(&args.path("out"));
        let seed = seed();
        let rt = tokio::runtime::Builder::new_multi_thread().worker_threads(4).enable_all().build().unwrap();
        let eviction = Duration::from_secs(3600);
        let now = std::time::SystemTime::now().duration_since(std::time::UNIX_EPOCH).unwrap().as_micros() as u64;
        // model timestamp t  ->  cut-off at start + (t - cutoff) * 10 min + 5 min:  t < cutoff is at least 5 minutes
        // too old, t >= cutoff stays at least 5 minutes young enough
        let real_ts = |t: u64, cutoff: u64| -> u64 {
            let base = now - eviction.as_micros() as u64;
            (base as i64 + (t as i64 - cutoff as i64) * 600_000_000 + 300_000_000) as u64
        };
        let store = rt.block_on(async {
            VerifZoneStore::in_memory(opts(8, eviction, Duration::from_millis(30), Duration::from_millis(10))).expect("store")
        });
        struct Live {
            key: [u8; 32],
            built: BTreeMap<Vec<u8>, (u64, u64)>,
            index_ts: BTreeMap<u64, u64>,
        }
        let mut lives = Vec::new();
        for (case, c) in cases.iter().enumerate() {
            // one real key per model key and case
            let mut per_key: BTreeMap<String, Live> = BTreeMap::new();
            for m in &c.msgs {
                let sk = secret(seed, case as u64, &m.k);
                let live = per_key.entry(m.k.clone()).or_insert_with(|| Live { key: *sk.public().as_bytes(), built: BTreeMap::new(), index_ts: BTreeMap::new() });
                if m.op != "upsert" {
                    continue;
                }
                let z = sk.public().to_z32();
                let dns = dns_payload(&[Rec { zl: m.k.clone(), rel: "_iroh".into(), ty: "TXT".into(), v: m.pl }], &|_| z.clone());
                let rts = real_ts(m.ts, c.cutoff);
                let p = signed_packet(&sk, rts, &dns);
                live.built.insert(p.as_bytes().to_vec(), (m.ts, m.pl));
                live.index_ts.insert(rts, m.ts);
                rt.block_on(store.insert(p)).expect("insert");
            }
            lives.push(per_key);
        }
        // bounded wait for "eventually": all expired packets gone, every live one still there and indexed
        let t0 = Instant::now();
        let judge = |dump: &StoreDump, case: usize| -> Result<(), (String, String, String)> {
            for (k, live) in &lives[case] {
                let exp = cases[case].r#final.get(k).map(|p| format!("{}.{}", p.ts, p.pl)).unwrap_or("0.0".into());
                let row = dump.packets.iter().find(|(kb, _)| kb == &live.key);
                let got = match row {
                    None => "0.0".to_string(),
                    Some((_, Err(e))) => format!("undecodable: {e}"),
                    Some((_, Ok(b))) => live.built.get(b).map(|(ts, pl)| format!("{ts}.{pl}")).unwrap_or("?".into()),
                };
                if got != exp {
                    let what = if exp != "0.0" && got == "0.0" { "evicted a packet newer than the cut-off" } else if exp == "0.0" { "expired packet still stored" } else { "stored packet" };
                    return Err((format!("{what} for {k}"), exp, got));
                }
                if let Some((_, Ok(b))) = row {
                    let ts = u64::from_be_bytes(b[96..104].try_into().unwrap());
                    if !dump.index.iter().any(|(t, kb)| *t == ts && kb == &live.key) {
                        return Err((format!("stored packet not indexed at its timestamp for {k}"), "indexed".into(), "missing".into()));
                    }
                }
            }
            Ok(())
        };
        let mut verdicts: Vec<Option<(String, String, String)>>;
        loop {
            let dump = rt.block_on(store.dump()).expect("dump");
            verdicts = (0..cases.len()).map(|i| judge(&dump, i).err()).collect();
            let pending = verdicts.iter().flatten().any(|(w, _, _)| w.starts_with("expired packet still stored"));
            let definite = verdicts.iter().flatten().any(|(w, _, _)| !w.starts_with("expired packet still stored"));
            if !pending || definite || t0.elapsed() > Duration::from_secs(20) {
                break;
            }
            std::thread::sleep(Duration::from_millis(20));
        }
        let waited_ms = t0.elapsed().as_millis() as u64;
        for (case, v) in verdicts.into_iter().enumerate() {
            out.emit(&match v {
                None => EvictOut { case, ok: true, what: String::new(), exp: String::new(), got: String::new(), waited_ms },
                Some((what, exp, got)) => EvictOut { case, ok: false, what, exp, got, waited_ms },
            });
        }
        out.finish();
        drop(store);
    }
}
