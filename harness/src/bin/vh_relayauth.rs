//! Conformance drivers for relay authentication / admission / revocation (C03, C07, C08).
use vh::io::Args;

fn main() {
    let args = Args::parse();
    match args.sub.as_str() {
        other => {
            eprintln!("unknown subcommand {other}");
            std::process::exit(2);
        }
    }
}
