//! Conformance driver for the relay server's connection registry and per-connection actors
//! (C04 forwarding, C05 isolation, C06 registry; spec: specs/relay/RelayServer.tla).
//!
//! Drives the real `iroh_relay::server::clients::Clients` through its public embedding API
//! (`Clients::default()`, `Config::new(OnDisconnectGuard::empty(key), RelayedStream::new(..), version)`,
//! `Clients::register`, `Clients::disconnect`) with one in-memory `Stream + Sink` of `Bytes` per
//! connection.  Client frames are hand-encoded (so that frames an honest client refuses to
//! send can be sent) and server frames are hand-decoded (independent of the crate's codec).
//!
//! Subcommands
//!   replay  --in scenarios.ndjson --out obs.ndjson
//!           mode A: one driver call at a time on a current-thread runtime, actors run to
//!           quiescence after each call; reports what every client has observed after each step.
//!   random  --out traces.ndjson --n N --len L [--threads T] [--conns spec]
//!           mode B: seeded random workload on a multi-thread runtime; writes one event log per
//!           run for validation against specs/relay/Trace_RelayServer.tla.
use std::{
    collections::{BTreeMap, HashMap, VecDeque},
    pin::Pin,
    sync::{
        Arc, Mutex,
        atomic::{AtomicU64, Ordering},
    },
    task::{Context, Poll, Waker},
    time::Duration,
};

use bytes::{BufMut, Bytes, BytesMut};
use iroh_base::{EndpointId, SecretKey};
use iroh_relay::{
    KeyCache,
    http::ProtocolVersion,
    server::{
        ConnectionId, Metrics, OnDisconnectGuard,
        client::Config,
        clients::Clients,
        streams::RelayedStream,
    },
};
use n0_error::AnyError;
use serde::{Deserialize, Serialize};
use vh::io::{Args, NdjsonOut, read_ndjson};

fn main() {
    let args = Args::parse();
    match args.sub.as_str() {
        "replay" => replay::run(&args),
        "random" => random::run(&args),
        other => {
            eprintln!("unknown subcommand {other}");
            std::process::exit(2);
        }
    }
}

// ------------------------------------------------------------------------------------------
// In-memory transport
// ------------------------------------------------------------------------------------------

/// Counts every poll of a server-side stream half: "did any actor run?"
static ACTIVITY: AtomicU64 = AtomicU64::new(0);

#[derive(Default)]
struct Shared {
    /// client -> relay frames not yet read by the actor
    inq: VecDeque<Bytes>,
    eof: bool,
    rx_waker: Option<Waker>,
    /// relay -> client frames, in the order the sink accepted them
    out: Vec<Bytes>,


    stalled: bool,
    broken: bool,
    tx_waker: Option<Waker>,
    /// the relay dropped its half (the actor ended)
    server_dropped: bool,
    /// called for every accepted frame (mode B logging), under the lock
    on_frame: Option<Box<dyn FnMut(&Bytes) + Send>>,
    on_drop: Option<Box<dyn FnMut() + Send>>,
    /// called when the actor takes a frame (false) or the end of the stream (true) out of `inq`
    on_read: Option<Box<dyn FnMut(bool) + Send>>,
    eof_seen: bool,
    /// poll_ready answered Ready and the frame has not been handed over yet: a stall requested
    /// now would come too late for this frame (mode B skips such a stall)
    granted: bool,
}

#[derive(Clone, Default)]
struct Handle(Arc<Mutex<Shared>>);

impl Handle {
    fn push(&self, frame: Bytes) {
        let w = {
            let mut s = self.0.lock().unwrap();
            s.inq.push_back(frame);
            s.rx_waker.take()
        };
        if let Some(w) = w {
            w.wake();
        }
    }
    fn close(&self) {
        let w = {
            let mut s = self.0.lock().unwrap();
            s.eof = true;
            s.rx_waker.take()
        };
        if let Some(w) = w {
            w.wake();
        }
    }
    fn set_stalled(&self, v: bool) {
        let w = {
            let mut s = self.0.lock().unwrap();
            s.stalled = v;
            s.tx_waker.take()
        };
        if let Some(w) = w {
            w.wake();
        }
    }
    fn set_broken(&self) {
        let w = {
            let mut s = self.0.lock().unwrap();
            s.broken = true;
            s.tx_waker.take()
        };
        if let Some(w) = w {
            w.wake();
        }
    }
    fn received(&self) -> usize {
        self.0.lock().unwrap().out.len()
    }
    fn gone(&self) -> bool {
        self.0.lock().unwrap().server_dropped
    }
    fn frames(&self) -> Vec<Bytes> {
        self.0.lock().unwrap().out.clone()
    }
}

/// The relay's half of a connection.
struct MemStream(Arc<Mutex<Shared>>);

impl Drop for MemStream {
    fn drop(&mut self) {
        ACTIVITY.fetch_add(1, Ordering::SeqCst);
        let mut s = self.0.lock().unwrap();
        s.server_dropped = true;
        if let Some(f) = s.on_drop.as_mut() {
            f();
        }
    }
}

impl n0_future::Stream for MemStream {
    type Item = Result<Bytes, AnyError>;
    fn poll_next(self: Pin<&mut Self>, cx: &mut Context<'_>) -> Poll<Option<Self::Item>> {
        ACTIVITY.fetch_add(1, Ordering::SeqCst);
        let mut s = self.0.lock().unwrap();
        if let Some(f) = s.inq.pop_front() {
            if let Some(cb) = s.on_read.as_mut() {
                cb(false);
            }
            return Poll::Ready(Some(Ok(f)));
        }
        if s.eof {
            if !s.eof_seen {
                s.eof_seen = true;
                if let Some(cb) = s.on_read.as_mut() {
                    cb(true);
                }
            }
            return Poll::Ready(None);
        }
        s.rx_waker = Some(cx.waker().clone());
        Poll::Pending
    }
}

impl MemStream {
    fn poll_writable(&self, cx: &mut Context<'_>, grant: bool) -> Poll<Result<(), AnyError>> {
        ACTIVITY.fetch_add(1, Ordering::SeqCst);
        let mut s = self.0.lock().unwrap();
        if s.broken {
            return Poll::Ready(Err(n0_error::anyerr!("transport broken (injected)")));
        }
        if s.stalled {
            s.tx_waker = Some(cx.waker().clone());
            return Poll::Pending;
        }
        if grant {
            s.granted = true;
        }
        Poll::Ready(Ok(()))
    }
}

impl n0_future::Sink<Bytes> for MemStream {
    type Error = AnyError;
    fn poll_ready(self: Pin<&mut Self>, cx: &mut Context<'_>) -> Poll<Result<(), AnyError>> {
        self.poll_writable(cx, true)
    }
    fn start_send(self: Pin<&mut Self>, item: Bytes) -> Result<(), AnyError> {
        ACTIVITY.fetch_add(1, Ordering::SeqCst);
        let mut s = self.0.lock().unwrap();
        if s.broken {
            return Err(n0_error::anyerr!("transport broken (injected)"));
        }
        s.granted = false;
        if let Some(f) = s.on_frame.as_mut() {
            f(&item);
        }
        s.out.push(item);
        Ok(())
    }
    fn poll_flush(self: Pin<&mut Self>, cx: &mut Context<'_>) -> Poll<Result<(), AnyError>> {
        self.poll_writable(cx, false)
    }
    fn poll_close(self: Pin<&mut Self>, cx: &mut Context<'_>) -> Poll<Result<(), AnyError>> {
        self.poll_writable(cx, false)
    }
}

// ------------------------------------------------------------------------------------------
// Concretisation: keys, frame classes, wire decoding
// ------------------------------------------------------------------------------------------

fn seed() -> u64 {
    std::env::var("VERIF_SEED").ok().and_then(|s| s.parse().ok()).unwrap_or(1)
}

/// The endpoint id standing for the model's key name.
fn key_for(name: &str, seed: u64) -> EndpointId {
    let h = blake3::hash(format!("verif-relayreg-key/{seed}/{name}").as_bytes());
    SecretKey::from_bytes(h.as_bytes()).public()
}

struct XorShift(u64);
impl XorShift {
    fn next(&mut self) -> u64 {
        let mut x = self.0;
        x ^= x << 13;
        x ^= x >> 7;
        x ^= x << 17;
        self.0 = x;
        x
    }
}

/// What a client put into a datagram frame (to compare with what arrives).
#[derive(Clone, Debug, PartialEq, Eq)]
struct SentDg {
    batch: bool,
    ecn: u8,
    seg: u16,
    contents: Bytes,
}

const MAX_SINGLE: usize = 65536 - 32 - 1; // decoder limit for a single datagram: 65 503
const MAX_BATCH: usize = 65536 - 32 - 3; // 65 501

fn payload(id: u64, len: usize, seed: u64) -> Bytes {
    let mut v = Vec::with_capacity(len);
    let mut r = XorShift(seed.wrapping_mul(0x9E37_79B9_7F4A_7C15) ^ (id << 20) ^ 0x5DEE_CE66_D1CE_4E5B);
    if len >= 4 {
        v.extend_from_slice(&(id as u32).to_be_bytes());
    }
    while v.len() + 8 <= len {
        v.extend_from_slice(&r.next().to_le_bytes());
    }
    while v.len() < len {
        v.push(r.next() as u8);
    }
    Bytes::from(v)
}

/// Encodes the client frame of abstract class `cls`.  Returns the frame bytes and, for
/// datagram classes, what was put in.
fn encode_client_frame(cls: &str, id: u64, dst: &EndpointId, seed: u64) -> (Bytes, Option<SentDg>) {
    let dg = |batch: bool, ecn: u8, seg: u16, len: usize| {
        let contents = payload(id, len, seed);
        let mut b = BytesMut::with_capacity(40 + len);
        b.put_u8(if batch { 5 } else { 4 });
        b.put_slice(dst.as_bytes());
        b.put_u8(ecn);
        if batch {
            b.put_u16(seg);
        }
        b.put_slice(&contents);
        (b.freeze(), Some(SentDg { batch, ecn, seg, contents }))
    };
    match cls {
        "normal" => dg(false, 0, 0, 24 + (id as usize % 5) * 7),
        "ecn" => dg(false, 1 + (id % 3) as u8, 0, 40),
        "batch" => dg(true, (id % 4) as u8, 16, 16 * 3 + (id as usize % 2) * 5),
        "maxm1" => dg(false, 0, 0, MAX_SINGLE - 1),
        "bmaxm1" => dg(true, 2, 1200, MAX_BATCH - 1),
        "empty" => dg(false, 0, 0, 0),
        "ebatch" => dg(true, 0, 1200, 0),
        "maxlen" => dg(false, 0, 0, MAX_SINGLE),
        "bmax" => dg(true, 0, 1200, MAX_BATCH),
        "ping" | "pong" => {
            let mut b = BytesMut::with_capacity(9);
            b.put_u8(if cls == "ping" { 9 } else { 10 });
            b.put_u64(id);
            (b.freeze(), None)
        }
        // frames ClientToRelayMsg::from_bytes refuses; which one is picked from the id
        "reject" => {
            let mut b = BytesMut::new();
            match id % 4 {
                0 => {
                    // one byte over the decoder's size limit
                    b.put_u8(4);
                    b.put_slice(dst.as_bytes());
                    b.put_u8(0);
                    b.put_slice(&payload(id, MAX_SINGLE + 1, seed));
                }
                1 => {
                    // a relay -> client frame type
                    b.put_u8(6);
                    b.put_slice(dst.as_bytes());
                    b.put_u8(0);
                    b.put_slice(b"hello");
                }
                2 => {
                    // truncated datagram frame
                    b.put_u8(4);
                    b.put_slice(&dst.as_bytes()[..10]);
                }
                _ => {
                    // unknown frame type
                    b.put_u8(0x3f);
                    b.put_slice(b"junk");
                }
            }
            (b.freeze(), None)
        }
        other => panic!("unknown frame class {other}"),
    }
}

/// A relay -> client frame in the vocabulary of the spec's `wire`.
#[derive(Serialize, Clone, Debug, PartialEq, Eq)]
struct WireItem {
    t: String,
    src: String,
    id: u64,
    cls: String,
}

struct Decoder<'a> {
    key_names: &'a HashMap<EndpointId, String>,
    sent: &'a HashMap<u64, (String, SentDg)>,
}

impl Decoder<'_> {
    fn key_name(&self, b: &[u8]) -> String {
        <[u8; 32]>::try_from(b)
            .ok()
            .and_then(|a| EndpointId::from_bytes(&a).ok())
            .and_then(|k| self.key_names.get(&k).cloned())
            .unwrap_or_else(|| "?".to_string())
    }

    fn decode(&self, f: &Bytes) -> WireItem {
        let item = |t: &str, src: String, id: u64, cls: String| WireItem { t: t.into(), src, id, cls };
        if f.is_empty() {
            return item("malformed", "none".into(), 0, "empty-frame".into());
        }
        let body = &f[1..];
        match f[0] {
            6 | 7 => {
                let batch = f[0] == 7;
                let min = 32 + 1 + if batch { 2 } else { 0 };
                if body.len() < min {
                    return item("malformed", "none".into(), 0, "short-datagram".into());
                }
                let src = self.key_name(&body[..32]);
                let ecn = body[32];
                let (seg, contents) = if batch {
                    (u16::from_be_bytes([body[33], body[34]]), &body[35..])
                } else {
                    (0, &body[33..])
                };
                let id = if contents.len() >= 4 {
                    u32::from_be_bytes([contents[0], contents[1], contents[2], contents[3]]) as u64
                } else {
                    0
                };
                let cls = match self.sent.get(&id) {
                    None => "unknown-id".to_string(),
                    Some((cls, s)) => {
                        if s.batch != batch {
                            "corrupt-kind".into()
                        } else if s.ecn != ecn {
                            "corrupt-ecn".into()
                        } else if s.seg != seg {
                            "corrupt-segsize".into()
                        } else if s.contents.as_ref() != contents {
                            "corrupt-contents".into()
                        } else {
                            cls.clone()
                        }
                    }
                };
                item("dg", src, id, cls)
            }
            8 if body.len() == 32 => item("gone", self.key_name(body), 0, "none".into()),
            9 if body.len() == 8 => item("ping", "none".into(), 0, "none".into()),
            10 if body.len() == 8 => {
                item("pong", "none".into(), u64::from_be_bytes(body.try_into().unwrap()), "none".into())
            }
            13 if body.len() == 1 => match body[0] {
                0 => item("healthy", "none".into(), 0, "none".into()),
                1 => item("same", "none".into(), 0, "none".into()),
                n => item(&format!("status{n}"), "none".into(), 0, "none".into()),
            },
            11 => {
                // protocol V1 health frame: free text
                let txt = String::from_utf8_lossy(body);
                if txt.starts_with("Another endpoint connected with the same endpoint id") {
                    item("same", "none".into(), 0, "none".into())
                } else if txt.starts_with("The connection is healthy") {
                    item("healthy", "none".into(), 0, "none".into())
                } else {
                    item("health-text", "none".into(), 0, "none".into())
                }
            }
            t => item(&format!("type{t}"), "none".into(), 0, "none".into()),
        }
    }
}

fn version_of(s: &str) -> ProtocolVersion {
    match s {
        "V1" => ProtocolVersion::V1,
        _ => ProtocolVersion::V2,
    }
}

/// One registered (or about to be registered) connection.
struct Conn {
    key: EndpointId,
    id: ConnectionId,
    h: Handle,
}

fn make_conn(key: EndpointId, cap: usize, version: ProtocolVersion) -> (Conn, Config<MemStream>) {
    let h = Handle::default();
    let guard = OnDisconnectGuard::empty(key);
    let id = guard.connection_id();
    let stream = RelayedStream::new(MemStream(h.0.clone()), KeyCache::new(16));
    let mut cfg = Config::new(guard, stream, version);
    cfg.channel_capacity = cap;
    // the write timeout is not modelled: keep it out of reach
    cfg.write_timeout = Duration::from_secs(3600);
    (Conn { key, id, h }, cfg)
}

// ------------------------------------------------------------------------------------------
// Mode A: replay of TLC-generated behaviours
// ------------------------------------------------------------------------------------------
mod replay {
    use super::*;

    #[derive(Deserialize)]
    struct Step {
        op: String,
        c: String,
        dst: String,
        cls: String,
        id: u64,
    }
    #[derive(Deserialize)]
    struct Scenario {
        id: u64,
        conns: BTreeMap<String, String>,
        cap: usize,
        #[serde(default)]
        version: String,
        steps: Vec<Step>,
    }
    #[derive(Serialize)]
    struct Mark {
        n: usize,
        gone: bool,
    }
    #[derive(Serialize)]
    struct After {
        ret: String,
        marks: BTreeMap<String, Mark>,
    }
    #[derive(Serialize, Default)]
    struct Obs {
        id: u64,
        after: Vec<After>,
        wire: BTreeMap<String, Vec<WireItem>>,
        error: Option<String>,
    }

    /// Lets every spawned actor run until nothing moves any more.
    async fn quiesce() -> Result<(), String> {
        let mut idle = 0;
        for _ in 0..2_000 {
            let before = ACTIVITY.load(Ordering::SeqCst);
            // parks the runtime so that its timer driver runs (virtual time: no real delay);
            // a freshly spawned actor first awaits the immediate tick of its ping interval
            tokio::time::sleep(Duration::from_millis(1)).await;
            tokio::task::yield_now().await;
            if ACTIVITY.load(Ordering::SeqCst) == before {
                idle += 1;
                if idle >= 4 {
                    return Ok(());
                }
            } else {
                idle = 0;
            }
        }
        Err("no quiescence after 2000 scheduler rounds".into())
    }

    async fn run_one(sc: &Scenario, seed: u64) -> Obs {
        let mut obs = Obs { id: sc.id, ..Default::default() };
        let version = version_of(&sc.version);
        let clients = Clients::default();
        let metrics = Arc::new(Metrics::default());
        let mut key_names: HashMap<EndpointId, String> = HashMap::new();
        let mut keys: HashMap<String, EndpointId> = HashMap::new();
        let mut key_of = |name: &str| -> EndpointId {
            *keys.entry(name.to_string()).or_insert_with(|| {
                let k = key_for(name, seed);
                key_names.insert(k, name.to_string());
                k
            })
        };
        for k in sc.conns.values() {
            key_of(k);
        }
        let mut conns: BTreeMap<String, Conn> = BTreeMap::new();
        let mut sent: HashMap<u64, (String, SentDg)> = HashMap::new();

        for st in &sc.steps {
            let mut ret = "na".to_string();
            match st.op.as_str() {
                "connect" => {
                    let key = key_of(&sc.conns[&st.c]);
                    let (conn, cfg) = make_conn(key, sc.cap, version);
                    clients.register(cfg, metrics.clone());
                    conns.insert(st.c.clone(), conn);
                }
                "frame" => {
                    let dst = key_of(&st.dst);
                    let (bytes, dg) = encode_client_frame(&st.cls, st.id, &dst, seed);
                    if let Some(dg) = dg {
                        sent.insert(st.id, (st.cls.clone(), dg));
                    }
                    conns[&st.c].h.push(bytes);
                }
                "close" => conns[&st.c].h.close(),
                "disconnect" => {
                    let c = &conns[&st.c];
                    ret = clients.disconnect(c.key, Some(c.id)).to_string();
                }
                "disconnectkey" => {
                    ret = clients.disconnect(key_of(&st.dst), None).to_string();
                }
                "stall" => conns[&st.c].h.set_stalled(true),
                "unstall" => conns[&st.c].h.set_stalled(false),
                "break" => conns[&st.c].h.set_broken(),
                other => {
                    obs.error = Some(format!("harness: unknown op {other}"));
                    return obs;
                }
            }
            if let Err(e) = quiesce().await {
                obs.error = Some(format!("harness: {e}"));
                return obs;
            }
            let marks = sc
                .conns
                .keys()
                .map(|name| {
                    let m = match conns.get(name) {
                        Some(c) => Mark { n: c.h.received(), gone: c.h.gone() },
                        None => Mark { n: 0, gone: false },
                    };
                    (name.clone(), m)
                })
                .collect();
            obs.after.push(After { ret, marks });
        }
        let dec = Decoder { key_names: &key_names, sent: &sent };
        for name in sc.conns.keys() {
            let items = match conns.get(name) {
                Some(c) => c.h.frames().iter().map(|f| dec.decode(f)).collect(),
                None => Vec::new(),
            };
            obs.wire.insert(name.clone(), items);
        }
        obs
    }

    pub fn run(args: &Args) {
        let scenarios: Vec<Scenario> = read_ndjson(&args.path("in"));
        let mut out = NdjsonOut::create(&args.path("out"));
        let seed = seed();
        for sc in &scenarios {
            let r = vh::io::catch(|| {
                let rt = tokio::runtime::Builder::new_current_thread().enable_time().start_paused(true).build().unwrap();
                let obs = rt.block_on(run_one(sc, seed));
                drop(rt);
                obs
            });
            let obs = match r {
                Ok(o) => o,
                Err(p) => Obs { id: sc.id, error: Some(format!("panic: {p}")), ..Default::default() },
            };
            out.emit(&obs);
        }
        out.finish();
    }
}

// ------------------------------------------------------------------------------------------
// Mode B: randomized multi-thread workload, event log for trace validation
// ------------------------------------------------------------------------------------------
mod random {
    use super::*;

    /// One logged event; `Recv` keeps the raw frame, decoded after the run.
    enum Raw {
        Push { c: String, k: String, cls: String, id: u64 },
        Eof { c: String },
        Stall { c: String, on: bool },
        Call { op: &'static str, c: String, k: String },
        Ret { ret: String },
        Recv { c: String, frame: Bytes },
        Read { c: String, eof: bool },
        Drop { c: String },
    }
    type Log = Arc<Mutex<Vec<Raw>>>;

    #[derive(Serialize)]
    struct Ev {
        ev: String,
        c: String,
        k: String,
        cls: String,
        id: u64,
        t: String,
        src: String,
        ret: String,
    }
    fn ev(name: &str) -> Ev {
        let n = || "none".to_string();
        Ev { ev: name.into(), c: n(), k: n(), cls: n(), id: 0, t: n(), src: n(), ret: n() }
    }

    const NAMES: [(&str, &str); 5] = [("a1", "A"), ("a2", "A"), ("a3", "A"), ("b1", "B"), ("b2", "B")];

    struct Live {
        conn: Conn,
        quiet: bool, // eof pushed, disconnected or a rejected frame pushed: no further frames
    }

    async fn one_run(run: u64, seed: u64, len: u64, cap: usize, version: ProtocolVersion) -> Vec<Ev> {
        let mut rng = XorShift(seed.wrapping_mul(0x2545_F491_4F6C_DD1D) ^ (run + 1).wrapping_mul(0x9E37_79B9_7F4A_7C15) | 1);
        let log: Log = Arc::new(Mutex::new(Vec::new()));
        let clients = Clients::default();
        let metrics = Arc::new(Metrics::default());
        let mut key_names: HashMap<EndpointId, String> = HashMap::new();
        let mut keys: HashMap<String, EndpointId> = HashMap::new();
        for k in ["A", "B", "Z"] {
            let id = key_for(k, seed);
            keys.insert(k.to_string(), id);
            key_names.insert(id, k.to_string());
        }
        let mut sent: HashMap<u64, (String, SentDg)> = HashMap::new();
        let mut live: BTreeMap<String, Live> = BTreeMap::new();
        let mut unused: Vec<(&str, &str)> = NAMES.to_vec();
        let mut next_id = 1u64;
        let pick = |rng: &mut XorShift, n: usize| (rng.next() % n as u64) as usize;

        for _ in 0..len {
            let roll = rng.next() % 100;
            let names: Vec<String> = live.keys().cloned().collect();
            if (roll < 15 || live.is_empty()) && !unused.is_empty() {
                // register a new connection
                let (name, key) = unused.remove(pick(&mut rng, unused.len()));
                let (conn, cfg) = make_conn(keys[key], cap, version);
                {
                    let mut s = conn.h.0.lock().unwrap();
                    let (l1, n1) = (log.clone(), name.to_string());
                    s.on_frame = Some(Box::new(move |f| l1.lock().unwrap().push(Raw::Recv { c: n1.clone(), frame: f.clone() })));
                    let (l3, n3) = (log.clone(), name.to_string());
                    s.on_read = Some(Box::new(move |eof| l3.lock().unwrap().push(Raw::Read { c: n3.clone(), eof })));
                    let (l2, n2) = (log.clone(), name.to_string());
                    s.on_drop = Some(Box::new(move || l2.lock().unwrap().push(Raw::Drop { c: n2.clone() })));
                }
                log.lock().unwrap().push(Raw::Call { op: "register", c: name.to_string(), k: key.to_string() });
                clients.register(cfg, metrics.clone());
                log.lock().unwrap().push(Raw::Ret { ret: "na".into() });
                live.insert(name.to_string(), Live { conn, quiet: false });
            } else if names.is_empty() {
                continue;
            } else if roll < 65 {
                // a client frame
                let talkers: Vec<&String> = names.iter().filter(|n| !live[*n].quiet).collect();
                if talkers.is_empty() {
                    continue;
                }
                let name = talkers[pick(&mut rng, talkers.len())].clone();
                let k = ["A", "B", "A", "B", "A", "B", "A", "B", "B", "Z"][pick(&mut rng, 10)];
                let cls = match rng.next() % 100 {
                    0..=49 => "normal",
                    50..=64 => "batch",
                    65..=74 => "ecn",
                    75..=77 => "maxm1",
                    78..=79 => "bmaxm1",
                    80..=87 => "ping",
                    88..=92 => "pong",
                    _ => "reject",
                };
                let id = next_id;
                next_id += 1;
                let dgkey = if ["ping", "pong", "reject"].contains(&cls) { NAMES.iter().find(|n| n.0 == name).unwrap().1 } else { k };
                let (bytes, dg) = encode_client_frame(cls, id, &keys[dgkey], seed);
                if let Some(dg) = dg {
                    sent.insert(id, (cls.to_string(), dg));
                }
                let entry = live.get_mut(&name).unwrap();
                if cls == "reject" {
                    entry.quiet = true;
                }
                let w = {
                    let mut s = entry.conn.h.0.lock().unwrap();
                    s.inq.push_back(bytes);
                    log.lock().unwrap().push(Raw::Push { c: name.clone(), k: dgkey.to_string(), cls: cls.to_string(), id });
                    s.rx_waker.take()
                };
                if let Some(w) = w {
                    w.wake();
                }
            } else if roll < 72 {
                let name = names[pick(&mut rng, names.len())].clone();
                let entry = live.get_mut(&name).unwrap();
                if entry.quiet {
                    continue;
                }
                entry.quiet = true;
                let w = {
                    let mut s = entry.conn.h.0.lock().unwrap();
                    s.eof = true;
                    log.lock().unwrap().push(Raw::Eof { c: name.clone() });
                    s.rx_waker.take()
                };
                if let Some(w) = w {
                    w.wake();
                }
            } else if roll < 79 {
                let name = names[pick(&mut rng, names.len())].clone();
                let entry = live.get_mut(&name).unwrap();
                entry.quiet = true;
                log.lock().unwrap().push(Raw::Call { op: "disconnect", c: name.clone(), k: "none".into() });
                let r = clients.disconnect(entry.conn.key, Some(entry.conn.id));
                log.lock().unwrap().push(Raw::Ret { ret: r.to_string() });
            } else if roll < 82 {
                let k = ["A", "B", "Z"][pick(&mut rng, 3)];
                for (n, e) in live.iter_mut() {
                    if NAMES.iter().any(|x| x.0 == n && x.1 == k) {
                        e.quiet = true;
                    }
                }
                log.lock().unwrap().push(Raw::Call { op: "disconnectkey", c: "none".into(), k: k.to_string() });
                let r = clients.disconnect(keys[k], None);
                log.lock().unwrap().push(Raw::Ret { ret: r.to_string() });
            } else if roll < 95 {
                let name = names[pick(&mut rng, names.len())].clone();
                let on = roll < 87;
                let w = {
                    let mut s = live[&name].conn.h.0.lock().unwrap();
                    if on && s.granted {
                        continue; // the sink has just promised to take a frame
                    }
                    s.stalled = on;
                    log.lock().unwrap().push(Raw::Stall { c: name.clone(), on });
                    s.tx_waker.take()
                };
                if let Some(w) = w {
                    w.wake();
                }
            } else {
                // let the actors get ahead
                match rng.next() % 3 {
                    0 => tokio::task::yield_now().await,
                    1 => tokio::time::sleep(Duration::from_micros(50 + rng.next() % 500)).await,
                    _ => {
                        for _ in 0..(rng.next() % 2000) {
                            std::hint::spin_loop();
                        }
                    }
                }
            }
        }
        // let everything drain: all clients read again, then wait until no actor moves
        for (name, e) in live.iter() {
            let w = {
                let mut s = e.conn.h.0.lock().unwrap();
                if !s.stalled {
                    continue;
                }
                s.stalled = false;
                log.lock().unwrap().push(Raw::Stall { c: name.clone(), on: false });
                s.tx_waker.take()
            };
            if let Some(w) = w {
                w.wake();
            }
        }
        let mut idle = 0;
        for _ in 0..2000 {
            let before = ACTIVITY.load(Ordering::SeqCst);
            tokio::time::sleep(Duration::from_millis(1)).await;
            if ACTIVITY.load(Ordering::SeqCst) == before {
                idle += 1;
                if idle >= 15 {
                    break;
                }
            } else {
                idle = 0;
            }
        }
        let raw: Vec<Raw> = std::mem::take(&mut *log.lock().unwrap());
        let dec = Decoder { key_names: &key_names, sent: &sent };
        let mut out = vec![ev("reset")];
        for r in raw {
            out.push(match r {
                Raw::Push { c, k, cls, id } => Ev { c, k, cls, id, ..ev("push") },
                Raw::Eof { c } => Ev { c, ..ev("eof") },
                Raw::Stall { c, on } => Ev { c, ..ev(if on { "stall" } else { "unstall" }) },
                Raw::Call { op, c, k } => Ev { c, k, t: op.to_string(), ..ev("call") },
                Raw::Ret { ret } => Ev { ret, ..ev("ret") },
                Raw::Recv { c, frame } => {
                    let w = dec.decode(&frame);
                    Ev { c, t: w.t, src: w.src, id: w.id, cls: w.cls, ..ev("recv") }
                }
                Raw::Read { c, eof } => Ev { c, t: if eof { "eof".into() } else { "frame".into() }, ..ev("read") },
                Raw::Drop { c } => Ev { c, ..ev("drop") },
            });
        }
        out
    }

    pub fn run(args: &Args) {
        let n = args.num("n", 10);
        let len = args.num("len", 60);
        let cap = args.num("cap", 2) as usize;
        let threads = args.num("threads", 4) as usize;
        let version = version_of(args.get("version").unwrap_or("V2"));
        let seed = seed();
        let mut out = NdjsonOut::create(&args.path("out"));
        for run in 0..n {
            let rt = tokio::runtime::Builder::new_multi_thread().worker_threads(threads).enable_time().build().unwrap();
            let events = rt.block_on(one_run(run, seed, len, cap, version));
            rt.shutdown_background();
            for e in &events {
                out.emit(e);
            }
        }
        out.finish();
    }
}
