//! ndjson scenario / observation I/O and panic capture.
use std::io::{BufRead, Write};
use std::path::Path;

use serde::de::DeserializeOwned;
use serde::Serialize;

/// Reads one JSON value per line.
pub fn read_ndjson<T: DeserializeOwned>(path: &Path) -> Vec<T> {
    let f = std::fs::File::open(path).unwrap_or_else(|e| panic!("open {}: {e}", path.display()));
    std::io::BufReader::new(f)
        .lines()
        .map(|l| l.expect("read line"))
        .filter(|l| !l.trim().is_empty())
        .map(|l| serde_json::from_str(&l).unwrap_or_else(|e| panic!("bad json line {l}: {e}")))
        .collect()
}

/// Writes one JSON value per line.
pub struct NdjsonOut {
    w: std::io::BufWriter<std::fs::File>,
}

impl NdjsonOut {
    pub fn create(path: &Path) -> Self {
        let f = std::fs::File::create(path).unwrap_or_else(|e| panic!("create {}: {e}", path.display()));
        Self { w: std::io::BufWriter::new(f) }
    }
    pub fn emit<T: Serialize>(&mut self, v: &T) {
        serde_json::to_writer(&mut self.w, v).expect("write json");
        self.w.write_all(b"\n").expect("write nl");
    }
    pub fn finish(mut self) {
        self.w.flush().expect("flush");
    }
}

/// Runs `f`, turning a panic into `Err(message)`: a panic in code under test is data.
pub fn catch<R>(f: impl FnOnce() -> R) -> Result<R, String> {
    let prev = std::panic::take_hook();
    std::panic::set_hook(Box::new(|_| {}));
    let r = std::panic::catch_unwind(std::panic::AssertUnwindSafe(f));
    std::panic::set_hook(prev);
    r.map_err(|e| {
        if let Some(s) = e.downcast_ref::<&str>() {
            (*s).to_string()
        } else if let Some(s) = e.downcast_ref::<String>() {
            s.clone()
        } else {
            "panic".to_string()
        }
    })
}

/// Parses `--key value` style arguments after the subcommand.
pub struct Args {
    pub sub: String,
    kv: std::collections::HashMap<String, String>,
}

impl Args {
    pub fn parse() -> Self {
        let mut it = std::env::args().skip(1);
        let sub = it.next().unwrap_or_default();
        let mut kv = std::collections::HashMap::new();
        while let Some(k) = it.next() {
            let k = k.trim_start_matches("--").to_string();
            let v = it.next().unwrap_or_default();
            kv.insert(k, v);
        }
        Self { sub, kv }
    }
    pub fn get(&self, k: &str) -> Option<&str> {
        self.kv.get(k).map(|s| s.as_str())
    }
    pub fn path(&self, k: &str) -> std::path::PathBuf {
        std::path::PathBuf::from(self.get(k).unwrap_or_else(|| panic!("missing --{k}")))
    }
    pub fn num(&self, k: &str, default: u64) -> u64 {
        self.get(k).map(|v| v.parse().expect("number")).unwrap_or(default)
    }
}
