SPECIFICATION TSpec
INVARIANT AckedAtLeastInitial
POSTCONDITION Accepted
CHECK_DEADLOCK FALSE
CONSTANTS
  Resolvers = {"r1", "r2", "r3", "rfa", "rfb"}
  Keys = {"a", "b"}
  RKey <- T_RKey
  PKey <- T_PKey
  Publishers = {"p1", "p2"}
  VerOf <- T_VerOf
  TsOf <- T_TsOf
  Design = "aswritten"
  WarmCache = FALSE
