--------------------------- MODULE MC_DnsServer ---------------------------
(* Packet universes and restricted next-state relations for the C36 / C37 configurations
   of DnsServer (cfg files cannot define sets of records). *)
EXTENDS DnsServer
CONSTANTS Tss, Pls, Zls, RecTypes, MaxRecs

\* --- C37: honest packets with one TXT record; its value is the payload rank ---------------
P37 == {[signer |-> k, sigOk |-> TRUE, ts |-> t, pl |-> pl,
         recs |-> {[zl |-> k, rel |-> "_iroh", ty |-> "TXT", v |-> pl]}] : k \in Keys, t \in Tss, pl \in Pls}
Noop37   == \E p \in Packets : PutNoop(p.signer, p)
Update37 == \E p \in Packets : PutUpdate(p.signer, p)
Query37  == \E k \in Keys : Query(k)
Next37 == Noop37 \/ Update37 \/ Query37
Spec37 == Init /\ [][Next37]_vars
Gen37 == Init /\ [][Noop37 \/ Update37]_vars           \* generator: publishes only

\* --- C36: every single record / every pair of records, right or wrong signer, good or bad signature
RecU == {[zl |-> z, rel |-> r, ty |-> t, v |-> 1] : z \in Zls, r \in Rels, t \in RecTypes}
\* pairs that differ only in the zone label, or only in the type, are the interesting ones
Pairs == {{a, [b EXCEPT !.v = 2]} : <<a, b>> \in {x \in RecU \X RecU :
            x[1] # x[2] /\ x[1].rel = x[2].rel /\ (x[1].ty = x[2].ty \/ x[1].zl = x[2].zl)}}
RecSets == IF MaxRecs = 0 THEN {{}}
           ELSE IF MaxRecs = 1 THEN {{}} \cup {{a} : a \in RecU}
           ELSE {{}} \cup {{a} : a \in RecU} \cup Pairs
P36 == {[signer |-> s, sigOk |-> ok, ts |-> t, pl |-> 1, recs |-> S] :
          s \in Keys, ok \in BOOLEAN, t \in Tss, S \in RecSets}
\* thematic universe for multi-step behaviours
Th(k, o) == { {[zl |-> k, rel |-> "_iroh", ty |-> "TXT", v |-> 1]},
              {[zl |-> k, rel |-> "_iroh", ty |-> "TXT", v |-> 2]},
              {[zl |-> k, rel |-> "@", ty |-> "A", v |-> 1]},
              {[zl |-> k, rel |-> "_iroh", ty |-> "TXT", v |-> 1], [zl |-> o, rel |-> "_iroh", ty |-> "TXT", v |-> 2]},
              {[zl |-> k, rel |-> "_iroh", ty |-> "SOA", v |-> 1], [zl |-> k, rel |-> "_iroh", ty |-> "TXT", v |-> 2]},
              {[zl |-> "other", rel |-> "_iroh", ty |-> "TXT", v |-> 1]},
              {[zl |-> o, rel |-> "@", ty |-> "A", v |-> 2]},
              {},
              {[zl |-> k, rel |-> "a.b", ty |-> "CNAME", v |-> 1], [zl |-> k, rel |-> "a.b", ty |-> "TXT", v |-> 2]} }
Other(k) == CHOOSE o \in Keys : o # k
P36T == {[signer |-> s, sigOk |-> ok, ts |-> t, pl |-> 1, recs |-> S] :
           <<s, S>> \in {x \in Keys \X UNION {Th(k, Other(k)) : k \in Keys} : x[2] \in Th(x[1], Other(x[1]))},
           ok \in BOOLEAN, t \in Tss}
Rejected36 == \E k \in Keys, p \in Packets : PutRejected(k, p)
Noop36     == \E k \in Keys, p \in Packets : PutNoop(k, p)
Update36   == \E k \in Keys, p \in Packets : PutUpdate(k, p)
Query36    == \E k \in Keys : Query(k)
\* the adversary's replayed-signature put: any thematic record set, payload bytes below / above the stored ones
Replay36   == \E k \in Keys : \E pl \in {0, 2}, S \in Th(k, Other(k)) : PutReplaySig(k, pl, S)
Next36 == Rejected36 \/ Noop36 \/ Update36 \/ Replay36 \/ Query36
Spec36 == Init /\ [][Next36]_vars
Gen36 == Init /\ [][Rejected36 \/ Noop36 \/ Update36 \/ Replay36]_vars
\* honest publishes followed by replayed-signature puts (exhaustive, MaxSteps = 2)
GenReplay36 == Init /\ [][Update36 \/ Replay36]_vars
GenTable36 == Init /\ [][Rejected36 \/ Update36]_vars   \* single puts on the empty server
=============================================================================
