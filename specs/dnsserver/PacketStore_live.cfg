SPECIFICATION FairSpec
INVARIANT IndexConsistent PublishedOnly CommittedSurvive CommittedOnDisk
PROPERTY EvictOnlyExpired EventuallyEvicted
CHECK_DEADLOCK FALSE
