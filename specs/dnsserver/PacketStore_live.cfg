SPECIFICATION FairSpec
INVARIANT IndexConsistent PublishedOnly CommittedSurvive
PROPERTY EvictOnlyExpired EventuallyEvicted
CHECK_DEADLOCK FALSE
