SPECIFICATION SpecW
INVARIANT IndexConsistent EmitW
CHECK_DEADLOCK FALSE
CONSTANTS
  Keys = {"k1", "k2"}
  Tss = {1, 2}
  Pls = {1, 2}
  Timeouts = FALSE
  Crashes = FALSE
  Evict = FALSE
  Eviction = 100
  MaxNow = 0
  Now0 = 0
  KeepRunning = FALSE
  DurabilityByOpener = FALSE
