---------------------------- MODULE MC_DnsCache ----------------------------
(* Scenarios for DnsCache (cfg files cannot define functions / sequences). *)
EXTENDS DnsCache
CONSTANT Scenario
\* which version each publisher publishes
\* keys: every lookup is for key "a"; in scenario "ab" the second publisher publishes for key "b"
MC_RKey == [r \in Resolvers |-> "a"]
MC_PKey == [p \in Publishers |-> IF Scenario = "ab" /\ p = "p2" THEN "b" ELSE "a"]
MC_VerOf == CASE Scenario \in {"p1", "p1eq", "ab"} -> [p \in Publishers |-> 2]
              [] Scenario \in {"p2", "p2eq", "p2old"} -> [p \in Publishers |-> IF p = "p1" THEN 2 ELSE 3]
\* timestamps of the versions: "eq" scenarios publish a packet with the timestamp of its
\* predecessor and greater payload bytes
MC_TsOf == CASE Scenario \in {"p1", "ab"} -> <<1, 2>>
             [] Scenario = "p1eq" -> <<1, 1>>
             [] Scenario = "p2" -> <<1, 2, 3>>
             [] Scenario = "p2eq" -> <<1, 2, 2>>
             [] Scenario = "p2old" -> <<1, 1, 2>>
=============================================================================
