------------------------------ MODULE DnsCache ------------------------------
(* C38 — ZoneStore::resolve racing with ZoneStore::insert (/repo/iroh-dns-server/src/store.rs).
   Every lookup process r works on key RKey[r], every publish process p on key PKey[p]; store, cache and
   acknowledgements are per key, the cache lock and the invalidation counter are shared by all keys.

   Versions 1..Len(TsOf) are the packets of that key in recency order (the order of
   SignedPacket::more_recent_than: timestamp, then payload bytes); TsOf[v] is the timestamp of
   version v (two versions may share one).  Version 1 is stored before the race starts.

   One action per critical section of the code:
     resolve (process r)
       RCheck(r)   `cache.lock().await; cache.resolve(..)`            hit -> answer, miss -> go on
       RGet(r)     `self.store.get(pubkey).await`                     (store actor, Message::Get)
       RFill(r)    `cache.lock().await; cache.insert_and_resolve(..)` ZoneCache::insert keeps the
                   cached zone only if its timestamp is greater (timestamps, not payloads)
     insert (process p, publishing version VerOf[p])
       PUpsert(p)  `self.store.upsert(packet).await`   noop (answers false) if the stored one is more recent
       PInval(p)   `self.cache.lock().await.remove(&pubkey)`
       PAck(p)     `Ok(true)` reaches the caller: the publish is acknowledged as an update
   The pause points "dnssrv.resolve.miss", "dnssrv.resolve.got", "dnssrv.insert.upserted",
   "dnssrv.insert.invalidated" sit exactly between these actions.

   Design selects how the two operations are made atomic with respect to each other:
     "aswritten"  the pinned code: the cache lock is taken separately in RCheck, RFill, PInval
     "lock"       the cache lock is held from a miss in RCheck to the end of RFill, and from
                  before PUpsert to the end of PInval
     "gen"        ZoneCache counts invalidations; RCheck remembers the count, RFill fills the
                  cache only if no invalidation happened in between (otherwise it answers
                  from the packet it fetched and leaves the cache alone)      [the repair in /repo]
     "genlast"    deviating refinement of "gen": the cache also remembers the key of the LAST
                  invalidation, and RFill fills when the count is unchanged OR that key is another
                  key - wrong as soon as publishes for two keys interleave (refuted by TLC):
                  RGet(a)=old; publish(a) acked; publish(b) acked; RFill(a) caches old
   NoStaleAnswer is C38.  It holds for "lock" and "gen"; TLC refutes it for "aswritten":
     RCheck(r1) miss; RGet(r1) old; PUpsert new; PInval; PAck; RFill(r1) caches old; RCheck(r2) = old. *)
EXTENDS Naturals, Sequences, FiniteSets, TLC, Json
CONSTANTS Resolvers, Publishers, Keys,
          RKey,       \* [Resolvers -> key]
          PKey,       \* [Publishers -> key]
          VerOf,      \* [Publishers -> version]
          TsOf,       \* sequence: version -> timestamp
          Design, WarmCache
VARIABLES store,      \* [Keys -> version in the persistent store]
          cache,      \* [Keys -> version in the zone cache, 0 = not cached]
          gen,        \* number of invalidations so far            (Design = "gen", "genlast")
          lastInval,  \* key of the most recent invalidation       (Design = "genlast")
          lock,       \* holder of the cache lock, "free" if none  (Design = "lock")
          rpc, rgot, rseen, rstart, rans,
          ppc, pres, acked,
          word        \* the interleaving so far: sequence of [p |-> process, a |-> action]
vars == <<store, cache, gen, lastInval, lock, rpc, rgot, rseen, rstart, rans, ppc, pres, acked, word>>

Max(a, b) == IF a > b THEN a ELSE b
LockOk(w) == Design # "lock" \/ lock \in {"free", w}
Take(w) == IF Design = "lock" THEN w ELSE lock
\* ZoneCache::insert: `old.is_newer_than(packet)` compares timestamps only
Filled(c, got) == IF c # 0 /\ TsOf[c] > TsOf[got] THEN c ELSE got
Step(p, a) == word' = Append(word, [p |-> p, a |-> a])

FillAllowed(r) == CASE Design = "gen" -> gen = rseen[r]
                     [] Design = "genlast" -> gen = rseen[r] \/ lastInval # RKey[r]
                     [] OTHER -> TRUE

Init == /\ store = [k \in Keys |-> 1] /\ cache = [k \in Keys |-> IF WarmCache THEN 1 ELSE 0] /\ gen = 0
        /\ lastInval = "none" /\ lock = "free"
        /\ rpc = [r \in Resolvers |-> "idle"] /\ rgot = [r \in Resolvers |-> 0]
        /\ rseen = [r \in Resolvers |-> 0] /\ rstart = [r \in Resolvers |-> 0]
        /\ rans = [r \in Resolvers |-> 0]
        /\ ppc = [p \in Publishers |-> "idle"] /\ pres = [p \in Publishers |-> FALSE]
        /\ acked = [k \in Keys |-> 1] /\ word = <<>>

RCheck(r) == /\ rpc[r] = "idle" /\ LockOk(r)
             /\ rstart' = [rstart EXCEPT ![r] = acked[RKey[r]]]   \* newest acknowledged publish of its key when the lookup starts
             /\ IF cache[RKey[r]] # 0
                  THEN rans' = [rans EXCEPT ![r] = cache[RKey[r]]] /\ rpc' = [rpc EXCEPT ![r] = "done"] /\ UNCHANGED <<lock, rseen>>
                  ELSE rpc' = [rpc EXCEPT ![r] = "miss"] /\ rseen' = [rseen EXCEPT ![r] = gen]
                       /\ lock' = Take(r) /\ UNCHANGED rans
             /\ UNCHANGED <<store, cache, gen, lastInval, rgot, ppc, pres, acked>> /\ Step(r, "RCheck")
RGet(r) == /\ rpc[r] = "miss"
           /\ rgot' = [rgot EXCEPT ![r] = store[RKey[r]]] /\ rpc' = [rpc EXCEPT ![r] = "got"]
           /\ UNCHANGED <<store, cache, gen, lastInval, lock, rseen, rstart, rans, ppc, pres, acked>> /\ Step(r, "RGet")
RFill(r) == /\ rpc[r] = "got" /\ LockOk(r)
            /\ IF ~FillAllowed(r)
                 THEN UNCHANGED cache /\ rans' = [rans EXCEPT ![r] = rgot[r]]
                 ELSE cache' = [cache EXCEPT ![RKey[r]] = Filled(@, rgot[r])] /\ rans' = [rans EXCEPT ![r] = cache'[RKey[r]]]
            /\ rpc' = [rpc EXCEPT ![r] = "done"] /\ lock' = "free"
            /\ UNCHANGED <<store, gen, lastInval, rgot, rseen, rstart, ppc, pres, acked>> /\ Step(r, "RFill")

PUpsert(p) == /\ ppc[p] = "idle" /\ LockOk(p)
              /\ IF store[PKey[p]] > VerOf[p]                 \* existing.more_recent_than(packet)
                   THEN ppc' = [ppc EXCEPT ![p] = "done"] /\ UNCHANGED <<store, lock>>
                   ELSE store' = [store EXCEPT ![PKey[p]] = VerOf[p]] /\ ppc' = [ppc EXCEPT ![p] = "upserted"] /\ lock' = Take(p)
              /\ UNCHANGED <<cache, gen, lastInval, rpc, rgot, rseen, rstart, rans, pres, acked>> /\ Step(p, "PUpsert")
PInval(p) == /\ ppc[p] = "upserted" /\ LockOk(p)
             /\ cache' = [cache EXCEPT ![PKey[p]] = 0] /\ gen' = gen + 1 /\ lastInval' = PKey[p] /\ lock' = "free"
             /\ ppc' = [ppc EXCEPT ![p] = "invalidated"]
             /\ UNCHANGED <<store, rpc, rgot, rseen, rstart, rans, pres, acked>> /\ Step(p, "PInval")
PAck(p) == /\ ppc[p] = "invalidated"
           /\ acked' = [acked EXCEPT ![PKey[p]] = Max(@, VerOf[p])] /\ pres' = [pres EXCEPT ![p] = TRUE] /\ ppc' = [ppc EXCEPT ![p] = "done"]
           /\ UNCHANGED <<store, cache, gen, lastInval, lock, rpc, rgot, rseen, rstart, rans>> /\ Step(p, "PAck")

Next == \/ \E r \in Resolvers : RCheck(r)
        \/ \E r \in Resolvers : RGet(r)
        \/ \E r \in Resolvers : RFill(r)
        \/ \E p \in Publishers : PUpsert(p)
        \/ \E p \in Publishers : PInval(p)
        \/ \E p \in Publishers : PAck(p)
Spec == Init /\ [][Next]_vars

---------------------------------------------------------------------------
(* C38: a lookup that started after a publish was acknowledged as an update never answers with
   anything older than that publish *)
Older(answer, demanded) == answer < demanded
Stale(r) == rpc[r] = "done" /\ Older(rans[r], rstart[r])
NoStaleAnswer == \A r \in Resolvers : ~Stale(r)
\* whenever nothing is in flight the cache holds nothing but the stored version
QuiescentCoherent == (\A r \in Resolvers : rpc[r] \in {"idle", "done"}) /\ (\A p \in Publishers : ppc[p] \in {"idle", "done"})
                        => \A k \in Keys : cache[k] \in {0, store[k]}
\* the store only moves forward, and an acknowledged version is never newer than the stored one
StoreMonotone == [][\A k \in Keys : store'[k] >= store[k]]_vars
AckedIsStored == \A k \in Keys : acked[k] <= store[k]

\* exhaustive configurations identify states that differ only in the path taken
MCView == <<store, cache, gen, lastInval, lock, rpc, rgot, rseen, rstart, rans, ppc, pres, acked>>

AllDone == (\A r \in Resolvers : rpc[r] = "done") /\ (\A p \in Publishers : ppc[p] = "done")
\* generator: every complete interleaving with the answers / flags the model predicts
Emit == AllDone => PrintT(<<"REPLAY", ToJson([word |-> word, rans |-> rans, rstart |-> rstart, pres |-> pres,
                                               stale |-> ~NoStaleAnswer, warm |-> WarmCache, design |-> Design,
                                               verof |-> VerOf, tsof |-> TsOf, rkey |-> RKey, pkey |-> PKey])>>)
=============================================================================
