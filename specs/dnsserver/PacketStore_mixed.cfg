SPECIFICATION SpecM
INVARIANT IndexConsistent CommittedSurvive CommittedOnDisk EmitW
PROPERTY CrashKeepsCommit
CHECK_DEADLOCK FALSE
CONSTANTS
  Keys = {"k1", "k2"}
  Tss = {1, 2, 3}
  Pls = {1, 2}
  Timeouts = FALSE
  Crashes = FALSE
  Evict = TRUE
  Eviction = 2
  MaxNow = 4
  Now0 = 4
  KeepRunning = FALSE
  DurabilityByOpener = FALSE
