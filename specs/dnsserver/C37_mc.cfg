SPECIFICATION Spec37
INVARIANT StoredIsNewest CacheCoherent StoreSignedByOwner AnswersOnlyOwnSigned
PROPERTY FlagRule PutIsolation
CHECK_DEADLOCK FALSE
CONSTANTS
  Packets <- P37
  Rels = {"_iroh"}
  Types = {"TXT"}
  Zls = {}
  RecTypes = {}
  MaxRecs = 0
  WithQuery = TRUE
  DistinctTs = FALSE
