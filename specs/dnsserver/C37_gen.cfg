SPECIFICATION Gen37
INVARIANT StoredIsNewest Emit
PROPERTY FlagRule
CHECK_DEADLOCK FALSE
CONSTANTS
  Packets <- P37
  Rels = {"_iroh"}
  Types = {"TXT"}
  Zls = {}
  RecTypes = {}
  MaxRecs = 0
  WithQuery = FALSE
  DistinctTs = FALSE
