SPECIFICATION Spec
INVARIANT Emit
CHECK_DEADLOCK FALSE
CONSTANTS
  VerOf <- MC_VerOf
  TsOf <- MC_TsOf
  RKey <- MC_RKey
  PKey <- MC_PKey
