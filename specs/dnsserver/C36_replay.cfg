SPECIFICATION GenReplay36
INVARIANT StoreSignedByOwner AnswersOnlyOwnSigned Emit
PROPERTY PutIsolation RejectedChangesNothing
CHECK_DEADLOCK FALSE
CONSTANTS
  Packets <- P36T
  Keys = {"k1", "k2"}
  Rels = {"@", "_iroh", "a.b"}
  Types = {"TXT", "A", "AAAA", "SOA", "NS", "CNAME"}
  Zls = {}
  RecTypes = {}
  MaxRecs = 0
  Tss = {1}
  Pls = {1}
  MaxSteps = 2
  WithQuery = FALSE
  DistinctTs = TRUE
