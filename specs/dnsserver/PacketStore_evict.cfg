SPECIFICATION SpecE
INVARIANT IndexConsistent PublishedOnly QuiescentExact EmitE
PROPERTY EvictOnlyExpired
VIEW ViewE
CHECK_DEADLOCK FALSE
CONSTANTS
  Keys = {"k1", "k2"}
  Tss = {1, 2, 3, 4}
  Pls = {1}
  B = 2
  Timeouts = TRUE
  Crashes = FALSE
  Evict = TRUE
  Eviction = 2
  MaxNow = 5
  Now0 = 5
  Workloads = {0}
  KeepRunning = TRUE
  DurabilityByOpener = FALSE
