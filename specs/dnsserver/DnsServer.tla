----------------------------- MODULE DnsServer -----------------------------
(* C36 / C37 — the pkarr relay + DNS front of iroh-dns-server, sequential view.

   Code modelled (all under /repo/iroh-dns-server/src):
     Put(k, p)    http/pkarr.rs `put`: PublicKey::from_z32(path key),
                  SignedPacket::from_relay_payload(path key, body) (signature is verified
                  against the key in the path), then ZoneStore::insert (store.rs) =
                  SignedPacketStore::upsert (store/signed_packets.rs, Message::Upsert:
                  `existing.more_recent_than(&packet)` -> noop, otherwise replace) followed,
                  on an update, by ZoneCache::remove.
     PutReplaySig(k, pl, recs)   an adversary without k's secret: fetches the packet stored for k
                  (GET /pkarr/<k>), keeps its signature and timestamp and PUTs them over another DNS
                  payload (byte-wise smaller, pl = 0, or greater, pl = 2, than the stored one).  The
                  signature covers (timestamp, payload), so it cannot verify: rejected, nothing changes.
                  (Were it accepted, the equal timestamp would let the greater payload replace the
                  stored packet: K's zone would serve records K never signed.)
     Query(k)     dns/node_zone_handler.rs `lookup` -> parse_name_as_pkarr_with_origin ->
                  ZoneStore::resolve: cache hit, or store.get + ZoneCache::insert.
                  The records of a zone are what util.rs
                  `signed_packet_to_hickory_records_without_origin` keeps: type not SOA / NS
                  and last label of the record name = z32(signer key).
     Stored(k)    http/pkarr.rs `get` (ZoneStore::get_signed_packet).
   `Answer(k, rel, ty)` and `Stored(k)` are the observation functions: the harness
   (harness/src/bin/vh_dnssrv.rs, c36 / c37) evaluates them on the real server / store after
   every step of every generated behaviour and compares with `hist`.

   A packet is  [signer, sigOk, ts, pl, recs]:
     signer  key whose secret signed it          sigOk  FALSE = signature bytes tampered with
     ts      timestamp                           pl     rank of the payload bytes (tie-break)
     recs    set of records [zl, rel, ty, v]:  zl = zone label of the record name (a key, or
             "other": last label is not a key, or "none": the root name), rel = name inside
             the zone, ty = record type, v = value id.                                      *)
EXTENDS Naturals, Sequences, FiniteSets, TLC, Json
CONSTANTS Keys,       \* endpoint keys, strings
          Packets,    \* packet universe (set of packet records; defined in the MC_ module)
          Rels,       \* names inside a zone that are queried
          Types,      \* record types that are queried
          MaxSteps,
          WithQuery,  \* TRUE: Query is an action of its own (cache modelled); FALSE: generator
          DistinctTs  \* TRUE: verified packets of one key carry distinct timestamps (ties are C37's business)
VARIABLES store,      \* [Keys -> packet | NoPacket]   the persistent table
          cache,      \* [Keys -> packet | NoPacket]   decoded zones
          accepted,   \* ghost: [Keys -> set of packets that passed verification under that key]
          last,       \* ghost: the last step [k, p, res]
          hist        \* behaviour with the expected observations (generator)
vars == <<store, cache, accepted, last, hist>>

NoPacket == [signer |-> "none", sigOk |-> FALSE, ts |-> 0, pl |-> 0, recs |-> {}]
Unserved == {"SOA", "NS"}

\* iroh_dns::pkarr::SignedPacket::more_recent_than: lexicographic (timestamp, payload bytes)
MoreRecent(a, b) == a.ts > b.ts \/ (a.ts = b.ts /\ a.pl > b.pl)
\* SignedPacket::from_relay_payload(path key, body)
Valid(k, p) == p.sigOk /\ p.signer = k

Fresh(k, p) == DistinctTs => \A q \in accepted[k] : q.ts # p.ts

Serving(k) == IF cache[k] # NoPacket THEN cache[k] ELSE store[k]
ZoneRecs(k, p) == {r \in p.recs : r.zl = k /\ r.ty \notin Unserved}
Answer(k, rel, ty) == {r.v : r \in {x \in ZoneRecs(k, Serving(k)) : x.rel = rel /\ x.ty = ty}}
Stored(k) == [ts |-> store[k].ts, pl |-> store[k].pl]

\* flattened observation table: every non-empty answer
Table == {[k |-> k, rel |-> rel, ty |-> ty, vs |-> Answer(k, rel, ty)] :
            <<k, rel, ty>> \in {x \in Keys \X Rels \X Types : Answer(x[1], x[2], x[3]) # {}}}

Log(k, p, res) ==
  /\ last' = [k |-> k, p |-> p, res |-> res]
  /\ hist' = Append(hist, [k |-> k, signer |-> p.signer, sigOk |-> p.sigOk, ts |-> p.ts, pl |-> p.pl,
                           recs |-> p.recs, res |-> res,
                           stored |-> [x \in Keys |-> [ts |-> store'[x].ts, pl |-> store'[x].pl]],
                           table |-> {[k |-> t.k, rel |-> t.rel, ty |-> t.ty, vs |-> t.vs] : t \in Table'}])

Init == /\ store = [k \in Keys |-> NoPacket] /\ cache = [k \in Keys |-> NoPacket]
        /\ accepted = [k \in Keys |-> {}]
        /\ last = [k |-> "none", p |-> NoPacket, res |-> "none"] /\ hist = <<>>

\* PUT /pkarr/<k> with a body whose signature does not verify for k: 400, nothing changes
PutRejected(k, p) == /\ Len(hist) < MaxSteps /\ ~Valid(k, p)
                     /\ UNCHANGED <<store, cache, accepted>> /\ Log(k, p, "rejected")
\* replayed signature + timestamp of the stored packet over a different payload (signer "replay": nobody's key)
ReplayOf(k, pl, recs) == [signer |-> "replay", sigOk |-> FALSE, ts |-> store[k].ts, pl |-> pl, recs |-> recs]
PutReplaySig(k, pl, recs) == /\ store[k] # NoPacket /\ pl # store[k].pl
                             /\ PutRejected(k, ReplayOf(k, pl, recs))
\* verified, but the stored packet is more recent: noop (Upsert answers false)
PutNoop(k, p) == /\ Len(hist) < MaxSteps /\ Valid(k, p) /\ Fresh(k, p)
                 /\ store[k] # NoPacket /\ MoreRecent(store[k], p)
                 /\ accepted' = [accepted EXCEPT ![k] = @ \cup {p}]
                 /\ UNCHANGED <<store, cache>> /\ Log(k, p, "noop")
\* verified and not older than the stored one: replace, invalidate the cached zone (Upsert answers true)
PutUpdate(k, p) == /\ Len(hist) < MaxSteps /\ Valid(k, p) /\ Fresh(k, p)
                   /\ (store[k] = NoPacket \/ ~MoreRecent(store[k], p))
                   /\ accepted' = [accepted EXCEPT ![k] = @ \cup {p}]
                   /\ store' = [store EXCEPT ![k] = p]
                   /\ cache' = [cache EXCEPT ![k] = NoPacket]
                   /\ Log(k, p, "updated")
\* a DNS lookup under k: a hit leaves the cache alone, a miss fills it from the store
Query(k) == /\ WithQuery /\ store[k] # NoPacket
            /\ cache' = [cache EXCEPT ![k] = IF @ # NoPacket THEN @ ELSE store[k]]
            /\ UNCHANGED <<store, accepted, last, hist>>

Next == \/ \E k \in Keys, p \in Packets : PutRejected(k, p)
        \/ \E k \in Keys, p \in Packets : PutNoop(k, p)
        \/ \E k \in Keys, p \in Packets : PutUpdate(k, p)
        \/ \E k \in Keys : Query(k)
Spec == Init /\ [][Next]_vars

---------------------------------------------------------------------------
(* C37 — the newest packet per key *)
Newest(S) == CHOOSE m \in S : \A q \in S : ~MoreRecent(q, m)
\* stored = the most recent accepted packet by (timestamp, payload bytes)
StoredIsNewest == \A k \in Keys : IF accepted[k] = {} THEN store[k] = NoPacket
                                  ELSE store[k] = Newest(accepted[k])
\* a publish reports an update exactly when its packet became the stored packet
FlagRule == [][ last'.res \in {"updated", "noop"} /\ hist' # hist
                  => ((last'.res = "updated") <=> (store'[last'.k] = last'.p)) ]_vars
\* the sequential cache never serves anything but the stored packet
CacheCoherent == \A k \in Keys : cache[k] \in {NoPacket, store[k]}

(* C36 — a zone is served only from packets signed by its key *)
\* whatever is stored (and hence served) under k passed verification under k
StoreSignedByOwner == \A k \in Keys : store[k] # NoPacket => Valid(k, store[k]) /\ store[k] \in accepted[k]
\* every answer record was published in a packet signed by k, under k's zone, and is neither SOA nor NS
AnswersOnlyOwnSigned ==
  \A k \in Keys, rel \in Rels, ty \in Types : \A v \in Answer(k, rel, ty) :
     /\ ty \notin Unserved
     /\ \E p \in accepted[k] : Valid(k, p) /\ [zl |-> k, rel |-> rel, ty |-> ty, v |-> v] \in p.recs
\* publishing under k never changes what is stored / answered for another key
PutIsolation == [][ \A x \in Keys : x # last'.k =>
                      /\ store'[x] = store[x] /\ cache'[x] = cache[x]
                      /\ \A rel \in Rels, ty \in Types : Answer(x, rel, ty)' = Answer(x, rel, ty) ]_<<store, hist>>
\* a rejected publish changes nothing
RejectedChangesNothing == [][ last'.res = "rejected" /\ hist' # hist => UNCHANGED <<store, cache, accepted>> ]_vars

\* generator: one REPLAY line per behaviour of full length
Emit == Len(hist) = MaxSteps => PrintT(<<"REPLAY", ToJson([steps |-> hist])>>)
=============================================================================
