--------------------------- MODULE Trace_DnsCache ---------------------------
(* Property monitor for C38 over the client-visible events of real executions
   (harness/src/bin/vh_dnssrv.rs, c38): only `acked`, `rstart`, `rans`, `rpc` of DnsCache are
   driven, from the logged call starts / answers / acknowledgements; Older(answer, demanded), the per-lookup test of
   NoStaleAnswer (the C38 invariant of DnsCache), is evaluated after every answer.  Many executions are concatenated,
   separated by `reset` events; the verdict of each answer is printed (a violated invariant
   would stop TLC at the first one).

     rstart r k      a lookup for key k is about to be started -> rstart[r] = newest acknowledged version of k
     rdone  r ans    the lookup returned version ans   -> rans[r] = ans, judged
     pstart p v      a publish of version v is about to be started
     pdone  p k v res  the publish for key k returned res -> res = TRUE acknowledges v
   Logging a start early and a completion late only weakens what is demanded, so the order in
   which the (single-threaded) driver logs is sound. *)
EXTENDS DnsCache, IOUtils, TLCExt
Rec == ndJsonDeserialize(IOEnv.TRACE)
VARIABLES l, cs
tvars == <<vars, l, cs>>
T_VerOf == [p \in Publishers |-> 0]
T_RKey == [r \in Resolvers |-> "a"]
T_PKey == [p \in Publishers |-> "a"]
T_TsOf == <<1>>
TInit == Init /\ l = 1 /\ cs = 0
IsEvent(e) == l <= Len(Rec) /\ Rec[l].ev = e /\ l' = l + 1
Others == <<store, cache, gen, lastInval, lock, rgot, rseen, ppc, pres, word>>

TReset == /\ IsEvent("reset") /\ cs' = Rec[l].case
          /\ rpc' = [r \in Resolvers |-> "idle"] /\ rstart' = [r \in Resolvers |-> 0]
          /\ rans' = [r \in Resolvers |-> 0] /\ acked' = [k \in Keys |-> 1] /\ UNCHANGED Others
TRStart == /\ IsEvent("rstart") /\ Rec[l].r \in Resolvers /\ Rec[l].k \in Keys
           /\ rstart' = [rstart EXCEPT ![Rec[l].r] = acked[Rec[l].k]] /\ rpc' = [rpc EXCEPT ![Rec[l].r] = "miss"]
           /\ UNCHANGED <<rans, acked, cs>> /\ UNCHANGED Others
TRDone == /\ IsEvent("rdone") /\ Rec[l].r \in Resolvers
          /\ rans' = [rans EXCEPT ![Rec[l].r] = Rec[l].ans] /\ rpc' = [rpc EXCEPT ![Rec[l].r] = "done"]
          /\ UNCHANGED <<rstart, acked, cs>> /\ UNCHANGED Others
          /\ PrintT(<<"REPLAY", ToJson([case |-> cs, r |-> Rec[l].r, ans |-> Rec[l].ans,
                                        demanded |-> rstart[Rec[l].r], stale |-> Older(Rec[l].ans, rstart[Rec[l].r])])>>)
TPStart == /\ IsEvent("pstart") /\ UNCHANGED <<rpc, rstart, rans, acked, cs>> /\ UNCHANGED Others
TPDone == /\ IsEvent("pdone") /\ Rec[l].k \in Keys
          /\ acked' = IF Rec[l].res THEN [acked EXCEPT ![Rec[l].k] = Max(@, Rec[l].v)] ELSE acked
          /\ UNCHANGED <<rpc, rstart, rans, cs>> /\ UNCHANGED Others
AckedAtLeastInitial == \A k \in Keys : acked[k] >= 1
TNext == TReset \/ TRStart \/ TRDone \/ TPStart \/ TPDone
TSpec == TInit /\ [][TNext]_tvars
Accepted == LET d == TLCGet("stats").diameter - 1 IN
            IF d = Len(Rec) THEN TRUE
            ELSE Print(<<"TRACE-REJECTED at event", d + 1, IF d + 1 <= Len(Rec) THEN Rec[d+1] ELSE "eof">>, FALSE)
=============================================================================
