---------------------------- MODULE PacketStore ----------------------------
(* C39 — the persistent packet store of iroh-dns-server
   (/repo/iroh-dns-server/src/store/signed_packets.rs): an actor that owns a redb database with
   the table `signed-packets` (key -> packet) and the multimap `update-time` (timestamp -> keys),
   batches its messages into write transactions, and an eviction task.

   Actions and the code they stand for:
     Send(m) / Recv     a sequential client (ZoneStore::insert / get_signed_packet): message into the
                        actor's channel, reply out of the oneshot
     Handle             Actor::run0 + handle_message for the head of the channel.  The first message
                        of a batch opens a write transaction (`work` := `durable`); Upsert keeps the
                        stored packet if it is more recent, otherwise replaces packet and index entry;
                        Get answers from the open transaction; CheckExpired removes packet + index
                        entry if the packet is older than the cut-off *now*, else only the index entry
     CommitFull         `for _ in 0..max_batch_size` exhausted: `transaction.commit()`.  A commit is
                        durable (fsynced: `disk` := `work`); a non-durable commit (redb
                        Durability::None) is visible to readers but a crash falls back to `disk`.
                        The pinned code commits every batch durably whatever it contains.
                        DurabilityByOpener = TRUE is the deviating design "a batch opened by an
                        eviction check needs no fsync": the durability is chosen by the batch's
                        FIRST message, although client upserts may fall into the same batch -
                        TLC refutes CommittedOnDisk / CrashKeepsCommit for it
     CommitTimeout      `max_batch_time` elapsed: commit            (only if Timeouts)
     Close              SignedPacketStore dropped: cancel -> the open batch is committed
     Crash / Reopen     the process dies: the open transaction and every non-durable commit are lost,
                        the database file keeps the last durable commit; SignedPacketStore::open on it
     EvictScan          evict_task_inner: read snapshot (= last commit) of the index, one
                        CheckExpired message per entry older than the cut-off     (only if Evict)
     Tick               time passes                                               (only if Evict)
   A client message can also be "snap": a read snapshot of the committed tables (handled outside
   any transaction when none is open), the client's way to see that a batch has committed.
   `points` records, after every step, (messages sent, replies received, content on disk): what a
   crash at that moment leaves behind.  The harness (vh_dnssrv c39) runs the same workload on the
   real store over a recording redb StorageBackend, cuts the backend's operation log after every
   operation, reopens each image and demands that the content is one of the durable states the
   model allows for the client position of the cut. *)
EXTENDS Naturals, Sequences, FiniteSets, TLC, Json
CONSTANTS Keys, Tss, Pls,
          B,          \* max_batch_size
          MaxMsgs,    \* client messages per behaviour
          Timeouts,   \* BOOLEAN: max_batch_time can end a batch
          Crashes,    \* BOOLEAN
          Evict,      \* BOOLEAN: eviction task and clock
          Eviction,   \* retention period
          MaxNow, Now0,
          DurabilityByOpener,  \* TRUE: deviating design, see CommitFull above
          KeepRunning \* TRUE: the store is never closed (liveness configurations)
VARIABLES durable,    \* [pk: [Keys -> packet], ix: set of <<ts, key>>]   the committed database (what readers see)
          disk,       \* the last durably committed database (what a crash leaves)
          opener,     \* kind of the message that opened the current batch: "client" | "check" | "none"
          work,       \* the open write transaction's view (= durable when none is open)
          open, n,    \* transaction open?  messages handled in it
          inbox,      \* the actor's channel
          replied,    \* a reply is waiting for the client
          sent, acked,
          mode,       \* "run" | "crashed" | "closed"
          now,
          batchUps, committedUps, published,   \* ghosts: accepted upserts of the open batch / of committed batches / all sent
          wl, points                           \* generator: workload with results, crash points
vars == <<durable, disk, opener, work, open, n, inbox, replied, sent, acked, mode, now, batchUps, committedUps, published, wl, points>>

NoP == [ts |-> 0, pl |-> 0]
Packets == [ts : Tss, pl : Pls]
MoreRecent(a, b) == a.ts > b.ts \/ (a.ts = b.ts /\ a.pl > b.pl)
Cutoff == IF now > Eviction THEN now - Eviction ELSE 0
Empty == [pk |-> [k \in Keys |-> NoP], ix |-> {}]
ClientMsgs == [op : {"upsert"}, k : Keys, p : Packets, t : {0}] \cup [op : {"get"}, k : Keys, p : {NoP}, t : {0}]
SnapMsg == [op |-> "snap", k |-> CHOOSE k \in Keys : TRUE, p |-> NoP, t |-> 0]

Point == [sent |-> sent', acked |-> acked', pk |-> disk'.pk, ix |-> {[t |-> e[1], k |-> e[2]] : e \in disk'.ix}]
Track == points' = Append(points, Point)

Init == /\ durable = Empty /\ disk = Empty /\ opener = "none" /\ work = Empty /\ open = FALSE /\ n = 0 /\ inbox = <<>> /\ replied = FALSE
        /\ sent = 0 /\ acked = 0 /\ mode = "run" /\ now = Now0
        /\ batchUps = {} /\ committedUps = {} /\ published = {} /\ wl = <<>>
        /\ points = <<[sent |-> 0, acked |-> 0, pk |-> Empty.pk, ix |-> {}]>>

Send(m) == /\ mode = "run" /\ sent = acked /\ ~replied /\ sent < MaxMsgs
           /\ inbox' = Append(inbox, m) /\ sent' = sent + 1
           /\ published' = IF m.op = "upsert" THEN published \cup {<<m.k, m.p>>} ELSE published
           /\ UNCHANGED <<durable, disk, opener, work, open, n, replied, acked, mode, now, batchUps, committedUps, wl>> /\ Track

\* effect of one message on the transaction's tables; result = reply ("t"/"f" flag, or the packet for get)
Upserted(T, k, p) == LET old == T.pk[k] IN
  IF old # NoP /\ MoreRecent(old, p) THEN T
  ELSE [pk |-> [T.pk EXCEPT ![k] = p],
        ix |-> ((IF old # NoP THEN T.ix \ {<<old.ts, k>>} ELSE T.ix) \cup {<<p.ts, k>>})]
Checked(T, t, k) == LET cur == T.pk[k] IN
  IF cur # NoP /\ cur.ts < Cutoff THEN [pk |-> [T.pk EXCEPT ![k] = NoP], ix |-> T.ix \ {<<t, k>>}]
  ELSE [T EXCEPT !.ix = @ \ {<<t, k>>}]

\* a snapshot request that finds no open transaction is answered without opening one
HandleSnapIdle == /\ mode = "run" /\ inbox # <<>> /\ ~open /\ Head(inbox).op = "snap"
                  /\ inbox' = Tail(inbox) /\ replied' = TRUE
                  /\ wl' = Append(wl, [op |-> "snap", k |-> Head(inbox).k, ts |-> 0, pl |-> 0, flag |-> FALSE, got |-> NoP, seen |-> durable.pk])
                  /\ UNCHANGED <<durable, disk, opener, work, open, n, sent, acked, mode, now, batchUps, committedUps, published>> /\ Track
Handle == /\ mode = "run" /\ inbox # <<>> /\ ~(open /\ n >= B) /\ (open \/ Head(inbox).op # "snap")
          /\ LET m == Head(inbox)
                 T == IF open THEN work ELSE durable          \* begin_write on the first message of a batch
                 T2 == CASE m.op = "upsert" -> Upserted(T, m.k, m.p)
                         [] m.op \in {"get", "snap"} -> T
                         [] m.op = "check" -> Checked(T, m.t, m.k)
                 flag == m.op = "upsert" /\ ~(T.pk[m.k] # NoP /\ MoreRecent(T.pk[m.k], m.p))
             IN /\ work' = T2 /\ open' = TRUE /\ n' = (IF open THEN n ELSE 0) + 1
                /\ opener' = IF open THEN opener ELSE (IF m.op = "check" THEN "check" ELSE "client")
                /\ inbox' = Tail(inbox)
                /\ replied' = (m.op # "check")
                /\ batchUps' = IF flag THEN batchUps \cup {<<m.k, m.p>>} ELSE batchUps
                /\ wl' = IF m.op = "check" THEN wl
                         ELSE Append(wl, [op |-> m.op, k |-> m.k, ts |-> m.p.ts, pl |-> m.p.pl, flag |-> flag,
                                          got |-> T.pk[m.k], seen |-> durable.pk])
          /\ UNCHANGED <<durable, disk, sent, acked, mode, now, committedUps, published>> /\ Track
Recv == /\ mode = "run" /\ replied /\ replied' = FALSE /\ acked' = acked + 1
        /\ UNCHANGED <<durable, disk, opener, work, open, n, inbox, sent, mode, now, batchUps, committedUps, published, wl>> /\ Track

\* durability of the commit of the open batch
DurableCommit == ~DurabilityByOpener \/ opener # "check"
DoCommit == /\ durable' = work /\ open' = FALSE /\ n' = 0 /\ opener' = "none"
            /\ disk' = IF DurableCommit THEN work ELSE disk
            /\ committedUps' = committedUps \cup batchUps /\ batchUps' = {}
CommitFull == /\ mode = "run" /\ open /\ n >= B /\ DoCommit
              /\ UNCHANGED <<work, inbox, replied, sent, acked, mode, now, published, wl>> /\ Track
CommitTimeout == /\ Timeouts /\ mode = "run" /\ open /\ n < B /\ DoCommit
                 /\ UNCHANGED <<work, inbox, replied, sent, acked, mode, now, published, wl>> /\ Track
\* the store is dropped once the client has all replies (unless KeepRunning)
Close == /\ ~KeepRunning /\ mode = "run" /\ sent = acked /\ ~replied /\ sent = MaxMsgs /\ inbox = <<>>
         /\ mode' = "closed"
         /\ IF open THEN DoCommit ELSE UNCHANGED <<durable, disk, opener, open, n, committedUps, batchUps>>
         /\ UNCHANGED <<work, inbox, replied, sent, acked, now, published, wl>> /\ Track

Crash == /\ Crashes /\ mode = "run"
         /\ mode' = "crashed" /\ open' = FALSE /\ n' = 0 /\ opener' = "none" /\ inbox' = <<>> /\ replied' = FALSE
         /\ durable' = disk /\ work' = disk          \* the open transaction and non-durable commits are gone
         /\ sent' = acked /\ batchUps' = {}
         /\ UNCHANGED <<disk, acked, now, committedUps, published, wl, points>>
Reopen == /\ mode = "crashed" /\ mode' = "run"
          /\ UNCHANGED <<durable, disk, opener, work, open, n, inbox, replied, sent, acked, now, batchUps, committedUps, published, wl, points>>

\* eviction task: scans the committed index, queues one check per old entry (bounded channel: only when empty)
EvictScan == /\ Evict /\ mode = "run" /\ inbox = <<>>
             /\ LET S == {e \in durable.ix : e[1] < Cutoff} IN
                  /\ S # {}
                  /\ \E q \in [1..Cardinality(S) -> S] :
                       /\ \A i, j \in 1..Cardinality(S) : i # j => q[i] # q[j]
                       /\ inbox' = [i \in 1..Cardinality(S) |-> [op |-> "check", k |-> q[i][2], p |-> NoP, t |-> q[i][1]]]
             /\ UNCHANGED <<durable, disk, opener, work, open, n, replied, sent, acked, mode, now, batchUps, committedUps, published, wl, points>>
Tick == /\ Evict /\ now < MaxNow /\ now' = now + 1
        /\ UNCHANGED <<durable, disk, opener, work, open, n, inbox, replied, sent, acked, mode, batchUps, committedUps, published, wl, points>>

Next == (\E m \in ClientMsgs \cup {SnapMsg} : Send(m)) \/ HandleSnapIdle \/ Handle \/ Recv \/ CommitFull \/ CommitTimeout \/ Close
        \/ Crash \/ Reopen \/ EvictScan \/ Tick
Spec == Init /\ [][Next]_vars
FairSpec == Spec /\ WF_vars(Handle) /\ WF_vars(HandleSnapIdle) /\ WF_vars(Recv) /\ WF_vars(CommitFull) /\ WF_vars(CommitTimeout) /\ WF_vars(EvictScan)

---------------------------------------------------------------------------
(* C39 *)
\* the expiry index is consistent: every stored packet is indexed at its timestamp (dangling entries are allowed)
Indexed(T) == \A k \in Keys : T.pk[k] # NoP => <<T.pk[k].ts, k>> \in T.ix
IndexConsistent == Indexed(durable) /\ Indexed(work) /\ Indexed(disk)
\* what the database holds is a packet that was published for that key
PublishedOnly == \A k \in Keys : durable.pk[k] # NoP => <<k, durable.pk[k]>> \in published
\* every packet whose batch committed is there, or a more recent one, unless it has expired
Holds(T, e) == \/ T.pk[e[1]] # NoP /\ ~MoreRecent(e[2], T.pk[e[1]])
               \/ Evict /\ e[2].ts < Cutoff
CommittedSurvive == \A e \in committedUps : Holds(durable, e)
\* ... also on disk, whatever else the batch contained and whoever opened it (mixed batches: an eviction
\* check and a client upsert in one transaction): an acknowledged upsert whose batch committed survives a crash
CommittedOnDisk == \A e \in committedUps : Holds(disk, e)
\* a crash loses exactly the open transaction
CrashKeepsCommit == [][mode' = "crashed" => durable' = durable /\ work' = durable]_vars
\* eviction never removes a packet that is not older than the cut-off
EvictOnlyExpired == [][ \A k \in Keys : work.pk[k] # NoP /\ work'.pk[k] = NoP /\ mode' = "run" /\ mode = "run"
                          => work.pk[k].ts < Cutoff ]_vars
\* ... and eventually removes every older one (once the clock has stopped at MaxNow)
EventuallyEvicted == \A k \in Keys : <>[](mode # "run" \/ durable.pk[k] = NoP \/ durable.pk[k].ts >= Cutoff \/ now < MaxNow)

\* generator: one REPLAY line per complete behaviour (client done, store closed)
Emit == mode = "closed" => PrintT(<<"REPLAY", ToJson([b |-> B, msgs |-> wl, points |-> points])>>)
\* exhaustive configurations do not distinguish states by their history
MCView == <<durable, disk, opener, work, open, n, inbox, replied, sent, acked, mode, now, batchUps, committedUps, published>>
=============================================================================
