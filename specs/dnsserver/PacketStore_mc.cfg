SPECIFICATION Spec
INVARIANT IndexConsistent PublishedOnly CommittedSurvive
PROPERTY CrashKeepsCommit EvictOnlyExpired
VIEW MCView
CHECK_DEADLOCK FALSE
