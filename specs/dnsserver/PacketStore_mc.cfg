SPECIFICATION Spec
INVARIANT IndexConsistent PublishedOnly CommittedSurvive CommittedOnDisk
PROPERTY CrashKeepsCommit EvictOnlyExpired
VIEW MCView
CHECK_DEADLOCK FALSE
