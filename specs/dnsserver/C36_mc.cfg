SPECIFICATION Spec36
INVARIANT StoreSignedByOwner AnswersOnlyOwnSigned CacheCoherent StoredIsNewest
PROPERTY PutIsolation RejectedChangesNothing FlagRule
CHECK_DEADLOCK FALSE
CONSTANTS
  Packets <- P36T
  Keys = {"k1", "k2"}
  Rels = {"@", "_iroh", "a.b"}
  Types = {"TXT", "A", "AAAA", "SOA", "NS", "CNAME"}
  Zls = {}
  RecTypes = {}
  MaxRecs = 0
  Pls = {1}
  WithQuery = TRUE
  DistinctTs = TRUE
