SPECIFICATION GenTable36
INVARIANT StoreSignedByOwner AnswersOnlyOwnSigned Emit
PROPERTY RejectedChangesNothing
CHECK_DEADLOCK FALSE
CONSTANTS
  Packets <- P36
  Keys = {"k1", "k2"}
  Rels = {"@", "_iroh", "a.b"}
  Types = {"TXT", "A", "AAAA", "SOA", "NS", "CNAME"}
  Zls = {"k1", "k2", "other", "none"}
  RecTypes = {"TXT", "A", "AAAA", "SOA", "NS", "CNAME"}
  Tss = {1}
  Pls = {1}
  MaxSteps = 1
  WithQuery = FALSE
  DistinctTs = TRUE
