SPECIFICATION Spec
INVARIANT CommittedOnDisk
VIEW MCView
CHECK_DEADLOCK FALSE
