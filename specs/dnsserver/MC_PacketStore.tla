--------------------------- MODULE MC_PacketStore ---------------------------
(* Generator configuration of PacketStore: the client workload is fixed per behaviour by an
   integer `wid` drawn from the constant set Workloads (chosen by the check from its seed); TLC
   then explores every interleaving of that workload, so the crash points of a workload are
   complete.  Digit i of wid (base 10) is message i:
     0..7  upsert  key = d \div 4, ts = 1 + (d \div 2) % 2, payload = 1 + d % 2      8, 9  get key d - 8 *)
EXTENDS PacketStore
CONSTANT Workloads
VARIABLE wid
KeyOf(i) == IF i = 0 THEN "k1" ELSE "k2"
Digit(w, i) == (w \div (10 ^ (i - 1))) % 10
MsgOf(d) == IF d < 8 THEN [op |-> "upsert", k |-> KeyOf(d \div 4), p |-> [ts |-> 1 + ((d \div 2) % 2), pl |-> 1 + (d % 2)], t |-> 0]
            ELSE [op |-> "get", k |-> KeyOf(d - 8), p |-> NoP, t |-> 0]
InitW == Init /\ wid \in Workloads
SendW == Send(MsgOf(Digit(wid, sent + 1)))
NextW == (SendW \/ HandleSnapIdle \/ Handle \/ Recv \/ CommitFull \/ Close) /\ UNCHANGED wid
SpecW == InitW /\ [][NextW]_<<vars, wid>>
EmitW == mode = "closed" => PrintT(<<"REPLAY", ToJson([wid |-> wid, b |-> B, msgs |-> wl, points |-> points])>>)

\* --- mixed batches: the database holds an expired packet of k2 (timestamp 1 < cut-off 2) and the eviction
\* task's scan has queued its CheckExpired, so that message OPENS the first batch; the client's messages fall
\* into it.  Digits: 0..7 upsert key = d \div 4, ts = 2 + (d \div 2) % 2 (not expired), payload 1 + d % 2;
\* 8 get k2; 9 snap (the client sees the committed tables)
StaleP == [ts |-> 1, pl |-> 1]
Stale == [pk |-> [k \in Keys |-> IF k = "k2" THEN StaleP ELSE NoP], ix |-> {<<1, "k2">>}]
MsgOfM(d) == IF d < 8 THEN [op |-> "upsert", k |-> KeyOf(d \div 4), p |-> [ts |-> 2 + ((d \div 2) % 2), pl |-> 1 + (d % 2)], t |-> 0]
             ELSE IF d = 8 THEN [op |-> "get", k |-> "k2", p |-> NoP, t |-> 0] ELSE SnapMsg
InitM == /\ durable = Stale /\ disk = Stale /\ work = Stale /\ opener = "none" /\ open = FALSE /\ n = 0
         /\ inbox = <<[op |-> "check", k |-> "k2", p |-> NoP, t |-> 1]>> /\ replied = FALSE
         /\ sent = 0 /\ acked = 0 /\ mode = "run" /\ now = Now0
         /\ batchUps = {} /\ committedUps = {} /\ published = {<<"k2", StaleP>>} /\ wl = <<>>
         /\ points = <<[sent |-> 0, acked |-> 0, pk |-> Stale.pk, ix |-> {[t |-> 1, k |-> "k2"]}]>>
         /\ wid \in Workloads
SendM == Send(MsgOfM(Digit(wid, sent + 1)))
NextM == (SendM \/ HandleSnapIdle \/ Handle \/ Recv \/ CommitFull \/ Close) /\ UNCHANGED wid
SpecM == InitM /\ [][NextM]_<<vars, wid>>

\* --- eviction workloads: upserts with timestamps on both sides of the cut-off, clock stopped; a line per
\* quiescent state (everything committed, nothing left to evict) with the content that must remain
Ups == [op : {"upsert"}, k : Keys, p : Packets, t : {0}]
SendE == \E m \in Ups : Send(m)
NextE == (SendE \/ HandleSnapIdle \/ Handle \/ Recv \/ CommitFull \/ CommitTimeout \/ EvictScan) /\ UNCHANGED wid
SpecE == Init /\ wid = 0 /\ [][NextE]_<<vars, wid>>
Quiescent == /\ mode = "run" /\ inbox = <<>> /\ ~open /\ ~replied /\ sent = MaxMsgs /\ acked = sent
             /\ {e \in durable.ix : e[1] < Cutoff} = {}
EmitE == Quiescent => PrintT(<<"REPLAY", ToJson([msgs |-> wl, final |-> durable.pk, cutoff |-> Cutoff])>>)
\* in a quiescent state exactly the packets that are not older than the cut-off remain: the newest published one per key
NewestPub(k) == LET S == {e[2] : e \in {x \in published : x[1] = k}} IN
                IF S = {} THEN NoP ELSE CHOOSE m \in S : \A q \in S : ~MoreRecent(q, m)
QuiescentExact == Quiescent => \A k \in Keys : durable.pk[k] = (IF NewestPub(k).ts >= Cutoff THEN NewestPub(k) ELSE NoP)
ViewE == <<MCView, [i \in 1..Len(wl) |-> <<wl[i].k, wl[i].ts, wl[i].pl>>]>>
=============================================================================
