--------------------------- MODULE MC_PacketStore ---------------------------
(* Generator configuration of PacketStore: the client workload is fixed per behaviour by an
   integer `wid` drawn from the constant set Workloads (chosen by the check from its seed); TLC
   then explores every interleaving of that workload, so the crash points of a workload are
   complete.  Digit i of wid (base 10) is message i:
     0..7  upsert  key = d \div 4, ts = 1 + (d \div 2) % 2, payload = 1 + d % 2      8, 9  get key d - 8 *)
EXTENDS PacketStore
CONSTANT Workloads
VARIABLE wid
KeyOf(i) == IF i = 0 THEN "k1" ELSE "k2"
Digit(w, i) == (w \div (10 ^ (i - 1))) % 10
MsgOf(d) == IF d < 8 THEN [op |-> "upsert", k |-> KeyOf(d \div 4), p |-> [ts |-> 1 + ((d \div 2) % 2), pl |-> 1 + (d % 2)], t |-> 0]
            ELSE [op |-> "get", k |-> KeyOf(d - 8), p |-> NoP, t |-> 0]
InitW == Init /\ wid \in Workloads
SendW == Send(MsgOf(Digit(wid, sent + 1)))
NextW == (SendW \/ Handle \/ Recv \/ CommitFull \/ Close) /\ UNCHANGED wid
SpecW == InitW /\ [][NextW]_<<vars, wid>>
EmitW == mode = "closed" => PrintT(<<"REPLAY", ToJson([wid |-> wid, b |-> B, msgs |-> wl, points |-> points])>>)
=============================================================================
