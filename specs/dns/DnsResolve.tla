---------------------------- MODULE DnsResolve ----------------------------
(* C34 — staggered DNS lookups (iroh-dns/src/dns.rs).

   Models `stagger_call(f, delays_ms)` + `add_jitter(delay)` as used by the public
   `DnsResolver::lookup_ipv4_staggered`, `lookup_ipv6_staggered`, `lookup_ipv4_ipv6_staggered`,
   `lookup_endpoint_by_id_staggered` (and `..by_domain_name_staggered`), together with the
   per-lookup timeout of `Inner::op` and the combination rule of `lookup_ipv4_ipv6`
   (`tokio::join!` of both families; Ok iff either is Ok; `ResolveBoth` iff both fail) and of
   `lookup_endpoint_by_id` (TXT lookup with DNS_TIMEOUT, then `EndpointInfo::from_txt_lookup`).

   Time is integer milliseconds (tokio's timer granularity; the harness runs under the paused
   clock).  One scenario = (api, delays, script).  The script lists, per record family, what the
   resolver answers to its 1st, 2nd, ... call of that family (`kind`, and after how long `dur`);
   attempts consume script entries in the order in which they *start*, which is what a
   `Resolver` implementation can observe.

   Actions and the code they stand for
     Schedule     the `for delay in once(0).chain(delays)` loop: `add_jitter(delay)` for every
                  delay, before the first `.await`.  `add_jitter` computes
                  max_jitter = delay.saturating_mul(40) / 100 and `random % max_jitter`: with
                  GuardZeroJitter = FALSE (the code as written) a zero max_jitter panics
                  (`% 0`); with GuardZeroJitter = TRUE (what the property requires) the delay is
                  used unchanged.  The random jitter itself is not fixed here: Schedule only
                  fixes the *window* of instants at which the attempt may start (choosing the
                  jitter at Schedule or at Start is indistinguishable for every observer).
     Start(i, t)  attempt i's `time::sleep(jittered delay)` elapses at t inside its window and
                  the lookup future is polled for the first time: the resolver is called once
                  per family of the api; each call takes the next script entry of its family.
                  From then on end instant and outcome of the attempt are determined:
                  a lookup answers after min(dur, timeout); dur > timeout is `DnsError::Timeout`.
     Finish(i)    attempt i's future completes at its end instant and `calls.next()` hands the
                  result to the `while let` loop: Ok => the loop returns, Err => pushed to
                  `errors`; after the last attempt the loop ends.
     Return(r)    `stagger_call` returns r (all other attempt futures are dropped).
   Time advances only as part of Start/Finish (CanAdvanceTo): no running attempt's end and no
   sleeping attempt's last possible start instant may be skipped.  Events at the same instant
   may happen in any order (weak reading: the property does not order ties).

   ExactJitter = TRUE: windows are add_jitter's integer arithmetic [d - mj/2, d - mj/2 + mj - 1],
   mj = sat(d * 40) / 100, with u64 saturation scaled to U64Max.  ExactJitter = FALSE: windows
   are the stated contract, +/- JitterPct % of the delay; used to judge the implementation, so
   that any jitter distribution inside the contract is accepted.  WindowsWithinTolerance (checked
   with ExactJitter = TRUE) shows that the arithmetic refines the contract.                    *)
EXTENDS Naturals, Sequences, FiniteSets, TLC

CONSTANTS U64Max,           \* saturation bound of the u64 delay arithmetic (scaled down in the model)
          JitterPct,        \* MAX_JITTER_PERCENT = 20
          GuardZeroJitter,  \* TRUE: required design; FALSE: code as written (`% 0` panic)
          ExactJitter,      \* TRUE: add_jitter's arithmetic; FALSE: the +/- JitterPct % contract
          Timeout,          \* timeout passed to lookup_ipv4/6(_ipv6)_staggered (ms)
          TxtTimeout,       \* DNS_TIMEOUT used by lookup_endpoint_by_id (3000 ms; scaled in the model)
          Scenarios,        \* scenarios explored by the model checker / generator
          MaxT              \* the model checker follows a call up to this instant

VARIABLES scn,     \* the scenario [api, delays, script]
          phase,   \* "idle" | "running" | "returning" | "returned" | "panicked" | "gaveup"
          now,     \* ms since the call
          win,     \* win[i] = [lo, hi]: instants at which attempt i may start
          att,     \* att[i] = [st, start, end, ok, k, v4, v6, err]
          ncalls,  \* calls made so far per family = script position
          done,    \* attempts in completion order: <<[i, ok]>>
          result   \* what stagger_call returned
vars == <<scn, phase, now, win, att, ncalls, done, result>>

Min(a, b) == IF a < b THEN a ELSE b
Max(a, b) == IF a > b THEN a ELSE b
Abs(a, b) == IF a > b THEN a - b ELSE b - a

----------------------------------------------------------------------------
(* add_jitter, u64 arithmetic with saturation at U64Max *)
SatMul(a, b) == IF b # 0 /\ a > U64Max \div b THEN U64Max ELSE a * b
SatAdd(a, b) == IF a > U64Max - b THEN U64Max ELSE a + b
SatSub(a, b) == IF a < b THEN 0 ELSE a - b
MaxJitter(d) == SatMul(d, 2 * JitterPct) \div 100
ZeroJitter(d) == d # 0 /\ MaxJitter(d) = 0            \* `random % 0`
JitLo(d) == SatSub(d, MaxJitter(d) \div 2)
JitHi(d) == IF d = 0 \/ MaxJitter(d) = 0 THEN d ELSE SatAdd(JitLo(d), MaxJitter(d) - 1)
(* the contract: within +/- JitterPct % of the delay, at ms granularity *)
Tol(d, s) == 100 * Abs(s, d) <= JitterPct * d
TolLo(d) == d - (JitterPct * d) \div 100
TolHi(d) == d + (JitterPct * d) \div 100
Window(d) == IF ExactJitter THEN [lo |-> JitLo(d), hi |-> JitHi(d)] ELSE [lo |-> TolLo(d), hi |-> TolHi(d)]

----------------------------------------------------------------------------
NoErr  == [c |-> "-", e4 |-> "-", e6 |-> "-"]
NoAtt  == [st |-> "sleeping", start |-> 0, end |-> 0, ok |-> FALSE, k |-> 0, v4 |-> 0, v6 |-> 0, err |-> NoErr]
NoResult == [kind |-> "none", k |-> 0, v4 |-> 0, v6 |-> 0, errs |-> <<>>]
NoScn  == [api |-> "none", delays |-> <<>>, script |-> [a |-> <<>>, aaaa |-> <<>>, txt |-> <<>>]]
Apis   == {"v4", "v6", "v46", "txt"}

N    == Len(scn.delays) + 1                       \* once(&0).chain(delays_ms)
D(i) == IF i = 1 THEN 0 ELSE scn.delays[i - 1]
Entry(fam, k) == IF k <= Len(scn.script[fam]) THEN scn.script[fam][k] ELSE [kind |-> "err", dur |-> 0]

(* Inner::op: the lookup races the timeout, biased towards the lookup *)
Out(e, to)    == IF e.dur > to THEN "timeout" ELSE e.kind
EndOf(e, to, s) == s + Min(e.dur, to)

(* the attempt that starts at instant s, given the calls made so far *)
NewAttempt(s) ==
  LET k4 == ncalls.a + 1  k6 == ncalls.aaaa + 1  kt == ncalls.txt + 1
      e4 == Entry("a", k4)  e6 == Entry("aaaa", k6)  et == Entry("txt", kt)
      o4 == Out(e4, Timeout)  o6 == Out(e6, Timeout)  ot == Out(et, TxtTimeout)
  IN CASE scn.api = "v4" ->
            [st |-> "running", start |-> s, end |-> EndOf(e4, Timeout, s), ok |-> o4 = "ok", k |-> k4,
             v4 |-> IF o4 = "ok" THEN k4 ELSE 0, v6 |-> 0, err |-> [c |-> o4, e4 |-> "-", e6 |-> "-"]]
       [] scn.api = "v6" ->
            [st |-> "running", start |-> s, end |-> EndOf(e6, Timeout, s), ok |-> o6 = "ok", k |-> k6,
             v4 |-> 0, v6 |-> IF o6 = "ok" THEN k6 ELSE 0, err |-> [c |-> o6, e4 |-> "-", e6 |-> "-"]]
       [] scn.api = "v46" ->    \* tokio::join!(lookup_ipv4, lookup_ipv6): done when both are done
            [st |-> "running", start |-> s, end |-> Max(EndOf(e4, Timeout, s), EndOf(e6, Timeout, s)),
             ok |-> o4 = "ok" \/ o6 = "ok", k |-> k4,
             v4 |-> IF o4 = "ok" THEN k4 ELSE 0, v6 |-> IF o6 = "ok" THEN k6 ELSE 0,
             err |-> [c |-> "both", e4 |-> o4, e6 |-> o6]]
       [] scn.api = "txt" ->    \* lookup_txt(DNS_TIMEOUT) then EndpointInfo::from_txt_lookup
            [st |-> "running", start |-> s, end |-> EndOf(et, TxtTimeout, s), ok |-> ot = "ok", k |-> kt,
             v4 |-> 0, v6 |-> 0,
             err |-> IF ot = "bad" THEN [c |-> "parse", e4 |-> "-", e6 |-> "-"]
                                   ELSE [c |-> "lookup_failed", e4 |-> ot, e6 |-> "-"]]
Bump == [a    |-> ncalls.a    + (IF scn.api \in {"v4", "v46"} THEN 1 ELSE 0),
         aaaa |-> ncalls.aaaa + (IF scn.api \in {"v6", "v46"} THEN 1 ELSE 0),
         txt  |-> ncalls.txt  + (IF scn.api = "txt" THEN 1 ELSE 0)]

(* time may move to t without skipping anything that has to happen before *)
CanAdvanceTo(t) ==
  /\ t >= now
  /\ \A j \in 1..N : /\ att[j].st = "running"  => att[j].end >= t
                     /\ att[j].st = "sleeping" => win[j].hi >= t

----------------------------------------------------------------------------
InitWith(s) ==
  /\ scn = s /\ phase = "idle" /\ now = 0
  /\ win = [i \in 1..(Len(s.delays) + 1) |-> [lo |-> 0, hi |-> 0]]
  /\ att = [i \in 1..(Len(s.delays) + 1) |-> NoAtt]
  /\ ncalls = [a |-> 0, aaaa |-> 0, txt |-> 0]
  /\ done = <<>> /\ result = NoResult
Init == \E s \in Scenarios : InitWith(s)

Schedule ==
  /\ phase = "idle"
  /\ IF ~GuardZeroJitter /\ \E i \in 1..N : ZeroJitter(D(i))
        THEN phase' = "panicked" /\ UNCHANGED win                       \* attempt to calculate the remainder with a divisor of zero
        ELSE phase' = "running" /\ win' = [i \in 1..N |-> Window(D(i))]
  /\ UNCHANGED <<scn, now, att, ncalls, done, result>>

Start(i, t) ==
  /\ phase = "running" /\ att[i].st = "sleeping"
  /\ win[i].lo <= t /\ t <= win[i].hi /\ CanAdvanceTo(t)
  /\ now' = t
  /\ att' = [att EXCEPT ![i] = NewAttempt(t)]
  /\ ncalls' = Bump
  /\ UNCHANGED <<scn, phase, win, done, result>>

Finish(i) ==
  /\ phase = "running" /\ att[i].st = "running" /\ CanAdvanceTo(att[i].end)
  /\ now' = att[i].end
  /\ att' = [att EXCEPT ![i].st = IF att[i].ok THEN "ok" ELSE "err"]
  /\ done' = Append(done, [i |-> i, ok |-> att[i].ok])
  /\ phase' = IF att[i].ok \/ Len(done) + 1 = N THEN "returning" ELSE "running"
  /\ UNCHANGED <<scn, win, ncalls, result>>

(* what the loop in stagger_call returns in the current state *)
Expected ==
  LET last == done[Len(done)] IN
  IF att[last.i].ok
     THEN [kind |-> "ok", k |-> att[last.i].k, v4 |-> att[last.i].v4, v6 |-> att[last.i].v6, errs |-> <<>>]
     ELSE [kind |-> "err", k |-> 0, v4 |-> 0, v6 |-> 0, errs |-> [j \in 1..Len(done) |-> att[done[j].i].err]]

Return(r) ==
  /\ phase = "returning"
  /\ phase' = "returned" /\ result' = r
  /\ UNCHANGED <<scn, now, win, att, ncalls, done>>

StartSome  == \E i \in 1..N : \E t \in (win[i].lo)..Min(win[i].hi, MaxT) : Start(i, t)
FinishSome == \E i \in 1..N : att[i].end <= MaxT /\ Finish(i)
ReturnExpected == Return(Expected)
Next == Schedule \/ StartSome \/ FinishSome \/ ReturnExpected
Spec == Init /\ [][Next]_vars

----------------------------------------------------------------------------
(* C34 *)
\* never panics
NoPanic == phase # "panicked"
\* add_jitter stays within the stated +/- JitterPct % for every delay (meaningful with ExactJitter = TRUE)
WindowsWithinTolerance ==
  phase \in {"running", "returning", "returned"} =>
     \A i \in 1..N : Tol(D(i), win[i].lo) /\ Tol(D(i), win[i].hi) /\ win[i].lo <= win[i].hi
\* one attempt immediately, one per delay within tolerance
StartsWithinTolerance ==
  \A i \in 1..N : att[i].st # "sleeping" => Tol(D(i), att[i].start) /\ (i = 1 => att[i].start = 0)
\* an attempt that was due before the call returned has been started (none is skipped)
NoneSkipped ==
  phase \in {"returning", "returned"} => \A i \in 1..N : att[i].st = "sleeping" => TolHi(D(i)) >= now
\* the result is the first success in completion order, else every attempt's error
ResultRule ==
  /\ (phase = "returned") = (result.kind # "none")
  /\ result.kind = "ok" =>
        /\ done[Len(done)].ok /\ \A j \in 1..(Len(done) - 1) : ~done[j].ok
        /\ LET w == att[done[Len(done)].i] IN result.k = w.k /\ result.v4 = w.v4 /\ result.v6 = w.v6
        /\ result.v4 # 0 \/ result.v6 # 0 \/ scn.api = "txt"
  /\ result.kind = "err" =>
        /\ Len(done) = N /\ \A j \in 1..N : ~done[j].ok
        /\ Len(result.errs) = N /\ \A j \in 1..N : result.errs[j] = att[done[j].i].err
\* the call returns as soon as it can: no attempt finishes after a success
ReturnsAtFirstSuccess == \A j \in 1..Len(done) : done[j].ok => j = Len(done)
\* each attempt is started at most once and consumes exactly one script entry per family
CallsMatchStarts ==
  LET started == Cardinality({i \in 1..N : att[i].st # "sleeping"}) IN
  /\ scn.api \in {"v4", "v46"} => ncalls.a = started
  /\ scn.api \in {"v6", "v46"} => ncalls.aaaa = started
  /\ scn.api = "txt" => ncalls.txt = started
TypeOK ==
  /\ phase \in {"idle", "running", "returning", "returned", "panicked", "gaveup"}
  /\ \A i \in 1..N : att[i].st \in {"sleeping", "running", "ok", "err"}
=============================================================================
