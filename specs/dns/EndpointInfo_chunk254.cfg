SPECIFICATION Spec
INVARIANT RoundTrip
CHECK_DEADLOCK FALSE
CONSTANTS
  Classes = {"a", "u"}
  Targets = {245}
  MaxUserData = 245
  MaxTxt = 255
  MaxPacket = 1000
  NameLen = 60
  ChunkAt = 254
  Pool <- MC_Pool
  UdSample <- MC_UdSample
  Foreign <- MC_Foreign
  Filters = {"none"}
  AddrLists <- MC_FewListsQuick
  FewLists <- MC_FewListsQuick
