SPECIFICATION Spec
INVARIANT AcceptIffAuthentic Unforgeable ModificationRejected TotalAccessors UncheckedStillValidates Emit
CHECK_DEADLOCK FALSE
