SPECIFICATION Spec
INVARIANT AcceptIffAuthentic Unforgeable RelayBoundToKey FullPacketIsNoRelayPayload ModificationRejected TotalAccessors UncheckedStillValidates Emit
CHECK_DEADLOCK FALSE
