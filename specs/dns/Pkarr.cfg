SPECIFICATION Spec
INVARIANT AcceptIffAuthentic Unforgeable ModificationRejected TotalAccessors UncheckedStillValidates
CHECK_DEADLOCK FALSE
