SPECIFICATION Spec
INVARIANT AcceptIffAuthentic Unforgeable RelayBoundToKey FullPacketIsNoRelayPayload ModificationRejected TotalAccessors UncheckedStillValidates
CHECK_DEADLOCK FALSE
