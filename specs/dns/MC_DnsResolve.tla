--------------------------- MODULE MC_DnsResolve ---------------------------
(* Scenario sets for model checking and for scenario generation of DnsResolve (C34). *)
EXTENDS DnsResolve, Json
CONSTANTS Families      \* names of the scenario families to explore

SeqsUpTo(S, n) == UNION {[1..m -> S] : m \in 0..n}
Scripts(api, n, durs) ==
  LET E2 == [kind : {"ok", "err"}, dur : durs]
      E3 == [kind : {"ok", "err", "bad"}, dur : durs]     \* "bad": a TXT answer that is not an iroh record
  IN CASE api = "v4"  -> {[a |-> s, aaaa |-> <<>>, txt |-> <<>>] : s \in [1..n -> E2]}
       [] api = "v6"  -> {[a |-> <<>>, aaaa |-> s, txt |-> <<>>] : s \in [1..n -> E2]}
       [] api = "v46" -> {[a |-> s, aaaa |-> u, txt |-> <<>>] : s \in [1..n -> E2], u \in [1..n -> E2]}
       [] api = "txt" -> {[a |-> <<>>, aaaa |-> <<>>, txt |-> s] : s \in [1..n -> E3]}
\* every delay list of length <= maxDelays over delayVals, with every script over durs
ScnSet(api, delayVals, maxDelays, durs) ==
  UNION {{[api |-> api, delays |-> ds, script |-> sc] : sc \in Scripts(api, Len(ds) + 1, durs)}
         : ds \in SeqsUpTo(delayVals, maxDelays)}

\* u64::MAX, the smallest delay whose `* 40` saturates, u64::MAX / 2 — at the model's scale
Huge == {U64Max, U64Max \div (2 * JitterPct) + 1, U64Max \div 2}
\* durations: 0 = answers at once; <= Timeout answers; Timeout + 1 times out
Family(name) ==
  CASE name = "small-v4"   -> ScnSet("v4",  {0, 1, 2, 3, 5, 10}, 2, {0, 2, Timeout + 1})
    [] name = "small-v4-t" -> ScnSet("v4",  {0, 1, 2, 3, 5, 10}, 2, {0, 2, 9, Timeout, Timeout + 1})
    [] name = "three"      -> ScnSet("v4",  {1, 3, 5}, 3, {0, 4})
    [] name = "small-v6"   -> ScnSet("v6",  {0, 2, 5}, 1, {0, Timeout + 1})
    [] name = "dual"       -> ScnSet("v46", {0, 2, 5}, 1, {0, 3, Timeout + 1})
    [] name = "dual-t"     -> ScnSet("v46", {0, 1, 3, 10}, 1, {0, 3, Timeout, Timeout + 1})
    [] name = "txt"        -> ScnSet("txt", {0, 3, 10}, 1, {0, 5, TxtTimeout + 1})
    [] name = "txt-t"      -> ScnSet("txt", {0, 1, 3, 10}, 2, {0, 5, TxtTimeout + 1})
    [] name = "big1"       -> ScnSet("v4",  {1, 300} \cup Huge, 1, {0, 400})
    [] name = "big2"       -> ScnSet("v4",  {1, 300} \cup Huge, 2, {0, 400})
    [] name = "sat"        -> ScnSet("v4",  {U64Max \div 40 - 1, U64Max \div 40, U64Max \div 40 + 1, U64Max - 1} \cup Huge, 1, {0})
MC_Scenarios == UNION {Family(f) : f \in Families}

----------------------------------------------------------------------------
(* Scenario generator (Gen_DnsResolve.cfg): one initial state per scenario, no steps; every
   scenario is printed with what the model says about it before anything runs:
     cls          how each model delay is concretised ("lit": the same number of ms; "max",
                  "ovf", "half": u64::MAX, u64::MAX/40 + 1 (smallest delay whose `* 40`
                  saturates), u64::MAX/2 — the model scales u64::MAX down to U64Max)
     zero_jitter  add_jitter as written computes `random % 0` for some delay of the list
     windows      the contract window of every attempt (diagnostics)                        *)
GenSpec == Init /\ [][UNCHANGED vars]_vars
DelayClass(d) == IF d = U64Max THEN "max"
                 ELSE IF d = U64Max \div (2 * JitterPct) + 1 THEN "ovf"
                 ELSE IF d = U64Max \div 2 THEN "half" ELSE "lit"
Emit == PrintT(<<"REPLAY", ToJson([api |-> scn.api, delays |-> scn.delays,
                                   cls |-> [i \in 1..Len(scn.delays) |-> DelayClass(scn.delays[i])],
                                   script |-> scn.script,
                                   zero_jitter |-> \E i \in 1..N : ZeroJitter(D(i)),
                                   windows |-> [i \in 1..N |-> [lo |-> TolLo(D(i)), hi |-> TolHi(D(i))]]])>>)
=============================================================================
