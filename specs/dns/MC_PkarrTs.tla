---------------------------- MODULE MC_PkarrTs ----------------------------
(* Generator of forced wall-clock readings for the C33 binding: one initial state per
   assignment of a reading to every call of every thread (readings are relative to LAST at
   the start of the run; a thread's readings may decrease = the clock jumps backwards).
   The harness forces them through the VERIF_CLOCK hook.                                    *)
EXTENDS PkarrTs, Json
VARIABLE asg
GenInit == Init /\ asg \in [Threads -> [1..Calls -> Clock]]
GenSpec == GenInit /\ [][UNCHANGED <<vars, asg>>]_<<vars, asg>>
Backwards(f) == \E i, j \in 1..Calls : i < j /\ f[i] > f[j]
Emit == PrintT(<<"REPLAY", ToJson([clocks |-> asg, backwards |-> \E t \in Threads : Backwards(asg[t])])>>)
=============================================================================
