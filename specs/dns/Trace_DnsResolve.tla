------------------------- MODULE Trace_DnsResolve -------------------------
(* Trace validation for C34: observations of the real `lookup_*_staggered` functions
   (harness/src/bin/vh_dns.rs, c34) against DnsResolve.

   The trace is a concatenation of runs.  Each run: one `reset` (the scenario that was
   executed), one `start` per attempt the scripted resolver saw (k = script position, t = the
   instant of the call(s); for the dual-stack api t6 = instant of the AAAA call of the same
   attempt), and either `ret` (instant and result of the call) or `horizon` (still pending when
   the harness gave up).  `start` and `ret` map to Start/Return; Schedule is part of `reset`;
   Finish is a hidden step (the completion of an attempt's future is not observable from
   outside), taken only at the instant the model determines.

   Run with ExactJitter = FALSE (contract windows) and GuardZeroJitter = TRUE: a start instant
   outside +/- JitterPct %, a missing or extra attempt, a result that is not the first success
   in completion order, an error list that does not carry every attempt's error, or a call that
   is still pending when it must have returned cannot be explained, and the trace is rejected
   at that event.  Progress is kept in TLC register 7 (hidden steps make the BFS depth useless). *)
EXTENDS DnsResolve, Json, IOUtils, TLCExt
Rec == ndJsonDeserialize(IOEnv.TRACE)
VARIABLE l
tvars == <<vars, l>>

Progress(n) == TLCSet(7, IF TLCGet(7) > n THEN TLCGet(7) ELSE n)
IsEvent(e) == l <= Len(Rec) /\ Rec[l].ev = e /\ l' = l + 1
Consumed == Progress(l + 1)     \* last conjunct of every visible action: the event has been explained

TInit == InitWith(NoScn) /\ l = 1 /\ TLCSet(7, 1)

ScnOf(r) == [api |-> r.api, delays |-> r.delays, script |-> r.script]
\* `reset`: a new call; the previous one is over.  Establishes InitWith(scenario) followed by Schedule.
TReset ==
  /\ IsEvent("reset")
  /\ phase \in {"idle", "returned", "gaveup"}
  /\ LET s == ScnOf(Rec[l]) IN
       /\ s.api \in Apis
       /\ scn' = s /\ now' = 0 /\ phase' = "running"
       /\ win' = [i \in 1..(Len(s.delays) + 1) |-> Window(IF i = 1 THEN 0 ELSE s.delays[i - 1])]
       /\ att' = [i \in 1..(Len(s.delays) + 1) |-> NoAtt]
       /\ ncalls' = [a |-> 0, aaaa |-> 0, txt |-> 0]
       /\ done' = <<>> /\ result' = NoResult
  /\ Consumed

TStart ==
  /\ IsEvent("start")
  /\ Rec[l].t6 = Rec[l].t                            \* both families of an attempt are queried together
  /\ \E i \in 1..N : /\ Start(i, Rec[l].t)
                     /\ att'[i].k = Rec[l].k
  /\ Consumed

\* hidden: an attempt completes at its determined end instant, not later than the next observed event
TFinish ==
  /\ l <= Len(Rec) /\ Rec[l].ev \in {"start", "ret", "horizon"}
  /\ \E i \in 1..N : att[i].st = "running" /\ att[i].end <= Rec[l].t /\ Finish(i)
  /\ l' = l

Observed(r) == [kind |-> r.kind, k |-> r.k, v4 |-> r.v4, v6 |-> r.v6, errs |-> r.errs]
TRet ==
  /\ IsEvent("ret")
  /\ phase = "returning" /\ Rec[l].t = now
  /\ Observed(Rec[l]) = Expected
  /\ Return(Observed(Rec[l]))
  /\ Consumed

\* the harness gave up at Rec[l].t: legal only if the call can still be pending then
THorizon ==
  /\ IsEvent("horizon")
  /\ phase = "running" /\ CanAdvanceTo(Rec[l].t)
  /\ phase' = "gaveup" /\ now' = Rec[l].t
  /\ UNCHANGED <<scn, win, att, ncalls, done, result>>
  /\ Consumed

TNext == TReset \/ TStart \/ TFinish \/ TRet \/ THorizon
TSpec == TInit /\ [][TNext]_tvars

Accepted == LET m == TLCGet(7) IN
            IF m = Len(Rec) + 1 THEN TRUE
            ELSE Print(<<"TRACE-REJECTED at event", m, IF m <= Len(Rec) THEN Rec[m] ELSE "eof">>, FALSE)
=============================================================================
