----------------------------- MODULE PkarrOrder -----------------------------
(* Growth of the pkarr model beyond C32: `SignedPacket::more_recent_than` (iroh-dns/src/pkarr.rs),
   the order the DNS server uses to keep the newest packet per key (C37 builds on it).

     if self.timestamp() == other.timestamp() { self.encoded_packet() > other.encoded_packet() }
     else { self.timestamp() > other.timestamp() }

   A packet is abstracted to [ts, pl]: timestamp rank and payload rank (payload bytes compared
   lexicographically).  Decision-table style: one initial state per ordered triple of packets,
   no steps; the invariants state that the relation is a strict total order on (ts, pl), i.e.
   that "newest" is well defined whatever the arrival order; Emit prints the expected answer for
   every ordered pair, which the harness compares with the real method on real packets
   (vh_dns c32, case kind "order").                                                          *)
EXTENDS Naturals, TLC, Json
CONSTANTS Ranks            \* e.g. 1..3 for both timestamp and payload
VARIABLES a, b, c
vars == <<a, b, c>>
Pkts == [ts : Ranks, pl : Ranks]

Newer(p, q) == IF p.ts = q.ts THEN p.pl > q.pl ELSE p.ts > q.ts

Init == a \in Pkts /\ b \in Pkts /\ c \in Pkts
Spec == Init /\ [][UNCHANGED vars]_vars

Irreflexive == ~Newer(a, a)
Asymmetric  == Newer(a, b) => ~Newer(b, a)
Total       == a # b => Newer(a, b) \/ Newer(b, a)
Transitive  == Newer(a, b) /\ Newer(b, c) => Newer(a, c)
\* a later timestamp always wins, whatever the payloads
TimestampDominates == a.ts > b.ts => Newer(a, b)

Emit == c = a => PrintT(<<"REPLAY", ToJson([a |-> a, b |-> b, newer |-> Newer(a, b)])>>)
=============================================================================
