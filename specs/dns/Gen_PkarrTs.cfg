SPECIFICATION GenSpec
INVARIANT Emit
CHECK_DEADLOCK FALSE
CONSTANTS
  Strict = TRUE
