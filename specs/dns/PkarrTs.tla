------------------------------ MODULE PkarrTs ------------------------------
(* C33 — iroh_dns::pkarr::Timestamp::now() (iroh-dns/src/pkarr.rs).

     let micros = SystemTime::now() ... as_micros();                    Begin(t): read the wall clock
     let mut last = LAST_TIMESTAMP.load(Relaxed);                       Load(t)
     loop {
         let next = micros.max(last + 1);
         match LAST_TIMESTAMP.compare_exchange_weak(last, next, ..) {   Cas(t)
             Ok(_) => return Self(next),                                   success: LAST = next, return
             Err(actual) => last = actual,                                 failure: remember, retry
         }
     }

   Threads call now() concurrently; every wall-clock reading is arbitrary (the clock may stand
   still or jump backwards between and during calls).  A weak compare-exchange may also fail
   spuriously; that only adds stuttering retries and is not modelled.
   Strict = TRUE is the code (`last + 1`); Strict = FALSE is the mutant `micros.max(last)`,
   used to show that the invariants bite.

   `rets` is the history of finished calls: thread, value, clock reading, and the global sequence numbers of
   the call's start and end (the harness brackets every real call the same way).

   Lin(t) is the call as one atomic step (read LAST and publish max(micros, LAST + 1)).  Every
   behaviour of Begin/Load/Cas is equivalent to one in which a call's last load directly precedes
   its successful compare-exchange (loads and failed exchanges do not write shared state, and
   the exchange succeeds only if LAST still has the loaded value), i.e. to a behaviour of
   Begin/Lin: AtomicSpec is what the trace specification Trace_PkarrTs uses for its hidden
   linearization step, and MC checks the same invariants for both.                          *)
EXTENDS Naturals, Sequences, FiniteSets, TLC
CONSTANTS Threads, Calls, Clock,
          Strict      \* TRUE: next = max(micros, last + 1); FALSE: mutant max(micros, last)
VARIABLES LAST, pc, micros, last, ncalls, rets, started, seqno
vars == <<LAST, pc, micros, last, ncalls, rets, started, seqno>>

Max(a, b) == IF a > b THEN a ELSE b
NextVal(m, l) == Max(m, IF Strict THEN l + 1 ELSE l)

Init == /\ LAST = 0 /\ pc = [t \in Threads |-> "idle"] /\ micros = [t \in Threads |-> 0]
        /\ last = [t \in Threads |-> 0] /\ ncalls = [t \in Threads |-> 0]
        /\ rets = <<>> /\ started = [t \in Threads |-> 0] /\ seqno = 0

Begin(t, c) == /\ pc[t] = "idle" /\ ncalls[t] < Calls
               /\ micros' = [micros EXCEPT ![t] = c]              \* the wall clock may go backwards
               /\ seqno' = seqno + 1 /\ started' = [started EXCEPT ![t] = seqno + 1]
               /\ pc' = [pc EXCEPT ![t] = "load"]
               /\ UNCHANGED <<LAST, last, ncalls, rets>>

Load(t) == /\ pc[t] = "load"
           /\ last' = [last EXCEPT ![t] = LAST] /\ pc' = [pc EXCEPT ![t] = "cas"]
           /\ UNCHANGED <<LAST, micros, ncalls, rets, started, seqno>>

Finished(t, v) == /\ pc' = [pc EXCEPT ![t] = "idle"] /\ ncalls' = [ncalls EXCEPT ![t] = @ + 1]
                  /\ seqno' = seqno + 1
                  /\ rets' = Append(rets, [t |-> t, v |-> v, c |-> micros[t], s |-> started[t], e |-> seqno + 1])

Cas(t) == /\ pc[t] = "cas"
          /\ LET next == NextVal(micros[t], last[t]) IN
             IF LAST = last[t]
                THEN LAST' = next /\ Finished(t, next) /\ UNCHANGED last
                ELSE last' = [last EXCEPT ![t] = LAST] /\ UNCHANGED <<LAST, pc, ncalls, rets, seqno>>
          /\ UNCHANGED <<micros, started>>

\* the whole loop as one step: the linearization point of a call
Lin(t) == /\ pc[t] = "load"
          /\ LET next == NextVal(micros[t], LAST) IN LAST' = next /\ Finished(t, next)
          /\ UNCHANGED <<micros, last, started>>

BeginSome == \E t \in Threads : \E c \in Clock : Begin(t, c)
LoadSome  == \E t \in Threads : Load(t)
CasSome   == \E t \in Threads : Cas(t)
LinSome   == \E t \in Threads : Lin(t)
Next == BeginSome \/ LoadSome \/ CasSome
Spec == Init /\ [][Next]_vars
AtomicNext == BeginSome \/ LinSome
AtomicSpec == Init /\ [][AtomicNext]_vars

----------------------------------------------------------------------------
(* C33: every generated timestamp is strictly greater than every timestamp generated before it *)
\* no value is handed out twice
Distinct == \A i, j \in 1..Len(rets) : i # j => rets[i].v # rets[j].v
\* a call that started after another one had returned got a greater value
RealTimeOrder == \A i, j \in 1..Len(rets) : rets[i].e < rets[j].s => rets[i].v < rets[j].v
\* values strictly increase in the order in which calls take effect (rets is in that order)
CasOrder == \A i, j \in 1..Len(rets) : i < j => rets[i].v < rets[j].v
\* a timestamp is never behind the wall-clock reading of its own call
NotBehindClock == \A i \in 1..Len(rets) : rets[i].v >= rets[i].c
\* LAST is the greatest value handed out
LastIsMax == \A i \in 1..Len(rets) : rets[i].v <= LAST
=============================================================================
