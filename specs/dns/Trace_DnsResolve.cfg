SPECIFICATION TSpec
INVARIANT NoPanic StartsWithinTolerance NoneSkipped ResultRule ReturnsAtFirstSuccess CallsMatchStarts
POSTCONDITION Accepted
CHECK_DEADLOCK FALSE
CONSTANTS
  JitterPct = 20
  U64Max = 20000000
  GuardZeroJitter = TRUE
  ExactJitter = FALSE
  Timeout = 12
  TxtTimeout = 3000
  Scenarios = {}
  MaxT = 0
