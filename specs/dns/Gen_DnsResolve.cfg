SPECIFICATION GenSpec
INVARIANT Emit
CHECK_DEADLOCK FALSE
CONSTANTS
  JitterPct = 20
  Scenarios <- MC_Scenarios
  U64Max = 20000000
  GuardZeroJitter = TRUE
  ExactJitter = FALSE
  Timeout = 12
  TxtTimeout = 3000
  MaxT = 0
