--------------------------- MODULE Trace_PkarrTs ---------------------------
(* Trace validation for C33: real threads calling iroh_dns::pkarr::Timestamp::now()
   (harness/src/bin/vh_dns.rs c33) against PkarrTs.

   Every call is bracketed by a harness-side global sequence counter: `begin` (taken before the
   call) and `end` (taken after it returned), the trace is ordered by that counter.  Between
   the two, the call takes effect in one hidden linearization step Lin(t) (see PkarrTs: the
   atomic form of Load/Cas).  Values are relative to the run's base (the value of LAST when the
   run started = 0 in the model).  A `begin` carries the wall-clock reading the harness forced
   through the VERIF_CLOCK hook (`known`), or, for calls on the real system clock, no reading:
   then the most permissive one (the returned value itself) is assumed, which leaves exactly
   the requirement "strictly greater than everything generated before".  `v` (the value the call
   went on to return, copied onto its `begin` when the trace is written) only prunes the search.

   The trace is accepted iff hidden steps can be placed so that every call returns what the
   model computes: i.e. iff there is a linearization, consistent with the observed real-time
   order, in which every value is max(clock reading, previous value + 1).  `rets` holds the
   calls that have taken effect and whose `end` has not been consumed yet.                    *)
EXTENDS PkarrTs, Json, IOUtils, TLCExt
Rec == ndJsonDeserialize(IOEnv.TRACE)
VARIABLES l, want
tvars == <<vars, l, want>>

Progress(n) == TLCSet(7, IF TLCGet(7) > n THEN TLCGet(7) ELSE n)
IsEvent(e) == l <= Len(Rec) /\ Rec[l].ev = e /\ l' = l + 1
Consumed == Progress(l + 1)     \* last conjunct of every visible action: the event has been explained

TInit == Init /\ l = 1 /\ want = [t \in Threads |-> 0] /\ TLCSet(7, 1)

\* a new run: every thread is idle; LAST is the new base
TReset == /\ IsEvent("reset")
          /\ \A t \in Threads : pc[t] = "idle"
          /\ LAST' = 0 /\ ncalls' = [t \in Threads |-> 0] /\ rets' = <<>> /\ seqno' = 0
          /\ UNCHANGED <<pc, micros, last, started, want>>
          /\ Consumed

TBegin == /\ IsEvent("begin")
          /\ Rec[l].t \in Threads
          /\ Begin(Rec[l].t, IF Rec[l].known THEN Rec[l].clock ELSE Rec[l].v)
          /\ want' = [want EXCEPT ![Rec[l].t] = Rec[l].v]
          /\ Consumed

\* hidden: the call in flight on t takes effect
TLin == /\ l <= Len(Rec)
        /\ \E t \in Threads : /\ pc[t] = "load" /\ NextVal(micros[t], LAST) = want[t]
                              /\ Lin(t)
        /\ UNCHANGED <<l, want>>

\* the call returned Rec[l].v: it has taken effect with exactly that value
TEnd == /\ IsEvent("end")
        /\ \E i \in 1..Len(rets) :
              /\ rets[i].t = Rec[l].t /\ rets[i].v = Rec[l].v
              /\ rets' = SubSeq(rets, 1, i - 1) \o SubSeq(rets, i + 1, Len(rets))
        /\ UNCHANGED <<LAST, pc, micros, last, ncalls, started, seqno, want>>
        /\ Consumed

TNext == TReset \/ TBegin \/ TLin \/ TEnd
TSpec == TInit /\ [][TNext]_tvars

Accepted == LET m == TLCGet(7) IN
            IF m = Len(Rec) + 1 THEN TRUE
            ELSE Print(<<"TRACE-REJECTED at event", m, IF m <= Len(Rec) THEN Rec[m] ELSE "eof">>, FALSE)
=============================================================================
