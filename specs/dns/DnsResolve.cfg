SPECIFICATION Spec
INVARIANT NoPanic WindowsWithinTolerance StartsWithinTolerance NoneSkipped ResultRule ReturnsAtFirstSuccess CallsMatchStarts TypeOK
CHECK_DEADLOCK FALSE
CONSTANTS
  JitterPct = 20
  ExactJitter = TRUE
  Timeout = 12
  TxtTimeout = 3000
  MaxT = 5000
  Scenarios <- MC_Scenarios
