SPECIFICATION Spec
INVARIANT RoundTrip FilterRespected OrderKept ParseInvertsFormat UserDataFits TxtLimit OneCharString Total Emit
CHECK_DEADLOCK FALSE
CONSTANTS
  Classes = {"a", "sp", "cm", "dq", "nl", "u"}
  Targets = {244, 245, 246}
  MaxUserData = 245
  MaxTxt = 255
  MaxPacket = 1000
  NameLen = 60
  ChunkAt = 0
  Pool <- MC_Pool
  UdSample <- MC_UdSample
  Foreign <- MC_Foreign
  Filters = {"none", "relay_only", "ip_only"}
  AddrLists <- MC_AddrListsQuick
  FewLists <- MC_FewListsQuick
