SPECIFICATION TSpec
INVARIANT Distinct CasOrder NotBehindClock LastIsMax
POSTCONDITION Accepted
CHECK_DEADLOCK FALSE
CONSTANTS
  Threads = {"t1", "t2", "t3", "t4", "t5", "t6", "t7", "t8"}
  Calls = 100000000
  Clock = {0}
  Strict = TRUE
