---------------------------- MODULE EndpointInfo ----------------------------
(* C31 — publishing and resolving endpoint info preserves it.

   Models iroh-dns/src/endpoint_info.rs and iroh-dns/src/attrs.rs (plus the size rules of
   iroh-dns/src/pkarr.rs `SignedPacket::from_txt_strings`):

     New            EndpointData::new (dedup, order kept) + UserData::try_from (<= 245 bytes)
                    + EndpointData::apply_filter (AddrFilter::{unfiltered, relay_only, ip_only};
                    what address-lookup services do before they publish; user data is kept)
     PublishPacket  EndpointInfo::to_pkarr_signed_packet  = endpoint_info_to_attrs;
                    TxtAttrs::to_txt_strings (BTreeMap order relay < addr < user-data);
                    SignedPacket::from_txt_strings (one TXT record per string; each string
                    <= 255 bytes, compressed DNS packet <= 1000 bytes, else error)
     PublishDns     the same packet, but resolved through DNS: iroh-dns-server serves the TXT
                    records of the packet's DNS message unchanged, the resolver wraps every TXT
                    answer in dns::TxtRecordData and EndpointInfo::from_txt_lookup renders it
                    character-string by character-string (String::from_utf8_lossy on each,
                    then concatenated)
     PublishTxt     EndpointInfo::to_txt_strings (same strings, no size rule) — what a DNS
                    server hands out as TXT answers
     Resolve        EndpointInfo::from_pkarr_signed_packet / from_txt_lookup
                    = TxtAttrs::from_strings (split every string into key and value;
                    unknown key or missing "=" fails the whole lookup) ;
                    endpoint_info_from_attrs (relay values that parse as URLs, addr values that
                    parse as socket or custom addresses, first user-data value; dedup)
     ResolveForeign the same parser on TXT strings that were *not* produced by Format
                    (totality / error classes of the parser; growth beyond C31)

   Strings are sequences of *runs* [c |-> class, n |-> bytes]: class "=" is the single
   character "=" (n = 1); the classes in `Classes` stand for characters that are not "="
   ("a" plain ASCII, "sp" space, "cm" comma, "dq" double quote, "nl" newline, "u" a two-byte
   UTF-8 character, n = 2); an attribute key is one run whose class is the key name.  Only
   "a" runs are stretched (n > 1), which lets a three-run pattern stand for a 245-byte
   string.  Concretisation (checks/c31.py) is a homomorphism on runs, so the value the spec
   expects back maps to exactly one concrete string.

   On the wire a TXT record is a sequence of *character-strings* of at most 255 bytes each
   (`wire`).  The required design writes every attribute string as ONE character-string
   (`ChunkAt = 0`: TXT::new + add_string; a string over 255 bytes does not encode).  A
   publisher that cuts the bytes every `ChunkAt` bytes into several character-strings
   (`ChunkAt = 254`: simple_dns `TXT::try_from(&str)`) still round-trips for readers that
   concatenate the bytes first (Resolve of a packet), but not through DNS: a 2-byte character
   cut in the middle (runs "uh1" | "uh2") is decoded per character-string into two U+FFFD
   (run "fffd", 3 bytes each) — that variant is refuted on RoundTrip.

   The one place where the design the property needs and the pinned code differ is the
   key/value split: `SplitOnce = TRUE` splits at the FIRST "=" (str::split_once — required:
   then Parse(Format(k, v)) = <<k, v>> for every v); `SplitOnce = FALSE` is the code as
   written (`s.split('=')`, key = 1st piece, value = 2nd piece, the rest is dropped). *)
EXTENDS Naturals, Sequences, FiniteSets, TLC, Json

CONSTANTS Classes,      \* character classes other than "=" used in user data
          MaxRuns,      \* user-data patterns have at most this many runs
          Targets,      \* byte lengths to which a pattern with an "a" run is stretched
          UdSample,     \* a few user-data values combined with every address list
          AddrLists,    \* the address lists explored (sequences over Pool; duplicates allowed)
          FewLists,     \* address lists combined with every user-data value
          Pool,         \* all addresses: [kind, tag, form]
          Foreign,      \* TXT string lists not produced by Format (ResolveForeign)
          Filters,      \* address filters applied before publishing: subset of {"none", "relay_only", "ip_only"}
          MaxUserData, MaxTxt, MaxPacket, NameLen,
          ChunkAt,      \* 0: one character-string per attribute string (required); k > 0: cut every k bytes
          SplitOnce

VARIABLES pc,        \* "new" -> "start" -> "wire" -> "done"
          input,     \* [addrs: Seq(Address), ud: [some, s], filter] as handed to the constructors
          info,      \* the EndpointInfo built from it: [addrs, ud]
          via,       \* "none" | "packet" | "dns" | "txt" | "foreign"
          txt,       \* the attribute strings published
          wire,      \* packet paths: per TXT record its character-strings (Seq of Seq of strings)
          out        \* [st: "none"|"ok"|"err"|"unencodable"|"invalid", why, addrs, ud]
vars == <<pc, input, info, via, txt, wire, out>>

Keys == {"relay", "addr", "user-data"}            \* IrohAttr, kebab-case
KeyLen(k) == CASE k = "relay" -> 5 [] k = "addr" -> 4 [] k = "user-data" -> 9 [] OTHER -> 3
Eq == [c |-> "=", n |-> 1]
NoUd == [some |-> FALSE, s |-> <<>>]
NoOut == [st |-> "none", why |-> "", addrs |-> <<>>, ud |-> NoUd]

---------------------------------------------------------------------------
(* strings *)
RECURSIVE Bytes(_)
Bytes(s) == IF s = <<>> THEN 0 ELSE Head(s).n + Bytes(Tail(s))
NatLen(c) == IF c = "u" THEN 2 ELSE 1
AllClasses == Classes \cup {"="}
Patterns == UNION { [1..n -> AllClasses] : n \in 0..MaxRuns }
\* adjacent "a" runs are one run: skip them
Normal(p) == \A i \in 1..(Len(p) - 1) : ~(p[i] = "a" /\ p[i + 1] = "a")
Natural(p) == [i \in 1..Len(p) |-> [c |-> p[i], n |-> NatLen(p[i])]]
FirstA(p) == IF \E i \in 1..Len(p) : p[i] = "a" THEN CHOOSE i \in 1..Len(p) : p[i] = "a" /\ \A j \in 1..(i - 1) : p[j] # "a" ELSE 0
Stretched(p, L) == LET s == Natural(p) i == FirstA(p) IN [s EXCEPT ![i].n = 1 + (L - Bytes(s))]
UserDataStrings ==
  { Natural(p) : p \in {q \in Patterns : Normal(q)} }
  \cup { Stretched(p, L) : <<p, L>> \in { <<q, M>> \in {q \in Patterns : Normal(q)} \X Targets : FirstA(q) # 0 /\ M > Bytes(Natural(q)) } }

Format(k, v) == <<[c |-> k, n |-> KeyLen(k)], Eq>> \o v

EqAt(s) == { i \in 1..Len(s) : s[i].c = "=" }
Min(S) == CHOOSE x \in S : \A y \in S : x <= y
\* required design: split at the first "="
ParseOnce(s) == IF EqAt(s) = {} THEN [ok |-> FALSE, key |-> <<>>, val |-> <<>>]
                ELSE LET i == Min(EqAt(s)) IN [ok |-> TRUE, key |-> SubSeq(s, 1, i - 1), val |-> SubSeq(s, i + 1, Len(s))]
\* code as written: s.split('=') ; key = first piece, value = second piece
ParseSplit(s) == IF EqAt(s) = {} THEN [ok |-> FALSE, key |-> <<>>, val |-> <<>>]
                 ELSE LET i == Min(EqAt(s))
                          rest == { j \in EqAt(s) : j > i }
                          e == IF rest = {} THEN Len(s) ELSE Min(rest) - 1
                      IN [ok |-> TRUE, key |-> SubSeq(s, 1, i - 1), val |-> SubSeq(s, i + 1, e)]
Parse(s) == IF SplitOnce THEN ParseOnce(s) ELSE ParseSplit(s)
KeyOf(ks) == IF Len(ks) = 1 /\ ks[1].c \in Keys /\ ks[1].n = KeyLen(ks[1].c) THEN ks[1].c ELSE "?"

---------------------------------------------------------------------------
(* EndpointData::new / add_addrs: duplicates removed, first occurrence kept *)
RECURSIVE Dedup(_, _)
Dedup(seq, seen) == IF seq = <<>> THEN <<>>
                    ELSE IF Head(seq) \in seen THEN Dedup(Tail(seq), seen)
                    ELSE <<Head(seq)>> \o Dedup(Tail(seq), seen \cup {Head(seq)})
Range(f) == { f[i] : i \in DOMAIN f }

\* AddrFilter::apply: relay_only keeps relay URLs; ip_only keeps everything that is no relay URL (IP *and* custom)
ApplyFilter(f, addrs) == CASE f = "relay_only" -> SelectSeq(addrs, LAMBDA a : a.kind = "relay")
                           [] f = "ip_only" -> SelectSeq(addrs, LAMBDA a : a.kind # "relay")
                           [] OTHER -> addrs

\* endpoint_info_to_attrs + BTreeMap<IrohAttr, Vec<String>> order + to_txt_strings
IsRelay(a) == a.kind = "relay"
NotRelay(a) == a.kind # "relay"
AddrTxt(a) == Format(IF a.kind = "relay" THEN "relay" ELSE "addr", a.form)
ToTxt(i) == LET rel == SelectSeq(i.addrs, IsRelay)
                oth == SelectSeq(i.addrs, NotRelay)
            IN [j \in 1..Len(rel) |-> AddrTxt(rel[j])] \o [j \in 1..Len(oth) |-> AddrTxt(oth[j])]
               \o (IF i.ud.some THEN <<Format("user-data", i.ud.s)>> ELSE <<>>)

RECURSIVE Flat(_)
Flat(ss) == IF ss = <<>> THEN <<>> ELSE Head(ss) \o Flat(Tail(ss))
\* ---- character-strings
\* the first k bytes of a string / the rest; a 2-byte character cut in the middle leaves two halves
SplitRun(r, k) == IF r.c = "u" THEN << [c |-> "uh1", n |-> 1], [c |-> "uh2", n |-> 1] >>
                  ELSE << [c |-> r.c, n |-> k], [c |-> r.c, n |-> r.n - k] >>
RECURSIVE TakeBytes(_, _), DropBytes(_, _), Chunks(_, _), Merge(_)
TakeBytes(s, k) == IF s = <<>> \/ k = 0 THEN <<>>
                   ELSE IF Head(s).n <= k THEN <<Head(s)>> \o TakeBytes(Tail(s), k - Head(s).n)
                   ELSE <<SplitRun(Head(s), k)[1]>>
DropBytes(s, k) == IF s = <<>> \/ k = 0 THEN s
                   ELSE IF Head(s).n <= k THEN DropBytes(Tail(s), k - Head(s).n)
                   ELSE <<SplitRun(Head(s), k)[2]>> \o Tail(s)
Chunks(s, k) == IF Bytes(s) <= k THEN <<s>> ELSE <<TakeBytes(s, k)>> \o Chunks(DropBytes(s, k), k)
\* SignedPacket::from_txt_strings: the character-strings of the TXT record written for one attribute string
CharStrings(s) == IF ChunkAt = 0 THEN <<s>> ELSE Chunks(s, ChunkAt)
\* bytes put together again: adjacent plain runs are one run, the two halves of a character are the character
Merge(s) == IF Len(s) < 2 THEN s
            ELSE IF s[1].c = "a" /\ s[2].c = "a" THEN Merge(<<[c |-> "a", n |-> s[1].n + s[2].n]>> \o SubSeq(s, 3, Len(s)))
            ELSE IF s[1].c = "uh1" /\ s[2].c = "uh2" THEN <<[c |-> "u", n |-> 2]>> \o Merge(SubSeq(s, 3, Len(s)))
            ELSE <<s[1]>> \o Merge(Tail(s))
\* SignedPacket::txt_records: all bytes of the record, then UTF-8
Joined(rec) == Merge(Flat(rec))
\* TxtRecordData's Display: String::from_utf8_lossy on every character-string, then concatenated
Lossy(cs) == [j \in 1..Len(cs) |-> IF cs[j].c \in {"uh1", "uh2"} THEN [c |-> "fffd", n |-> 3] ELSE cs[j]]
DnsText(rec) == Merge(Flat([j \in 1..Len(rec) |-> Lossy(rec[j])]))

\* SignedPacket::from_txt_strings: one TXT RR per attribute string; first owner name in full, later
\* ones as 2-byte compression pointers; RR = name + 10 + (1 + bytes) per character-string; header 12
RECURSIVE SumCs(_), SumRR(_)
SumCs(rec) == IF rec = <<>> THEN 0 ELSE 1 + Bytes(Head(rec)) + SumCs(Tail(rec))
SumRR(w) == IF w = <<>> THEN 0 ELSE 10 + SumCs(Head(w)) + SumRR(Tail(w))
PacketLen(w) == IF w = <<>> THEN 12 ELSE 12 + NameLen + 2 * (Len(w) - 1) + SumRR(w)
CsTooLong(w) == \E j \in 1..Len(w) : \E i \in 1..Len(w[j]) : Bytes(w[j][i]) > MaxTxt
Fits(w) == ~CsTooLong(w) /\ PacketLen(w) <= MaxPacket
WireOf(ts) == [j \in 1..Len(ts) |-> CharStrings(ts[j])]

\* value -> address (Url::parse / SocketAddr::from_str / CustomAddr::from_str): the pool
\* address with this text; a text that is no pool address but starts like one is some
\* *other* valid address of that kind (tag "other"); anything else does not parse
Known(kinds, v) == { a \in Pool : a.kind \in kinds /\ a.form = v }
LooksValid(v) == v # <<>> /\ v[1].c = "a"
ParseAddr(kinds, v) ==
  IF Known(kinds, v) # {} THEN <<CHOOSE a \in Known(kinds, v) : TRUE>>
  ELSE IF LooksValid(v) /\ "relay" \in kinds THEN <<[kind |-> "relay", tag |-> "other", form |-> v]>>
  ELSE <<>>
\* TxtAttrs::from_strings + endpoint_info_from_attrs
FromTxt(ts) ==
  LET p == [j \in 1..Len(ts) |-> Parse(ts[j])]
      bad == { j \in 1..Len(ts) : ~p[j].ok }
      unk == { j \in 1..Len(ts) : p[j].ok /\ KeyOf(p[j].key) = "?" }
      firstErr == Min(bad \cup unk)
      ValsOf(k) == LET idx == SelectSeq([j \in 1..Len(ts) |-> j], LAMBDA j : KeyOf(p[j].key) = k)
                   IN [j \in 1..Len(idx) |-> p[idx[j]].val]
      rel == Flat([j \in 1..Len(ValsOf("relay")) |-> ParseAddr({"relay"}, ValsOf("relay")[j])])
      oth == Flat([j \in 1..Len(ValsOf("addr")) |-> ParseAddr({"ip", "custom"}, ValsOf("addr")[j])])
      uds == ValsOf("user-data")
      ud == IF uds # <<>> /\ Bytes(uds[1]) <= MaxUserData THEN [some |-> TRUE, s |-> uds[1]] ELSE NoUd
  IN IF bad \cup unk # {}
       THEN [st |-> "err", why |-> IF firstErr \in bad THEN "UnexpectedFormat" ELSE "AttrFromString", addrs |-> <<>>, ud |-> NoUd]
       ELSE [st |-> "ok", why |-> "", addrs |-> Dedup(rel \o oth, {}), ud |-> ud]

---------------------------------------------------------------------------
Cases == (AddrLists \X ({NoUd} \cup { [some |-> TRUE, s |-> s] : s \in UdSample }))
         \cup (FewLists \X { [some |-> TRUE, s |-> s] : s \in UserDataStrings })

\* a filter other than "none" is combined with every address list, but only with the sampled user data
FilterCases == AddrLists \X ({NoUd} \cup { [some |-> TRUE, s |-> s] : s \in UdSample })
Init == /\ pc = "new" /\ via = "none" /\ txt = <<>> /\ wire = <<>> /\ out = NoOut
        /\ info = [addrs |-> <<>>, ud |-> NoUd]
        /\ \/ \E c \in Cases : input = [addrs |-> c[1], ud |-> c[2], filter |-> "none"]
           \/ \E c \in FilterCases : \E f \in Filters \ {"none"} : input = [addrs |-> c[1], ud |-> c[2], filter |-> f]
           \/ input = [addrs |-> <<>>, ud |-> NoUd, filter |-> "none"]

\* EndpointData::new(addrs).with_user_data(UserData::try_from(s)?)
New == /\ pc = "new"
       /\ IF input.ud.some /\ Bytes(input.ud.s) > MaxUserData
            THEN /\ pc' = "done" /\ out' = [NoOut EXCEPT !.st = "invalid", !.why = "MaxLengthExceeded"]
                 /\ UNCHANGED info
            ELSE /\ pc' = "start" /\ info' = [addrs |-> ApplyFilter(input.filter, Dedup(input.addrs, {})), ud |-> input.ud]
                 /\ UNCHANGED out
       /\ UNCHANGED <<input, via, txt, wire>>

Encode(v) == /\ pc = "start" /\ via' = v /\ txt' = ToTxt(info) /\ wire' = WireOf(ToTxt(info))
             /\ IF Fits(WireOf(ToTxt(info)))
                  THEN pc' = "wire" /\ UNCHANGED out
                  ELSE pc' = "done" /\ out' = [NoOut EXCEPT !.st = "unencodable",
                          !.why = IF CsTooLong(WireOf(ToTxt(info))) THEN "DnsError" ELSE "PacketTooLarge"]
             /\ UNCHANGED <<input, info>>
PublishPacket == Encode("packet")
PublishDns == Encode("dns")

PublishTxt == /\ pc = "start" /\ via' = "txt" /\ txt' = ToTxt(info) /\ pc' = "wire"
              /\ UNCHANGED <<input, info, out, wire>>

\* what the resolver parses: the joined bytes of every record (packet), every record rendered
\* character-string by character-string (dns), or the strings themselves
Received == CASE via = "packet" -> [j \in 1..Len(wire) |-> Joined(wire[j])]
              [] via = "dns" -> [j \in 1..Len(wire) |-> DnsText(wire[j])]
              [] OTHER -> txt
Resolve == /\ pc = "wire" /\ out' = FromTxt(Received) /\ pc' = "done"
           /\ UNCHANGED <<input, info, via, txt, wire>>

\* a resolver is handed TXT strings that no publisher of this code produced
ResolveForeign == /\ pc = "new" /\ input.addrs = <<>> /\ ~input.ud.some /\ input.filter = "none"
                  /\ \E f \in Foreign : txt' = f
                  /\ via' = "foreign" /\ pc' = "wire" /\ UNCHANGED <<input, info, out, wire>>

Next == New \/ PublishPacket \/ PublishDns \/ PublishTxt \/ Resolve \/ ResolveForeign
Spec == Init /\ [][Next]_vars

---------------------------------------------------------------------------
(* C31 *)
Published == pc = "done" /\ via \in {"packet", "dns", "txt"} /\ out.st # "unencodable"
\* the same set of addresses and the same user data come back, and resolving never fails
RoundTrip == Published => /\ out.st = "ok"
                          /\ Range(out.addrs) = Range(info.addrs)
                          /\ out.ud = info.ud
\* stronger than the property (a conformance observable): relays first, then the others, each in publishing order
OrderKept == Published /\ out.st = "ok" =>
               out.addrs = SelectSeq(info.addrs, IsRelay) \o SelectSeq(info.addrs, NotRelay)
\* the algebraic core: Parse inverts Format for every key and every value (incl. values with "=")
\* (a statement about constants: evaluated in the one state where nothing has happened yet)
ParseInvertsFormat == (pc = "new" /\ input.addrs = <<>> /\ ~input.ud.some /\ input.filter = "none") =>
                        \A k \in Keys : \A v \in UserDataStrings :
                           LET r == Parse(Format(k, v)) IN r.ok /\ KeyOf(r.key) = k /\ r.val = v
\* every valid user data fits one TXT string; the publisher never emits an unparsable string
UserDataFits == pc = "wire" /\ via # "foreign" => \A j \in 1..Len(txt) : EqAt(txt[j]) # {} /\ KeyOf(<<txt[j][1]>>) # "?"
TxtLimit == pc = "wire" /\ via \in {"packet", "dns"} => ~CsTooLong(wire)
\* required design: one character-string per attribute string, carrying exactly its bytes
OneCharString == ChunkAt = 0 /\ pc = "wire" /\ via \in {"packet", "dns"} =>
                   /\ Len(wire) = Len(txt) /\ \A j \in 1..Len(wire) : wire[j] = <<txt[j]>>
\* the parser is total: every TXT list gets a verdict
Total == pc = "done" => out.st \in {"ok", "err", "unencodable", "invalid"}

\* one REPLAY line per finished case with everything the harness must observe
\* filtering: nothing the filter removes is ever published, and everything it keeps comes back
FilterRespected == pc \in {"wire", "done"} /\ via \in {"packet", "dns", "txt"} =>
                     /\ input.filter = "relay_only" => \A j \in 1..Len(txt) : txt[j][1].c # "addr"
                     /\ input.filter = "ip_only" => \A j \in 1..Len(txt) : txt[j][1].c # "relay"
                     /\ Range(info.addrs) = { a \in Range(input.addrs) : \/ input.filter = "none"
                                                                        \/ (input.filter = "relay_only" /\ a.kind = "relay")
                                                                        \/ (input.filter = "ip_only" /\ a.kind # "relay") }

Emit == pc = "done" =>
  PrintT(<<"REPLAY", ToJson([via |-> via, addrs |-> input.addrs, filter |-> input.filter, ud |-> input.ud, txt |-> txt,
                             info |-> info,
                             cs |-> [j \in 1..Len(wire) |-> [i \in 1..Len(wire[j]) |-> Bytes(wire[j][i])]],
                             pktlen |-> IF via \in {"packet", "dns"} THEN PacketLen(wire) ELSE 0, out |-> out])>>)
=============================================================================
