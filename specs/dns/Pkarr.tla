------------------------------- MODULE Pkarr -------------------------------
(* C32 — iroh_dns::pkarr::SignedPacket (iroh-dns/src/pkarr.rs), symbolic packet model.

   Wire format `<32 key><64 signature><8 timestamp><DNS payload>`.  A packet is the record
   [len, key, sig, ts, pl] of field *classes*; cryptography is symbolic (Dolev-Yao): a signature
   is the term [k, ts, pl] "signature by k's secret key over signable(ts, pl)" or Garbage, and
   it verifies iff it is the term for exactly the packet's key, timestamp and payload.
     len   "short" (< 104 bytes) | "ok" | "long" (> 1104 bytes)
     key   "k1" (honest publisher) | "k2" (key the adversary owns) | "kx" (some other curve point)
           | "weak" (small-order point: decodes, nothing verifies under verify_strict)
           | "np" (32 bytes that are not a curve point)
     ts    "t1" | "t2" | "tx" (any other value)
     pl    "p1" | "p2" | "px" (any other payload that parses as a DNS packet) | "junk" (does not parse)

   Actions
     Publish(ts, pl)   the honest endpoint signs a packet (SignedPacket::from_txt_strings)
     Compose(p)        the network offers any packet it can build: arbitrary field values, but a
                       signature only if it is garbage, made with its own key k2, or copied from
                       a published packet
     Offer(c)          one of the four public constructors is applied to the offered bytes:
                       from_bytes, from_relay_payload (key given as a PublicKey),
                       from_bytes_unchecked, from_parts_unchecked
     InspectAll        every accessor / Display / Debug is applied to the accepted value
   The constructors follow the code's checks in order (length, key, signature, DNS parse; the
   unchecked ones skip key and signature).  UncheckedValidatesKey = FALSE is the code as
   written: the unchecked constructors accept non-point key bytes, and `public_key()`,
   `txt_records`, `all_txt_records`, Display and Debug then panic on
   `PublicKey::try_from(..).expect("valid public key in SignedPacket")`.  TRUE is the design the
   property requires (every obtainable value is safe to inspect).                            *)
EXTENDS Naturals, FiniteSets, Sequences, TLC, Json

CONSTANTS UncheckedValidatesKey,   \* TRUE: required design; FALSE: code as written
          MaxPublish               \* number of packets the honest endpoint publishes

Keys  == {"k1", "k2", "kx", "weak", "np"}
Tss   == {"t1", "t2", "tx"}
Pls   == {"p1", "p2", "px", "junk"}
Lens  == {"short", "ok", "long"}
Garbage  == [k |-> "none", ts |-> "none", pl |-> "none"]
SigTerms == [k : {"k1", "k2"}, ts : {"t1", "t2"}, pl : Pls] \cup {Garbage}
Packets  == [len : Lens, key : Keys, sig : SigTerms, ts : Tss, pl : Pls]
NoPacket == [len |-> "none", key |-> "none", sig |-> Garbage, ts |-> "none", pl |-> "none"]

Ctors     == {"from_bytes", "from_relay_payload", "from_bytes_unchecked", "from_parts_unchecked"}
Checked   == {"from_bytes", "from_relay_payload"}
Accessors == {"public_key", "signature", "timestamp", "encoded_packet", "as_bytes", "to_relay_payload",
              "txt_records", "all_txt_records", "display", "debug", "more_recent_than", "clone_eq"}
KeyAccessors == {"public_key", "txt_records", "all_txt_records", "display", "debug"}   \* decode bytes[..32]

IsPoint(k)  == k # "np"
Parses(pl)  == pl # "junk"
Verifies(p) == p.key \in {"k1", "k2"} /\ p.sig = [k |-> p.key, ts |-> p.ts, pl |-> p.pl]
Authentic(p) == p.len = "ok" /\ IsPoint(p.key) /\ Verifies(p) /\ Parses(p.pl)

VARIABLES signed,   \* {[ts, pl]} published by the honest endpoint k1
          cur,      \* the packet offered
          res,      \* [ctor, out]: result of the constructor ("none" before the call)
          insp      \* accessor -> "ok" | "panic" | "-" (not inspected)
vars == <<signed, cur, res, insp>>

NotInspected == [a \in Accessors |-> "-"]
Init == signed = {} /\ cur = NoPacket /\ res = [ctor |-> "none", out |-> "none"] /\ insp = NotInspected

Publish(ts, pl) == /\ cur = NoPacket /\ Cardinality(signed) < MaxPublish
                   /\ signed' = signed \cup {[ts |-> ts, pl |-> pl]}
                   /\ UNCHANGED <<cur, res, insp>>

Knows(s) == \/ s = Garbage
            \/ s.k = "k2"
            \/ s.k = "k1" /\ [ts |-> s.ts, pl |-> s.pl] \in signed
Compose(p) == /\ cur = NoPacket /\ Knows(p.sig)
              /\ cur' = p /\ UNCHANGED <<signed, res, insp>>

CheckedOut(p) ==
  IF p.len = "short" THEN "too_short" ELSE IF p.len = "long" THEN "too_large"
  ELSE IF ~IsPoint(p.key) THEN "invalid_key"
  ELSE IF ~Verifies(p) THEN "signature"
  ELSE IF ~Parses(p.pl) THEN "dns" ELSE "ok"
UncheckedOut(p) ==
  IF p.len = "short" THEN "too_short" ELSE IF p.len = "long" THEN "too_large"
  ELSE IF UncheckedValidatesKey /\ ~IsPoint(p.key) THEN "invalid_key"
  ELSE IF ~Parses(p.pl) THEN "dns" ELSE "ok"
OutOf(c, p) == IF c \in Checked THEN CheckedOut(p) ELSE UncheckedOut(p)
\* from_relay_payload takes the key as a `PublicKey`: only curve points can be passed
Applicable(c, p) == c = "from_relay_payload" => IsPoint(p.key)

Offer(c) == /\ cur # NoPacket /\ res.ctor = "none" /\ Applicable(c, cur)
            /\ res' = [ctor |-> c, out |-> OutOf(c, cur)]
            /\ UNCHANGED <<signed, cur, insp>>

OutcomeOf(a, p) == IF a \in KeyAccessors /\ ~IsPoint(p.key) THEN "panic" ELSE "ok"
InspectAll == /\ res.out = "ok" /\ insp = NotInspected
              /\ insp' = [a \in Accessors |-> OutcomeOf(a, cur)]
              /\ UNCHANGED <<signed, cur, res>>

PublishSome == \E ts \in {"t1", "t2"} : \E pl \in {"p1", "p2"} : Publish(ts, pl)
ComposeSome == \E p \in Packets : Compose(p)
OfferSome   == \E c \in Ctors : Offer(c)
Next == PublishSome \/ ComposeSome \/ OfferSome \/ InspectAll
Spec == Init /\ [][Next]_vars

----------------------------------------------------------------------------
(* C32 *)
\* the checked constructors accept exactly the authentic packets
AcceptIffAuthentic == res.ctor \in Checked => ((res.out = "ok") <=> Authentic(cur))
\* what is accepted under the honest key was published by the honest endpoint
Unforgeable == res.ctor \in Checked /\ res.out = "ok" /\ cur.key = "k1" => [ts |-> cur.ts, pl |-> cur.pl] \in signed
\* any modification of an accepted packet (one field, to any other value) is rejected
SingleMutants(p) == {[p EXCEPT !.len = v] : v \in Lens \ {p.len}} \cup {[p EXCEPT !.key = v] : v \in Keys \ {p.key}}
                    \cup {[p EXCEPT !.sig = v] : v \in SigTerms \ {p.sig}} \cup {[p EXCEPT !.ts = v] : v \in Tss \ {p.ts}}
                    \cup {[p EXCEPT !.pl = v] : v \in Pls \ {p.pl}}
ModificationRejected == res.ctor \in Checked /\ res.out = "ok" => \A q \in SingleMutants(cur) : CheckedOut(q) # "ok"
\* every value any constructor returns can be inspected without panicking
TotalAccessors == \A a \in Accessors : insp[a] # "panic"
\* the unchecked constructors still validate length and DNS payload (their documentation)
UncheckedStillValidates == res.ctor \in Ctors \ Checked /\ res.out = "ok" => cur.len = "ok" /\ Parses(cur.pl)

\* decision table for the binding: one line per offered packet and constructor
Emit == res.ctor # "none" =>
          PrintT(<<"REPLAY", ToJson([pkt |-> cur, ctor |-> res.ctor, out |-> res.out,
                                     point |-> IsPoint(cur.key), verifies |-> Verifies(cur), parses |-> Parses(cur.pl),
                                     checked |-> res.ctor \in Checked])>>)
=============================================================================
