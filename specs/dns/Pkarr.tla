------------------------------- MODULE Pkarr -------------------------------
(* C32 — iroh_dns::pkarr::SignedPacket (iroh-dns/src/pkarr.rs), symbolic packet model.

   Wire format `<32 key><64 signature><8 timestamp><DNS payload>`.  A packet is the record
   [len, key, sig, ts, pl] of field *classes*; cryptography is symbolic (Dolev-Yao): a signature
   is the term [k, ts, pl] "signature by k's secret key over signable(ts, pl)" or Garbage, and
   it verifies iff it is the term for exactly the packet's key, timestamp and payload.
     len   "short" (< 104 bytes) | "ok" | "long" (> 1104 bytes)
     key   "k1" (honest publisher) | "k2" (key the adversary owns) | "kx" (some other curve point)
           | "weak" (small-order point: decodes, nothing verifies under verify_strict)
           | "np" (32 bytes that are not a curve point)
     ts    "t1" | "t2" | "tx" (any other value)
     pl    "p1" | "p2" | "px" (any other payload that parses as a DNS packet) | "junk" (does not parse)

   Actions
     Publish(ts, pl)   the honest endpoint signs a packet (SignedPacket::from_txt_strings)
     Compose(p)        the network offers any packet it can build: arbitrary field values, but a
                       signature only if it is garbage, made with its own key k2, or copied from
                       a published packet
     Offer(c)          one of the four public constructors is applied to the offered bytes:
                       from_bytes, from_relay_payload (key given as a PublicKey; the bare relay
                       payload `<sig><ts><dns>` of the offered packet), from_bytes_unchecked,
                       from_parts_unchecked
     OfferRelayFull(k) from_relay_payload(k, payload) where the payload is the *complete* wire
                       encoding `<key'><sig><ts><dns>` of the offered packet (a malicious or
                       confused relay answering a lookup for k, or a PUT to /pkarr/<k>, with a
                       whole packet — possibly one validly signed by another key k').  The code
                       prepends k: every field is read 32 bytes off, nothing verifies (symbolic
                       assumption), the call fails.  LenientRelay = TRUE is the deviating design
                       "a payload that verifies as a complete packet is returned as it is", which
                       does not bind the result to k (refuted on RelayBoundToKey).
     InspectAll        every accessor / Display / Debug is applied to the accepted value
   The constructors follow the code's checks in order (length, key, signature, DNS parse; the
   unchecked ones skip key and signature).  UncheckedValidatesKey = FALSE is the code as
   written: the unchecked constructors accept non-point key bytes, and `public_key()`,
   `txt_records`, `all_txt_records`, Display and Debug then panic on
   `PublicKey::try_from(..).expect("valid public key in SignedPacket")`.  TRUE is the design the
   property requires (every obtainable value is safe to inspect).                            *)
EXTENDS Naturals, FiniteSets, Sequences, TLC, Json

CONSTANTS UncheckedValidatesKey,   \* TRUE: required design; FALSE: code before the fix
          LenientRelay,            \* FALSE: code / required design; TRUE: complete packets accepted as relay payload
          MaxPublish               \* number of packets the honest endpoint publishes

Keys  == {"k1", "k2", "kx", "weak", "np"}
Tss   == {"t1", "t2", "tx"}
Pls   == {"p1", "p2", "px", "junk"}
Lens  == {"short", "ok", "long"}
Garbage  == [k |-> "none", ts |-> "none", pl |-> "none"]
SigTerms == [k : {"k1", "k2"}, ts : {"t1", "t2"}, pl : Pls] \cup {Garbage}
Packets  == [len : Lens, key : Keys, sig : SigTerms, ts : Tss, pl : Pls]
NoPacket == [len |-> "none", key |-> "none", sig |-> Garbage, ts |-> "none", pl |-> "none"]

Ctors     == {"from_bytes", "from_relay_payload", "from_bytes_unchecked", "from_parts_unchecked"}
Checked   == {"from_bytes", "from_relay_payload"}
Accessors == {"public_key", "signature", "timestamp", "encoded_packet", "as_bytes", "to_relay_payload",
              "txt_records", "all_txt_records", "display", "debug", "more_recent_than", "clone_eq"}
KeyAccessors == {"public_key", "txt_records", "all_txt_records", "display", "debug"}   \* decode bytes[..32]

IsPoint(k)  == k # "np"
Parses(pl)  == pl # "junk"
Verifies(p) == p.key \in {"k1", "k2"} /\ p.sig = [k |-> p.key, ts |-> p.ts, pl |-> p.pl]
Authentic(p) == p.len = "ok" /\ IsPoint(p.key) /\ Verifies(p) /\ Parses(p.pl)

VARIABLES signed,   \* {[ts, pl]} published by the honest endpoint k1
          cur,      \* the packet offered
          res,      \* [ctor, out, rk, form, val]: constructor, its result ("none" before the call); for
                    \* from_relay_payload the requested key and the payload form ("bare" | "full");
                    \* val = the value returned (NoPacket if none)
          insp      \* accessor -> "ok" | "panic" | "-" (not inspected)
vars == <<signed, cur, res, insp>>

NotInspected == [a \in Accessors |-> "-"]
NoRes == [ctor |-> "none", out |-> "none", rk |-> "-", form |-> "-", val |-> NoPacket]
Init == signed = {} /\ cur = NoPacket /\ res = NoRes /\ insp = NotInspected

Publish(ts, pl) == /\ cur = NoPacket /\ Cardinality(signed) < MaxPublish
                   /\ signed' = signed \cup {[ts |-> ts, pl |-> pl]}
                   /\ UNCHANGED <<cur, res, insp>>

Knows(s) == \/ s = Garbage
            \/ s.k = "k2"
            \/ s.k = "k1" /\ [ts |-> s.ts, pl |-> s.pl] \in signed
Compose(p) == /\ cur = NoPacket /\ Knows(p.sig)
              /\ cur' = p /\ UNCHANGED <<signed, res, insp>>

CheckedOut(p) ==
  IF p.len = "short" THEN "too_short" ELSE IF p.len = "long" THEN "too_large"
  ELSE IF ~IsPoint(p.key) THEN "invalid_key"
  ELSE IF ~Verifies(p) THEN "signature"
  ELSE IF ~Parses(p.pl) THEN "dns" ELSE "ok"
UncheckedOut(p) ==
  IF p.len = "short" THEN "too_short" ELSE IF p.len = "long" THEN "too_large"
  ELSE IF UncheckedValidatesKey /\ ~IsPoint(p.key) THEN "invalid_key"
  ELSE IF ~Parses(p.pl) THEN "dns" ELSE "ok"
OutOf(c, p) == IF c \in Checked THEN CheckedOut(p) ELSE UncheckedOut(p)
\* from_relay_payload takes the key as a `PublicKey`: only curve points can be passed
Applicable(c, p) == c = "from_relay_payload" => IsPoint(p.key)

Offer(c) == /\ cur # NoPacket /\ res.ctor = "none" /\ Applicable(c, cur)
            /\ res' = [ctor |-> c, out |-> OutOf(c, cur),
                       rk |-> IF c = "from_relay_payload" THEN cur.key ELSE "-",
                       form |-> IF c = "from_relay_payload" THEN "bare" ELSE "-",
                       val |-> IF OutOf(c, cur) = "ok" THEN cur ELSE NoPacket]
            /\ UNCHANGED <<signed, cur, insp>>

\* from_relay_payload(k, <complete packet>): from_bytes(k ++ key' ++ sig ++ ts ++ dns)
RelayKeys == {"k1", "k2"}
LenientHit(p) == LenientRelay /\ p.len # "short" /\ CheckedOut(p) = "ok"
RelayFullOut(p) == IF LenientHit(p) THEN "ok" ELSE IF p.len = "long" THEN "too_large" ELSE "signature"
OfferRelayFull(k) == /\ cur # NoPacket /\ res.ctor = "none"
                     /\ res' = [ctor |-> "from_relay_payload", out |-> RelayFullOut(cur), rk |-> k, form |-> "full",
                                val |-> IF LenientHit(cur) THEN cur ELSE NoPacket]
                     /\ UNCHANGED <<signed, cur, insp>>

OutcomeOf(a, p) == IF a \in KeyAccessors /\ ~IsPoint(p.key) THEN "panic" ELSE "ok"
InspectAll == /\ res.out = "ok" /\ insp = NotInspected
              /\ insp' = [a \in Accessors |-> OutcomeOf(a, res.val)]
              /\ UNCHANGED <<signed, cur, res>>

PublishSome == \E ts \in {"t1", "t2"} : \E pl \in {"p1", "p2"} : Publish(ts, pl)
ComposeSome == \E p \in Packets : Compose(p)
OfferSome   == \E c \in Ctors : Offer(c)
OfferFullSome == \E k \in RelayKeys : OfferRelayFull(k)
Next == PublishSome \/ ComposeSome \/ OfferSome \/ OfferFullSome \/ InspectAll
Spec == Init /\ [][Next]_vars

----------------------------------------------------------------------------
(* C32 *)
\* the checked constructors accept exactly the authentic packets
\* (the offered bytes are the packet `cur`, except for a complete packet offered as a relay payload)
AcceptIffAuthentic == res.ctor \in Checked /\ res.form # "full" => ((res.out = "ok") <=> Authentic(cur))
\* what is accepted under the honest key was published by the honest endpoint
Unforgeable == res.ctor \in Checked /\ res.out = "ok" /\ res.val.key = "k1" => [ts |-> res.val.ts, pl |-> res.val.pl] \in signed
\* a relay payload is accepted for the requested key only: the returned packet carries that key and
\* is authentic under it, whatever form the payload had
RelayBoundToKey == res.ctor = "from_relay_payload" /\ res.out = "ok" => res.val.key = res.rk /\ Authentic(res.val)
\* the documented payload format is `<sig><ts><dns>`: a complete packet is not a relay payload
FullPacketIsNoRelayPayload == res.form = "full" => res.out # "ok"
\* any modification of an accepted packet (one field, to any other value) is rejected
SingleMutants(p) == {[p EXCEPT !.len = v] : v \in Lens \ {p.len}} \cup {[p EXCEPT !.key = v] : v \in Keys \ {p.key}}
                    \cup {[p EXCEPT !.sig = v] : v \in SigTerms \ {p.sig}} \cup {[p EXCEPT !.ts = v] : v \in Tss \ {p.ts}}
                    \cup {[p EXCEPT !.pl = v] : v \in Pls \ {p.pl}}
ModificationRejected == res.ctor \in Checked /\ res.form # "full" /\ res.out = "ok" => \A q \in SingleMutants(cur) : CheckedOut(q) # "ok"
\* every value any constructor returns can be inspected without panicking
TotalAccessors == \A a \in Accessors : insp[a] # "panic"
\* the unchecked constructors still validate length and DNS payload (their documentation)
UncheckedStillValidates == res.ctor \in Ctors \ Checked /\ res.out = "ok" => cur.len = "ok" /\ Parses(cur.pl)

\* decision table for the binding: one line per offered packet and constructor
\* `judge`: whether acceptance itself is compared.  Read weakly, the property leaves open whether a complete,
\* authentic packet of the requested key itself may be taken as its relay payload; the result is still
\* judged by RelayBoundToKey (returned key = requested key, authentic under it).
Emit == res.ctor # "none" =>
          PrintT(<<"REPLAY", ToJson([pkt |-> cur, ctor |-> res.ctor, out |-> res.out, rk |-> res.rk, form |-> res.form,
                                     point |-> IsPoint(cur.key), verifies |-> Verifies(cur), parses |-> Parses(cur.pl),
                                     checked |-> res.ctor \in Checked,
                                     judge |-> ~(res.form = "full" /\ cur.key = res.rk /\ Authentic(cur))])>>)
=============================================================================
