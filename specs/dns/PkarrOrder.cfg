SPECIFICATION Spec
INVARIANT Irreflexive Asymmetric Total Transitive TimestampDominates Emit
CHECK_DEADLOCK FALSE
CONSTANTS
  Ranks = {1, 2, 3}
