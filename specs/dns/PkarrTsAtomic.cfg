SPECIFICATION AtomicSpec
INVARIANT Distinct RealTimeOrder CasOrder NotBehindClock LastIsMax
CHECK_DEADLOCK FALSE
