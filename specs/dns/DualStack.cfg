SPECIFICATION Spec
INVARIANT AllAddresses AsEachCompletes CombinedErrorIffBothFail NoResponseIffNothing PreferredFamily JoinReturnsAll JoinWaitsForBoth Literals EndsOnce ErrorIsLast QueueOneFamily Emit
CHECK_DEADLOCK FALSE
CONSTANTS
  Timeout = 12
  Scenarios <- MC_Scenarios
  MaxAddrs = 2
