SPECIFICATION Spec
INVARIANT Distinct RealTimeOrder CasOrder NotBehindClock LastIsMax
CHECK_DEADLOCK FALSE
