----------------------------- MODULE DualStack -----------------------------
(* C35 — DnsResolver::resolve_host_all (iroh-dns/src/dns.rs): the stream that resolves a URL's
   host to all its addresses, IPv4 and IPv6 looked up concurrently.

   The code is `stream::once(..)` for URLs without a host / with an IP-literal host, and
   `stream::unfold(State { v4_fut, v6_fut, v4_err, v6_err, queue, closed, yielded }, ..)` for a
   domain.  One action per way through one iteration of the unfold loop body:
     UClosed    `if state.closed { return None }`
     UPop       `if let Some(item) = state.queue.pop_front()`   -> yields Ok(item), sets `yielded`
     UFinish    both futures are None and the queue is empty   -> `closed = true`; yields
                Err(ResolveBoth) if both errors are set, else Err(NoResponse) if nothing was
                yielded, else ends the stream
     USelect4 / USelect6   the `tokio::select!` arm of one family completes at the instant the
                lookup (Inner::op: answer after `dur`, or DnsError::Timeout after `Timeout`)
                ends: Ok(items) extends the queue, Err(e) is remembered; the future becomes None
   and for the other host kinds: Once (the single item) and OnceEnd.
   The consumer polls eagerly (the harness does `while let Some(x) = stream.next().await`), so
   both lookups start at instant 0 and every action happens as soon as it is enabled; time
   (integer ms) advances only in USelect*, to the earlier pending end instant.  `select!` is
   `biased` in the code (v4 wins a tie); the property does not order a tie, the spec allows both.

   The scenario's `api` selects the entry point.  "all" is resolve_host_all (above).  The two
   join-based entry points share the lookups and the timeout rule:
     "one4" / "one6"   resolve_host(url, prefer_ipv6 = FALSE / TRUE, timeout): `tokio::join!` of both
                lookups; ResolveBoth iff both failed; otherwise the first address of the preferred
                family, else the first of the other family, else NoResponse
     "join"     lookup_ipv4_ipv6(host, timeout): join of both; ResolveBoth iff both failed, otherwise
                all IPv4 addresses followed by all IPv6 addresses (the iterator may be empty)
   Join (both lookups have ended: the later end instant) and Answer model them; their result is
   written to `out` in the same item format (all items at the instant of the return).

   `out` is the observable behaviour: the items with the instant at which they were yielded,
   closed by an "end" marker.  It is what the harness records from the real stream
   (harness/src/bin/vh_dns.rs c35) and it must be one of the behaviours TLC generates for the
   same scenario.                                                                            *)
EXTENDS Naturals, Sequences, FiniteSets, TLC, Json

CONSTANTS Timeout,      \* the `timeout` argument (ms)
          Scenarios     \* [api, host, e4, e6]: entry point, host kind and the scripted answer of each family

VARIABLES scn, phase, now, f4, f6, err4, err6, queue, yielded, closed, out
vars == <<scn, phase, now, f4, f6, err4, err6, queue, yielded, closed, out>>

Min(a, b) == IF a < b THEN a ELSE b
Max(a, b) == IF a > b THEN a ELSE b

(* Inner::op *)
OutOf(e) == IF e.dur > Timeout THEN "timeout" ELSE e.kind      \* "ok" | "err" | "timeout"
EndOf(e) == Min(e.dur, Timeout)
Addrs(fam, e) == IF OutOf(e) = "ok" THEN [j \in 1..e.n |-> [fam |-> fam, j |-> j]] ELSE <<>>

Item(t, fam, j, e4, e6) == [t |-> t, fam |-> fam, j |-> j, e4 |-> e4, e6 |-> e6, at |-> now]
Yield(i) == out' = Append(out, i)

Init == /\ scn \in Scenarios /\ phase = "new" /\ now = 0
        /\ f4 = "none" /\ f6 = "none" /\ err4 = "-" /\ err6 = "-"
        /\ queue = <<>> /\ yielded = FALSE /\ closed = FALSE /\ out = <<>>

\* resolve_host_all(url, timeout): match url.host()
Create == /\ phase = "new"
          /\ IF scn.host = "domain"
                THEN phase' = (IF scn.api = "all" THEN "unfold" ELSE "join") /\ f4' = "pending" /\ f6' = "pending"
                ELSE phase' = "once" /\ UNCHANGED <<f4, f6>>
          /\ UNCHANGED <<scn, now, err4, err6, queue, yielded, closed, out>>

Once == /\ phase = "once" /\ phase' = "onceDone"
        /\ Yield(CASE scn.host = "none"  -> Item("missing_host", "-", 0, "-", "-")
                   [] scn.host = "v4lit" -> Item("ok", "lit4", 0, "-", "-")
                   [] scn.host = "v6lit" -> Item("ok", "lit6", 0, "-", "-"))
        /\ UNCHANGED <<scn, now, f4, f6, err4, err6, queue, yielded, closed>>
OnceEnd == /\ phase = "onceDone" /\ phase' = "ended" /\ Yield(Item("end", "-", 0, "-", "-"))
           /\ UNCHANGED <<scn, now, f4, f6, err4, err6, queue, yielded, closed>>

UClosed == /\ phase = "unfold" /\ closed
           /\ phase' = "ended" /\ Yield(Item("end", "-", 0, "-", "-"))
           /\ UNCHANGED <<scn, now, f4, f6, err4, err6, queue, yielded, closed>>

UPop == /\ phase = "unfold" /\ ~closed /\ queue # <<>>
        /\ Yield(Item("ok", Head(queue).fam, Head(queue).j, "-", "-"))
        /\ queue' = Tail(queue) /\ yielded' = TRUE
        /\ UNCHANGED <<scn, phase, now, f4, f6, err4, err6, closed>>

UFinish == /\ phase = "unfold" /\ ~closed /\ queue = <<>> /\ f4 = "none" /\ f6 = "none"
           /\ closed' = TRUE
           /\ IF err4 # "-" /\ err6 # "-"
                 THEN Yield(Item("both", "-", 0, err4, err6)) /\ UNCHANGED phase
                 ELSE IF ~yielded
                         THEN Yield(Item("no_response", "-", 0, "-", "-")) /\ UNCHANGED phase
                         ELSE Yield(Item("end", "-", 0, "-", "-")) /\ phase' = "ended"
           /\ UNCHANGED <<scn, now, f4, f6, err4, err6, queue, yielded>>

USelect4 == /\ phase = "unfold" /\ ~closed /\ queue = <<>> /\ f4 = "pending"
            /\ f6 = "pending" => EndOf(scn.e6) >= EndOf(scn.e4)
            /\ now' = EndOf(scn.e4) /\ f4' = "none"
            /\ IF OutOf(scn.e4) = "ok" THEN queue' = Addrs("a", scn.e4) /\ UNCHANGED err4
                                       ELSE err4' = OutOf(scn.e4) /\ UNCHANGED queue
            /\ UNCHANGED <<scn, phase, f6, err6, yielded, closed, out>>

USelect6 == /\ phase = "unfold" /\ ~closed /\ queue = <<>> /\ f6 = "pending"
            /\ f4 = "pending" => EndOf(scn.e4) >= EndOf(scn.e6)
            /\ now' = EndOf(scn.e6) /\ f6' = "none"
            /\ IF OutOf(scn.e6) = "ok" THEN queue' = Addrs("aaaa", scn.e6) /\ UNCHANGED err6
                                       ELSE err6' = OutOf(scn.e6) /\ UNCHANGED queue
            /\ UNCHANGED <<scn, phase, f4, err4, yielded, closed, out>>

\* tokio::join!(lookup_ipv4, lookup_ipv6): both lookups have ended
Join == /\ phase = "join"
        /\ now' = Max(EndOf(scn.e4), EndOf(scn.e6)) /\ f4' = "none" /\ f6' = "none"
        /\ err4' = (IF OutOf(scn.e4) = "ok" THEN "-" ELSE OutOf(scn.e4))
        /\ err6' = (IF OutOf(scn.e6) = "ok" THEN "-" ELSE OutOf(scn.e6))
        /\ phase' = "joined"
        /\ UNCHANGED <<scn, queue, yielded, closed, out>>

First(s) == IF s = <<>> THEN <<>> ELSE <<s[1]>>
\* the match on the two results
Answer ==
  /\ phase = "joined" /\ phase' = "ended"
  /\ LET a4 == Addrs("a", scn.e4)  a6 == Addrs("aaaa", scn.e6)
         picked == CASE scn.api = "join" -> a4 \o a6
                     [] scn.api = "one4" -> First(First(a4) \o First(a6))
                     [] scn.api = "one6" -> First(First(a6) \o First(a4))
         items == IF err4 # "-" /\ err6 # "-" THEN <<Item("both", "-", 0, err4, err6)>>
                  ELSE IF picked = <<>> /\ scn.api # "join" THEN <<Item("no_response", "-", 0, "-", "-")>>
                  ELSE [k \in 1..Len(picked) |-> Item("ok", picked[k].fam, picked[k].j, "-", "-")]
     IN out' = out \o items \o <<Item("end", "-", 0, "-", "-")>>
  /\ UNCHANGED <<scn, now, f4, f6, err4, err6, queue, yielded, closed>>

Next == Create \/ Once \/ OnceEnd \/ UClosed \/ UPop \/ UFinish \/ USelect4 \/ USelect6 \/ Join \/ Answer
Spec == Init /\ [][Next]_vars

----------------------------------------------------------------------------
(* C35, stated on the finished behaviour *)
Ended == phase = "ended"
Oks   == SelectSeq(out, LAMBDA i : i.t = "ok")
Proj(s) == [k \in 1..Len(s) |-> [fam |-> s[k].fam, j |-> s[k].j]]
A4 == Addrs("a", scn.e4)
A6 == Addrs("aaaa", scn.e6)
BothFail == OutOf(scn.e4) # "ok" /\ OutOf(scn.e6) # "ok"

\* every address of both lookups is yielded, each family's block contiguous, blocks in completion order
AllAddresses ==
  Ended /\ scn.host = "domain" /\ scn.api = "all" =>
     \/ EndOf(scn.e4) <= EndOf(scn.e6) /\ Proj(Oks) = A4 \o A6
     \/ EndOf(scn.e6) <= EndOf(scn.e4) /\ Proj(Oks) = A6 \o A4
\* ... as each lookup completes: an address is yielded at the instant its own lookup ended
AsEachCompletes ==
  scn.api = "all" => \A k \in 1..Len(out) : out[k].t = "ok" /\ out[k].fam \in {"a", "aaaa"} =>
     out[k].at = (IF out[k].fam = "a" THEN EndOf(scn.e4) ELSE EndOf(scn.e6))
\* a combined error only if both lookups failed (carrying both errors); then it is the only item
CombinedErrorIffBothFail ==
  Ended /\ scn.host = "domain" =>
     /\ (\E k \in 1..Len(out) : out[k].t = "both") <=> BothFail
     /\ \A k \in 1..Len(out) : out[k].t = "both" =>
           out[k].e4 = OutOf(scn.e4) /\ out[k].e6 = OutOf(scn.e6) /\ k = 1 /\ Len(out) = 2
\* a no-response error only if nothing was yielded otherwise
NoResponseIffNothing ==
  Ended /\ scn.host = "domain" /\ scn.api # "join" =>
     ((\E k \in 1..Len(out) : out[k].t = "no_response") <=> (~BothFail /\ Len(A4) + Len(A6) = 0))
\* resolve_host: one address, of the preferred family whenever that family has one
PreferredFamily ==
  Ended /\ scn.host = "domain" /\ scn.api \in {"one4", "one6"} /\ Len(A4) + Len(A6) > 0 =>
     /\ Len(Oks) = 1 /\ Oks[1].j = 1
     /\ Oks[1].fam = (IF scn.api = "one4" THEN (IF A4 # <<>> THEN "a" ELSE "aaaa") ELSE (IF A6 # <<>> THEN "aaaa" ELSE "a"))
\* lookup_ipv4_ipv6: everything both lookups returned, IPv4 first; it waits for both
JoinReturnsAll ==
  Ended /\ scn.host = "domain" /\ scn.api = "join" /\ ~BothFail => Proj(Oks) = A4 \o A6
JoinWaitsForBoth ==
  Ended /\ scn.host = "domain" /\ scn.api # "all" => \A k \in 1..Len(out) : out[k].at = Max(EndOf(scn.e4), EndOf(scn.e6))
\* IP-literal hosts are yielded directly, a URL without host is an error; nothing is looked up
Literals ==
  Ended /\ scn.host # "domain" =>
     /\ Len(out) = 2 /\ out[1].at = 0 /\ f4 = "none" /\ f6 = "none"
     /\ out[1].t = (IF scn.host = "none" THEN "missing_host" ELSE "ok")
     /\ out[1].fam = (CASE scn.host = "v4lit" -> "lit4" [] scn.host = "v6lit" -> "lit6" [] OTHER -> "-")
\* the stream ends exactly once, after everything else, when the later lookup has ended
EndsOnce ==
  /\ \A k \in 1..Len(out) : out[k].t = "end" => k = Len(out) /\ Ended
  /\ Ended => out[Len(out)].t = "end"
  /\ Ended /\ scn.host = "domain" => out[Len(out)].at = Max(EndOf(scn.e4), EndOf(scn.e6))
\* at most one error item, and it is the last item before the end
ErrorIsLast ==
  \A k \in 1..Len(out) : out[k].t \in {"both", "no_response", "missing_host"} =>
     k = Len(out) \/ (k = Len(out) - 1 /\ out[Len(out)].t = "end")
\* the queue only ever holds addresses of one family (blocks are contiguous)
QueueOneFamily == \A a, b \in 1..Len(queue) : queue[a].fam = queue[b].fam

\* what the resolver sees: a domain is looked up once per family, both at instant 0 (concurrently);
\* nothing is looked up for the other host kinds
Calls == IF scn.host = "domain" THEN <<[fam |-> "a", at |-> 0], [fam |-> "aaaa", at |-> 0]>> ELSE <<>>

\* behaviour generator: one REPLAY line per finished behaviour
Emit == Ended => PrintT(<<"REPLAY", ToJson([scn |-> scn, out |-> out, calls |-> Calls])>>)
=============================================================================
