---------------------------- MODULE MC_DualStack ----------------------------
EXTENDS DualStack
CONSTANTS Durs, MaxAddrs
Answers == [kind : {"ok"}, dur : Durs, n : 0..MaxAddrs] \cup [kind : {"err"}, dur : Durs, n : {0}]
NoAnswer == [kind |-> "err", dur |-> 0, n |-> 0]
\* lookup_ipv4_ipv6 takes a host name, not a URL: only the domain case exists for "join"
MC_Scenarios == [api : {"all", "one4", "one6", "join"}, host : {"domain"}, e4 : Answers, e6 : Answers]
                \cup [api : {"all", "one4", "one6"}, host : {"none", "v4lit", "v6lit"}, e4 : {NoAnswer}, e6 : {NoAnswer}]
=============================================================================
