---------------------------- MODULE MC_DualStack ----------------------------
EXTENDS DualStack
CONSTANTS Durs, MaxAddrs
Answers == [kind : {"ok"}, dur : Durs, n : 0..MaxAddrs] \cup [kind : {"err"}, dur : Durs, n : {0}]
NoAnswer == [kind |-> "err", dur |-> 0, n |-> 0]
MC_Scenarios == [host : {"domain"}, e4 : Answers, e6 : Answers]
                \cup [host : {"none", "v4lit", "v6lit"}, e4 : {NoAnswer}, e6 : {NoAnswer}]
=============================================================================
