-------------------------- MODULE MC_EndpointInfo --------------------------
(* Model-checking / generation constants for EndpointInfo (C31).  The byte lengths of the
   address texts are the ones checks/c31.py realises with seeded concrete addresses:
     relay plain   https://<host>./                  query1  https://<host>./?k=vvv
     relay query2  https://<host>./?k=v&lll=ww       ip v4   a.b.c.d:port   v6  [2001:db8::xxxx]:port
     custom        <id hex>_<data hex>: empty data, 30 bytes (inline), 31 bytes (heap),
                   100 bytes (x4, to exceed the 1000-byte packet), 124 bytes (TXT string of
                   exactly 255 bytes), 125 bytes (257: does not encode) *)
EXTENDS EndpointInfo

A(n) == [c |-> "a", n |-> n]
C(c) == [c |-> c, n |-> IF c = "u" THEN 2 ELSE 1]
Addr(kind, tag, form) == [kind |-> kind, tag |-> tag, form |-> form]

R0  == Addr("relay", "plain",  <<A(24)>>)
RQ  == Addr("relay", "query1", <<A(26), Eq, A(3)>>)
RQQ == Addr("relay", "query2", <<A(26), Eq, A(5), Eq, A(2)>>)
I4  == Addr("ip", "v4", <<A(14)>>)
I6  == Addr("ip", "v6", <<A(22)>>)
C0  == Addr("custom", "empty", <<A(2)>>)
C30 == Addr("custom", "inline30", <<A(62)>>)
C31 == Addr("custom", "heap31", <<A(65)>>)
B1  == Addr("custom", "big1", <<A(202)>>)
B2  == Addr("custom", "big2", <<A(203)>>)
B3  == Addr("custom", "big3", <<A(204)>>)
B4  == Addr("custom", "big4", <<A(205)>>)
C124 == Addr("custom", "max124", <<A(250)>>)
C125 == Addr("custom", "over125", <<A(252)>>)

Small == {R0, RQ, RQQ, I4, I6, C0, C30, C31}
MC_Pool == Small \cup {B1, B2, B3, B4, C124, C125}

All8 == <<I4, R0, C30, RQ, I6, C31, RQQ, C0>>
UpTo2 == {<<>>} \cup { <<a>> : a \in Small } \cup { <<a, b>> : <<a, b>> \in Small \X Small }
Long == { All8, <<B1, B2, B3, B4>>, <<B1, B2, B3, B4, R0>>, <<B1, B2, B3, B4, R0, I6>>,
          <<C124>>, <<C125>>, <<I4, C125, R0>>, <<R0, I4, R0, RQ, I4, RQ>> }
MC_AddrLists == UpTo2 \cup Long
MC_AddrListsQuick == {<<>>} \cup { <<a>> : a \in Small } \cup { <<a, b>> : <<a, b>> \in {R0, RQ, I4, C31} \X {RQQ, I6, C30, R0} } \cup Long
MC_FewLists == { <<>>, <<RQ, I4>>, All8 }
MC_FewListsQuick == { <<>>, <<R0, I6>> }

MC_UdSample == { <<A(3)>>, <<A(1), Eq, A(1), Eq, A(1)>>, <<A(240), C("u"), Eq, C("dq")>> }

\* TXT lists a resolver may be handed that Format never produced
K(k) == [c |-> k, n |-> KeyLen(k)]
MC_Foreign == {
  << <<A(3)>> >>,                                         \* no "="
  << <<A(3), Eq, A(1)>> >>,                               \* unknown key
  << <<K("relay"), A(1), Eq, A(24)>> >>,                  \* key with a suffix ("relayx=...")
  << <<Eq, A(1)>> >>,                                     \* empty key
  << Format("relay", <<C("sp")>>) >>,                     \* relay value that is no URL: dropped
  << Format("addr", <<C("cm")>>) >>,                      \* addr value that is no address: dropped
  << Format("addr", I4.form), Format("relay", R0.form), Format("addr", I4.form) >>,   \* unordered, duplicate
  << Format("user-data", <<A(2)>>), Format("user-data", <<A(3)>>) >>,                 \* first user-data wins
  << Format("user-data", <<A(246)>>), Format("addr", I6.form) >>,                     \* oversized user data: dropped
  << Format("user-data", <<>>) >>,                                                    \* empty value
  << Format("relay", RQ.form), <<A(3)>> >>                \* one bad string fails the whole lookup
}
=============================================================================
