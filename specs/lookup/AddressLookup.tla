---------------------------- MODULE AddressLookup ----------------------------
(* C29 — the stream returned by AddressLookupServices::resolve (iroh/src/address_lookup.rs)
   follows its documented protocol.

   A *service* is a script: "decline" (AddressLookup::resolve returns None) or a finite
   sequence over {"item", "err"} (the items of the BoxStream it returns; the empty sequence
   is a stream that ends at once).  When an output becomes available is up to the service,
   so every interleaving of the services' outputs is a behaviour (the harness realises a
   chosen interleaving with delays under tokio's paused clock).

   State of `AddressLookupStream` and one action per way `poll_next` can return:
     Resolve        AddressLookupServices::resolve: no service configured -> streams = None
                    (mode "none"); else MergeBounded over the streams of the services that
                    did not decline (mode "merge")
     PollItem(s)    inner merge yields Some(Ok(item)) of service s: did_emit := true, yield Ok(Ok(item))
     PollErr(s)     inner merge yields Some(Err(e)) of s: errors.push(e), yield Ok(Err(e))
     PollEnd        inner merge yields None (every service stream is exhausted; finished
                    streams are dropped inside the same poll): closed := true, yield
                    Err(NoResults{errors}) if !did_emit, else None
     PollNoService  streams = None: closed := true, yield Err(NoServiceConfigured)
     PollClosed     closed: yield None
     DropStream     the consumer drops the stream before its end: every service stream still
                    held is dropped with it ("once the returned stream is dropped, the service
                    should stop any pending work")
   `released` is the set of services whose result stream has been dropped by the merged
   stream (the harness observes it through a Drop guard inside each scripted stream): a
   stream is dropped only after it is exhausted or when the consumer drops the whole stream,
   and at the end nothing is held any more.
   `out` is the sequence of everything `poll_next` returned, which is what the harness
   observes on the real stream (items and errors are labelled <<service, index>>). *)
EXTENDS Naturals, Sequences, FiniteSets, TLC, Json

CONSTANTS MaxSvcs,     \* at most this many services configured
          MaxLen,      \* scripts have at most this many outputs
          ExtraPolls,  \* how often the stream is polled after it ended
          AllowDrop,   \* the consumer may drop the stream early (DropStream)
          EarlyTerminal \* FALSE: as documented; TRUE: a (wrong) design that also reports NoResults when items were yielded
                        \* (used only to show that the invariants bite)

VARIABLES svcs,      \* Seq of scripts: [decl: BOOLEAN, outs: Seq({"item","err"})]
          mode,      \* "init" | "merge" | "none"
          pos,       \* per service: number of outputs already yielded
          errors,    \* buffered errors (labels)
          didEmit, closed,
          out,       \* Seq of yields: [k: "item"|"err"|"noresults"|"noservice"|"end"|"dropped", s, i, errs]
          extra,     \* polls after the end so far
          released   \* services whose result stream has been dropped
vars == <<svcs, mode, pos, errors, didEmit, closed, out, extra, released>>

Outs == UNION { [1..n -> {"item", "err"}] : n \in 0..MaxLen }
Scripts == { [decl |-> TRUE, outs |-> <<>>] } \cup { [decl |-> FALSE, outs |-> o] : o \in Outs }
Configs == UNION { [1..n -> Scripts] : n \in 0..MaxSvcs }

Y(k, s, i, errs) == [k |-> k, s |-> s, i |-> i, errs |-> errs]

Init == /\ svcs \in Configs /\ mode = "init" /\ pos = [s \in 1..Len(svcs) |-> 0]
        /\ errors = <<>> /\ didEmit = FALSE /\ closed = FALSE /\ out = <<>> /\ extra = 0 /\ released = {}

Live == { s \in 1..Len(svcs) : ~svcs[s].decl }
HasNext(s, kind) == s \in Live /\ pos[s] < Len(svcs[s].outs) /\ svcs[s].outs[pos[s] + 1] = kind

Resolve == /\ mode = "init"
           /\ mode' = IF Len(svcs) = 0 THEN "none" ELSE "merge"
           /\ UNCHANGED <<svcs, pos, errors, didEmit, closed, out, extra, released>>

\* a poll drops some of the streams that are already exhausted (MergeBounded removes a finished
\* stream when it polls it again; which ones a given poll reaches is up to its ready queue)
Exhausted == { s \in Live : pos[s] = Len(svcs[s].outs) }
ReleaseSome == \E R \in SUBSET Exhausted : released' = released \cup R

PollItem(s) == /\ mode = "merge" /\ ~closed /\ HasNext(s, "item")
               /\ pos' = [pos EXCEPT ![s] = @ + 1] /\ didEmit' = TRUE
               /\ out' = Append(out, Y("item", s, pos[s] + 1, <<>>))
               /\ ReleaseSome
               /\ UNCHANGED <<svcs, mode, errors, closed, extra>>

PollErr(s) == /\ mode = "merge" /\ ~closed /\ HasNext(s, "err")
              /\ pos' = [pos EXCEPT ![s] = @ + 1]
              /\ errors' = Append(errors, <<s, pos[s] + 1>>)
              /\ out' = Append(out, Y("err", s, pos[s] + 1, <<>>))
              /\ ReleaseSome
              /\ UNCHANGED <<svcs, mode, didEmit, closed, extra>>

PollEnd == /\ mode = "merge" /\ ~closed
           /\ \A s \in Live : pos[s] = Len(svcs[s].outs)
           /\ closed' = TRUE /\ released' = Live
           /\ IF ~didEmit \/ EarlyTerminal
                THEN out' = Append(out, Y("noresults", 0, 0, errors)) /\ errors' = <<>>
                ELSE out' = Append(out, Y("end", 0, 0, <<>>)) /\ UNCHANGED errors
           /\ UNCHANGED <<svcs, mode, pos, didEmit, extra>>

PollNoService == /\ mode = "none" /\ ~closed /\ closed' = TRUE
                 /\ out' = Append(out, Y("noservice", 0, 0, <<>>))
                 /\ UNCHANGED <<svcs, mode, pos, errors, didEmit, extra, released>>

PollClosed == /\ closed /\ extra < ExtraPolls /\ extra' = extra + 1
              /\ out' = Append(out, Y("end", 0, 0, <<>>))
              /\ UNCHANGED <<svcs, mode, pos, errors, didEmit, closed, released>>

DropStream == /\ AllowDrop /\ mode = "merge" /\ ~closed
              /\ closed' = TRUE /\ released' = Live /\ extra' = ExtraPolls
              /\ out' = Append(out, Y("dropped", 0, 0, <<>>))
              /\ UNCHANGED <<svcs, mode, pos, errors, didEmit>>

Next == Resolve \/ (\E s \in 1..MaxSvcs : PollItem(s)) \/ (\E s \in 1..MaxSvcs : PollErr(s))
        \/ PollEnd \/ PollNoService \/ PollClosed \/ DropStream
Spec == Init /\ [][Next]_vars

---------------------------------------------------------------------------
(* C29 *)
IsTerminal(y) == y.k \in {"noresults", "noservice"}
Yielded(kind) == { <<out[j].s, out[j].i>> : j \in { j \in 1..Len(out) : out[j].k = kind } }
Produced(kind) == { <<s, i>> \in Live \X (1..MaxLen) : i <= Len(svcs[s].outs) /\ svcs[s].outs[i] = kind }
\* position of the yield with which the stream ended (0 while it has not)
Dropped == \E j \in 1..Len(out) : out[j].k = "dropped"
EndAt == IF \E j \in 1..Len(out) : out[j].k \in {"noresults", "noservice", "end"}
           THEN CHOOSE j \in 1..Len(out) : out[j].k \in {"noresults", "noservice", "end"}
                                           /\ \A h \in 1..(j - 1) : out[h].k \in {"item", "err"}
           ELSE 0

\* every item and every per-service error produced is yielded (exactly once, in the service's order) before the end
AllYielded == closed /\ ~Dropped => /\ Yielded("item") = Produced("item") /\ Yielded("err") = Produced("err")
                        /\ Cardinality({ j \in 1..Len(out) : out[j].k \in {"item", "err"} })
                             = Cardinality(Produced("item")) + Cardinality(Produced("err"))
PerServiceOrder == \A a, b \in 1..Len(out) : (a < b /\ out[a].k \in {"item", "err"} /\ out[b].k \in {"item", "err"}
                                               /\ out[a].s = out[b].s) => out[a].i < out[b].i
\* the end: a single no-results failure carrying all errors exactly when no item was produced,
\* a single no-services failure exactly when no service is configured, otherwise a plain end
TerminalRule == closed /\ ~Dropped =>
   LET e == out[EndAt] IN
   /\ EndAt # 0
   /\ (e.k = "noservice") <=> (Len(svcs) = 0)
   /\ (e.k = "noresults") <=> (Len(svcs) # 0 /\ Produced("item") = {})
   /\ e.k = "noresults" => /\ { e.errs[j] : j \in 1..Len(e.errs) } = Produced("err")
                           /\ Len(e.errs) = Cardinality(Produced("err"))
                           \* in the order in which they were yielded
                           /\ e.errs = [j \in 1..Len(e.errs) |->
                                 LET idx == CHOOSE x \in 1..Len(out) : out[x].k = "err" /\
                                               Cardinality({ h \in 1..x : out[h].k = "err" }) = j
                                 IN <<out[idx].s, out[idx].i>>]
\* nothing is yielded after the end, and there is at most one terminal failure
NothingAfterEnd == EndAt # 0 => \A j \in (EndAt + 1)..Len(out) : out[j].k = "end"
OneTerminal == Cardinality({ j \in 1..Len(out) : IsTerminal(out[j]) }) <= 1
\* before the end only items and errors are yielded
NoEarlyEnd == ~closed => \A j \in 1..Len(out) : out[j].k \in {"item", "err"}
\* (growth beyond C29) resources: a service stream is dropped only once it is exhausted, unless the
\* consumer dropped the whole stream; when the stream has ended or was dropped, none is held
ReleasedOnlyWhenDone == ~Dropped => \A s \in released : pos[s] = Len(svcs[s].outs)
AllReleasedAtEnd == closed /\ mode = "merge" => released = Live

Done == closed /\ extra = ExtraPolls
\* the history of partial releases is not part of a behaviour's identity
View == <<svcs, mode, pos, errors, didEmit, closed, out, extra, IF closed THEN released ELSE {}>>
Emit == Done => PrintT(<<"REPLAY", ToJson([svcs |-> svcs, out |-> out, released |-> released])>>)
=============================================================================
