SPECIFICATION Spec
INVARIANT AllYielded PerServiceOrder TerminalRule NothingAfterEnd OneTerminal NoEarlyEnd
CHECK_DEADLOCK FALSE
CONSTANTS
  ExtraPolls = 3
