SPECIFICATION SpecF
INVARIANT OnlyPublished Emit
CHECK_DEADLOCK FALSE
