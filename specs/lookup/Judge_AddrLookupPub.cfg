SPECIFICATION JSpec
INVARIANT Verdict
CHECK_DEADLOCK FALSE
