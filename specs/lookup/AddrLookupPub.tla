---------------------------- MODULE AddrLookupPub ----------------------------
(* C30 — every lookup service ends up with the latest published address data.

   Models AddressLookupServices::{publish, add_boxed, clear} (iroh/src/address_lookup.rs) with
   one action per critical section, split exactly where the code takes / releases its
   RwLocks (`services`: S, `last_data`: L, `addr_filter`: F):

     publish(d)      PubBegin(d)    F.read: the datum handed on is Filter(d) (F is written only by
                                    set_addr_filter, which is no actor here, so this read commutes
                                    with everything and is not a step of its own); S.read acquired
                                    (held until the end of publish)
                     PubGive(d)     service.publish(data) for the next service of the Vec
                     PubStore(d)    L.write: last_data := data; then S.read is released
     add_boxed(s)    AddRead(s)     L.read: if last_data is Some, service.publish(last_data)
                     AddPush(s)     S.write (needs no reader): services.push(s)
     clear()         Clear(c)       S.write: services.clear()
     set_addr_filter SetFilter(x)   F.write: addr_filter := Some(relay_only)
   With set_addr_filter callers (Setters # {}) the filter read of publish is a step of its own,
   PubFilter(d) (F.read), before PubBegin(d); it is outside the one lock of the required design.

   `Serialized = TRUE` is the design the property needs: one lock around each whole
   operation (PubBegin..PubStore, AddRead..AddPush), as in proposed_fixes/C30.diff.
   `Serialized = FALSE` is the code as written: the sub-steps of different calls interleave,
   limited only by S (no push/clear while a publisher is between PubBegin and PubStore).

   `word` records the steps taken; complete words are forced on real threads by
   harness/src/bin/vh_lookup.rs (c30) through the pause points of iroh::verif_hooks_lookup.
   Data are strings; what a service receives is the record [d |-> datum, f |-> filtered?]. *)
EXTENDS Naturals, Sequences, FiniteSets, TLC, Json

CONSTANTS Pubs,        \* data published, one publisher thread each, e.g. {"d1", "d2"}
          NewSvcs,     \* services added concurrently, one adder thread each, e.g. {"n1"}
          Clears,      \* clear() callers, e.g. {} or {"c1"}
          Setters,     \* set_addr_filter callers, e.g. {} or {"f1"}
          NInit,       \* number of services registered before anything starts (0..3)
          FilterOn,    \* an addr_filter is installed (publish hands on the filtered datum)
          Serialized

VARIABLES services,   \* Seq of service ids (the Vec behind S)
          lastData,   \* the Option behind L: [some, d, f]
          got,        \* per service: Seq of data received
          pubpc, pubIdx, pubData,
          addpc, clrpc, setpc,
          filter,     \* an addr_filter is installed
          order,      \* ghost: data in the order of their PubStore
          big,        \* Serialized only: holder of the one lock ("none" if free)
          word        \* history of steps: Seq of [a |-> actor, step |-> name]
vars == <<services, lastData, got, pubpc, pubIdx, pubData, addpc, clrpc, setpc, filter, order, big, word>>

InitSvcs == SubSeq(<<"s0", "s1", "s2">>, 1, NInit)
AllSvcs == { InitSvcs[i] : i \in 1..Len(InitSvcs) } \cup NewSvcs
Datum(d) == [d |-> d, f |-> FilterOn]             \* Filter(d) under the initial filter
Datums == { [d |-> d, f |-> f] : d \in Pubs, f \in IF Setters = {} THEN {FilterOn} ELSE BOOLEAN }
NoData == [some |-> FALSE, d |-> "none", f |-> FALSE]
Some(x) == [some |-> TRUE, d |-> x.d, f |-> x.f]
Step(a, s) == word' = Append(word, [a |-> a, step |-> s])

Init == /\ services = InitSvcs /\ lastData = NoData /\ got = [s \in AllSvcs |-> <<>>]
        /\ pubpc = [d \in Pubs |-> "start"] /\ pubIdx = [d \in Pubs |-> 1]
        /\ pubData = [d \in Pubs |-> [d |-> d, f |-> FALSE]]
        /\ addpc = [s \in NewSvcs |-> "start"] /\ clrpc = [c \in Clears |-> "start"]
        /\ setpc = [x \in Setters |-> "start"] /\ filter = FilterOn
        /\ order = <<>> /\ big = "none" /\ word = <<>>

\* the one lock of the required design
CanEnter(p) == ~Serialized \/ big = "none"
Holds(p) == ~Serialized \/ big = p
Enter(p) == big' = IF Serialized THEN p ELSE big
Leave == big' = IF Serialized THEN "none" ELSE big
\* S: readers are the publishers between PubBegin and PubStore
NoReader == \A d \in Pubs : pubpc[d] # "giving"

\* F.read as a step of its own (only when somebody may change the filter concurrently)
PubFilter(d) == /\ Setters # {} /\ pubpc[d] = "start"
                /\ pubData' = [pubData EXCEPT ![d] = [d |-> d, f |-> filter]]
                /\ pubpc' = [pubpc EXCEPT ![d] = "filtered"]
                /\ UNCHANGED <<services, lastData, got, pubIdx, addpc, clrpc, setpc, filter, order, big>> /\ Step(d, "PubFilter")

PubBegin(d) == /\ pubpc[d] = (IF Setters = {} THEN "start" ELSE "filtered") /\ CanEnter(d) /\ Enter(d)
               /\ pubData' = [pubData EXCEPT ![d] = IF Setters = {} THEN [d |-> d, f |-> filter] ELSE @]
               /\ pubpc' = [pubpc EXCEPT ![d] = "giving"] /\ pubIdx' = [pubIdx EXCEPT ![d] = 1]
               /\ UNCHANGED <<services, lastData, got, addpc, clrpc, setpc, filter, order>> /\ Step(d, "PubBegin")

PubGive(d) == /\ pubpc[d] = "giving" /\ pubIdx[d] <= Len(services)
              /\ got' = [got EXCEPT ![services[pubIdx[d]]] = Append(@, pubData[d])]
              /\ pubIdx' = [pubIdx EXCEPT ![d] = @ + 1]
              /\ UNCHANGED <<services, lastData, pubpc, pubData, addpc, clrpc, setpc, filter, order, big>> /\ Step(d, "PubGive")

PubStore(d) == /\ pubpc[d] = "giving" /\ pubIdx[d] > Len(services)
               /\ lastData' = Some(pubData[d]) /\ order' = Append(order, pubData[d])
               /\ pubpc' = [pubpc EXCEPT ![d] = "done"] /\ Leave
               /\ UNCHANGED <<services, got, pubIdx, pubData, addpc, clrpc, setpc, filter>> /\ Step(d, "PubStore")

AddRead(s) == /\ addpc[s] = "start" /\ CanEnter(s) /\ Enter(s)
              /\ got' = IF lastData.some THEN [got EXCEPT ![s] = Append(@, [d |-> lastData.d, f |-> lastData.f])] ELSE got
              /\ addpc' = [addpc EXCEPT ![s] = "read"]
              /\ UNCHANGED <<services, lastData, pubpc, pubIdx, pubData, clrpc, setpc, filter, order>> /\ Step(s, "AddRead")

AddPush(s) == /\ addpc[s] = "read" /\ Holds(s) /\ NoReader
              /\ services' = Append(services, s) /\ addpc' = [addpc EXCEPT ![s] = "done"] /\ Leave
              /\ UNCHANGED <<lastData, got, pubpc, pubIdx, pubData, clrpc, setpc, filter, order>> /\ Step(s, "AddPush")

Clear(c) == /\ clrpc[c] = "start" /\ CanEnter(c) /\ NoReader
            /\ services' = <<>> /\ clrpc' = [clrpc EXCEPT ![c] = "done"]
            /\ UNCHANGED <<lastData, got, pubpc, pubIdx, pubData, addpc, setpc, filter, order, big>> /\ Step(c, "Clear")

SetFilter(x) == /\ setpc[x] = "start" /\ filter' = TRUE /\ setpc' = [setpc EXCEPT ![x] = "done"]
                /\ UNCHANGED <<services, lastData, got, pubpc, pubIdx, pubData, addpc, clrpc, order, big>> /\ Step(x, "SetFilter")

Next == \/ (\E d \in Pubs : PubBegin(d)) \/ (\E d \in Pubs : PubGive(d)) \/ (\E d \in Pubs : PubStore(d))
        \/ (\E s \in NewSvcs : AddRead(s)) \/ (\E s \in NewSvcs : AddPush(s))
Spec == Init /\ [][Next]_vars
\* with clear() callers (a separate next-state relation so that TLC's per-action coverage stays meaningful when Clears = {})
NextC == \/ (\E d \in Pubs : PubBegin(d)) \/ (\E d \in Pubs : PubGive(d)) \/ (\E d \in Pubs : PubStore(d))
         \/ (\E s \in NewSvcs : AddRead(s)) \/ (\E s \in NewSvcs : AddPush(s))
         \/ (\E c \in Clears : Clear(c))
SpecC == Init /\ [][NextC]_vars
\* with set_addr_filter callers
NextF == \/ (\E d \in Pubs : PubFilter(d)) \/ (\E d \in Pubs : PubBegin(d)) \/ (\E d \in Pubs : PubGive(d))
         \/ (\E d \in Pubs : PubStore(d))
         \/ (\E s \in NewSvcs : AddRead(s)) \/ (\E s \in NewSvcs : AddPush(s))
         \/ (\E x \in Setters : SetFilter(x))
SpecF == Init /\ [][NextF]_vars

---------------------------------------------------------------------------
(* C30 *)
Quiescent == (\A d \in Pubs : pubpc[d] = "done") /\ (\A s \in NewSvcs : addpc[s] = "done")
             /\ (\A c \in Clears : clrpc[c] = "done") /\ (\A x \in Setters : setpc[x] = "done")
LastOf(q) == q[Len(q)]
\* the property on any (model or observed) quiescent state: every registered service has most
\* recently been given `latest`
HaveLatest(svcs, g, latest) == \A i \in 1..Len(svcs) : g[svcs[i]] # <<>> /\ LastOf(g[svcs[i]]) = latest
AllHaveLatest == (Quiescent /\ order # <<>>) => HaveLatest(services, got, LastOf(order))
\* what a service added later would be given is the latest published datum, too
LastDataIsLatest == order # <<>> => (lastData.some /\ [d |-> lastData.d, f |-> lastData.f] = LastOf(order))
\* services are only ever given (filtered) published data
OnlyPublished == \A s \in AllSvcs : \A i \in 1..Len(got[s]) : got[s][i] \in Datums
\* lock discipline of S
PushOnlyWithoutReader == [][services' # services => NoReader]_vars

\* exhaustive checking identifies states that differ only in the history
View == <<services, lastData, got, pubpc, pubIdx, pubData, addpc, clrpc, setpc, filter, order, big>>

\* one REPLAY line per complete word with the model's final state and the verdict of the property on it
Emit == Quiescent =>
  PrintT(<<"REPLAY", ToJson([word |-> word, services |-> services, got |-> got,
                             last |-> lastData,
                             holds |-> (order = <<>> \/ HaveLatest(services, got, LastOf(order)))])>>)
=============================================================================
