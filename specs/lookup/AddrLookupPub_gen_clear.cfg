SPECIFICATION SpecC
INVARIANT OnlyPublished Emit
CHECK_DEADLOCK FALSE
