------------------------ MODULE Judge_AddrLookupPub ------------------------
(* C30, deciding on real observations: every line of the ndjson file IOEnv.TRACE is the
   quiescent state the harness observed after forcing one word on the real
   AddressLookupServices ([services, got, last]).  Each becomes an initial state of
   AddrLookupPub with all actors done; the ghost `order` (which publish was stored last)
   is not observable, so every candidate is tried: an observation satisfies the property
   iff for some candidate the spec's own invariants AllHaveLatest and LastDataIsLatest hold. *)
EXTENDS AddrLookupPub, IOUtils
VARIABLE k
Obs == ndJsonDeserialize(IOEnv.TRACE)

JInit == /\ k \in 1..Len(Obs)
         /\ services = Obs[k].services
         /\ got = [s \in AllSvcs |-> Obs[k].got[s]]
         /\ lastData = [some |-> Obs[k].last.some, d |-> Obs[k].last.d, f |-> Obs[k].last.f]
         /\ IF Pubs = {} THEN order = <<>> ELSE \E x \in Datums : order = <<x>>
         /\ pubpc = [d \in Pubs |-> "done"] /\ pubIdx = [d \in Pubs |-> 1] /\ pubData = [d \in Pubs |-> Datum(d)]
         /\ addpc = [s \in NewSvcs |-> "done"] /\ clrpc = [c \in Clears |-> "done"]
         /\ setpc = [x \in Setters |-> "done"] /\ filter = (FilterOn \/ Setters # {})
         /\ big = "none" /\ word = <<>>
JNext == UNCHANGED <<vars, k>>
JSpec == JInit /\ [][JNext]_<<vars, k>>

Verdict == PrintT(<<"VERDICT", k, IF order = <<>> THEN "none" ELSE order[1].d, IF order = <<>> THEN FALSE ELSE order[1].f,
                    Quiescent /\ AllHaveLatest /\ LastDataIsLatest, OnlyPublished>>)
=============================================================================
