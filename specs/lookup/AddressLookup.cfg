SPECIFICATION Spec
INVARIANT AllYielded PerServiceOrder TerminalRule NothingAfterEnd OneTerminal NoEarlyEnd ReleasedOnlyWhenDone AllReleasedAtEnd Emit
VIEW View
CHECK_DEADLOCK FALSE
CONSTANTS
  ExtraPolls = 3
