SPECIFICATION Spec
INVARIANT AllYielded PerServiceOrder TerminalRule NothingAfterEnd OneTerminal NoEarlyEnd Emit
CHECK_DEADLOCK FALSE
CONSTANTS
  ExtraPolls = 3
