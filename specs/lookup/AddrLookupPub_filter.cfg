SPECIFICATION SpecF
INVARIANT AllHaveLatest LastDataIsLatest OnlyPublished
PROPERTY PushOnlyWithoutReader
VIEW View
CHECK_DEADLOCK FALSE
