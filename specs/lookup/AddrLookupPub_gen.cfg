SPECIFICATION Spec
INVARIANT OnlyPublished Emit
CHECK_DEADLOCK FALSE
