SPECIFICATION Spec
INVARIANT SessionAuth
CHECK_DEADLOCK FALSE
CONSTANTS
  Keys = {"k1", "k2", "k3"}
  NamePerId = FALSE
