SPECIFICATION Spec
INVARIANT SetIsUnion ViewsPartition Emit
PROPERTY Monotone
CHECK_DEADLOCK FALSE
CONSTANTS
  Relays = {"r1"}
  Ips = {"i1"}
  Customs = {"c1", "c2"}
