SPECIFICATION Spec
INVARIANT ClassesDecide ClassesDecideUpper MechanismIsRule OnlyPoints AcceptCarries AcceptRoundTrips SkIsPkWithoutPoint
INVARIANT BytesRule ReprIndependent InlineFits BinRule StrRule SigRule SigComplete EncodersAccepted SerdeTotal LayoutRule
INVARIANT Emit
CHECK_DEADLOCK FALSE
