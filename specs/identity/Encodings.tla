----------------------------- MODULE Encodings -----------------------------
(* C02 - Key and address encodings round-trip and parse totally.

   Decision tables for the parsers / encoders of iroh-base (no dynamics: every abstract
   case is one initial state, `Next` stutters).  TLC enumerates the table selected by
   the constant `Table`, checks that the *mechanism* (written the way the code decides)
   agrees with the *rule* the property states, and prints every case with the expected
   outcome as a REPLAY line.  harness/src/bin/vh_ident.rs (c02) concretises each case
   N times with seeded random material and pushes it through the public API.

   Code modelled (iroh-base/src):
     key.rs  decode_base32_hex        BytesFromStr: `s.len() == 64` selects HEXLOWER, anything
                                      else goes through to_ascii_uppercase + BASE32_NOPAD with
                                      the decode_len == 32 guard
             PublicKey::from_str      BytesFromStr, then from_bytes (curve point check)
             SecretKey::from_str      BytesFromStr only
             PublicKey::from_z32      Z_BASE_32.decode, then TryFrom<&[u8]> (len 32 + point)
             PublicKey::from_bytes / TryFrom<&[u8]> / Deserialize (postcard: 32 raw bytes,
                                      JSON: the FromStr path)
             SecretKey / Signature TryFrom<&[u8]>, Deserialize
             PublicKey::verify        verify_strict (SigCases)
     endpoint_addr.rs
             CustomAddrBytes::copy_from_slice   CopyFromSlice: `len <= 30` -> Inline{size: len as u8,
                                      data: [u8; 30]} else Heap
             CustomAddrBytes::{len, as_bytes}   LenOf / AsBytesLen
             CustomAddr::{to_vec, from_bytes, from_str, Display}

   A string is abstracted to (byte length, alphabet class, canonical trailing bits, material
   class).  An alphabet class is a pair (may, must) of *symbol kinds*: every character of
   the concrete string has a kind in `may`, and every kind in `must` occurs at least once.
   Symbol kinds partition the characters by which of the three decoders' alphabets they
   belong to, so that acceptance by an alphabet is decided by the class alone
   (invariant ClassesDecide). *)
EXTENDS Naturals, Sequences, FiniteSets, TLC, Json

CONSTANTS Table,        \* which decision table this run enumerates
          InlineCap,    \* size of the inline buffer of CustomAddrBytes ([u8; 30])
          Threshold     \* `data.len() <= Threshold` selects Inline (30 in the code; must be <= InlineCap)
VARIABLE c
vars == <<c>>

Invalid == 999   \* "no such length"

---------------------------------------------------------------------------
(* Symbol kinds and the three text alphabets *)
\*  d0   '0'                hex only
\*  d189 '1' '8' '9'        hex, z-base-32
\*  d2   '2'                hex, base32
\*  d37  '3'..'7'           hex, base32, z-base-32
\*  laf  'a'..'f'           hex, base32 (after upper-casing), z-base-32
\*  lgz  'g'..'z' \ {l,v}   base32 (after upper-casing), z-base-32
\*  llv  'l' 'v'            base32 (after upper-casing)
\*  uAF  'A'..'F'           base32          (HEXLOWER does not take upper case)
\*  uGZ  'G'..'Z'           base32
\*  pad  '='   na  non-ASCII (multi-byte UTF-8)   oth  other ASCII ('!', ' ', '-', ...)
Kinds == {"d0", "d189", "d2", "d37", "laf", "lgz", "llv", "uAF", "uGZ", "pad", "na", "oth"}
HexLowerSyms == {"d0", "d189", "d2", "d37", "laf"}          \* data_encoding::HEXLOWER
B32Syms      == {"d2", "d37", "uAF", "uGZ"}                   \* data_encoding::BASE32_NOPAD
Z32Syms      == {"d189", "d37", "laf", "lgz"}                 \* Z_BASE_32 (key.rs)
Upper(k) == CASE k = "laf" -> "uAF" [] k \in {"lgz", "llv"} -> "uGZ" [] OTHER -> k   \* str::to_ascii_uppercase
Img(S, up) == IF up THEN {Upper(k) : k \in S} ELSE S

AlphaNames == {"hexLower", "hexUpper", "hexMixed", "b32Upper", "b32Lower", "b32Mixed", "b32Pad",
               "z32", "b32hex", "nonAscii", "garbage"}
May(a) == CASE a = "hexLower" -> HexLowerSyms
            [] a = "hexUpper" -> {"d0", "d189", "d2", "d37", "uAF"}
            [] a = "hexMixed" -> HexLowerSyms \cup {"uAF"}
            [] a = "b32Upper" -> B32Syms
            [] a = "b32Lower" -> {"d2", "d37", "laf", "lgz", "llv"}
            [] a = "b32Mixed" -> {"d2", "d37", "laf", "lgz", "llv", "uAF", "uGZ"}
            [] a = "b32Pad"   -> B32Syms \cup {"pad"}
            [] a = "z32"      -> Z32Syms
            [] a = "b32hex"   -> {"d0", "d189", "d2", "d37", "laf", "lgz", "llv"}   \* BASE32_DNSSEC (TLS names)
            [] a = "nonAscii" -> HexLowerSyms \cup {"na"}
            [] a = "garbage"  -> HexLowerSyms \cup {"oth"}
Must(a) == CASE a = "hexLower" -> {"laf", "d0"}
            [] a = "hexUpper" -> {"uAF", "d0"}
            [] a = "hexMixed" -> {"laf", "uAF", "d0"}
            [] a = "b32Upper" -> {"uGZ"}
            [] a = "b32Lower" -> {"lgz", "d2"}
            [] a = "b32Mixed" -> {"lgz", "uGZ", "d2"}
            [] a = "b32Pad"   -> {"pad"}
            [] a = "z32"      -> {"d189", "lgz"}
            [] a = "b32hex"   -> {"d0", "lgz"}
            [] a = "nonAscii" -> {"na"}
            [] a = "garbage"  -> {"oth"}
\* every character is in the alphabet / some character certainly is not
AllIn(a, A, up)  == Img(May(a), up) \subseteq A
SomeOut(a, A, up) == ~(Img(Must(a), up) \subseteq A)

\* 5-bit encodings without padding (data_encoding decode_len): only some lengths are encodings
DecLen5(len) == IF (len % 8) \in {0, 2, 4, 5, 7} THEN (len * 5) \div 8 ELSE Invalid
TrailingBits5(len) == (len * 5) % 8
FiveBit == {"b32Upper", "b32Lower", "b32Mixed", "z32", "b32hex"}
HexLike == {"hexLower", "hexUpper", "hexMixed"}

---------------------------------------------------------------------------
(* Table "keystr": strings offered to PublicKey::from_str, SecretKey::from_str,
   PublicKey::from_z32 and the JSON deserializer of PublicKey *)
StrLens == {0, 1, 51, 52, 53, 56, 63, 64, 65, 103, 104}
StrDecs == {"pk_fromstr", "sk_fromstr", "pk_z32", "pk_json"}
\* the string is an encoding of 32 bytes of key material (so "is it a curve point" is meaningful)
Carries(len, a) == (len = 64 /\ a \in HexLike) \/ (len = 52 /\ a \in FiveBit)

\* mechanism: decode_base32_hex yields 32 bytes
BytesFromStr(len, a, canon) ==
  IF len = 64 THEN AllIn(a, HexLowerSyms, FALSE)                 \* 64 hex digits are 32 bytes
  ELSE DecLen5(len) = 32 /\ AllIn(a, B32Syms, TRUE) /\ canon     \* ensure!(decode_len == Ok(32)); decode_mut
BytesFromZ32(len, a, canon) == DecLen5(len) # Invalid /\ AllIn(a, Z32Syms, FALSE) /\ canon
AcceptStr(dec, len, a, canon, mat) ==
  CASE dec \in {"pk_fromstr", "pk_json"} -> BytesFromStr(len, a, canon) /\ mat = "point"
    [] dec = "sk_fromstr"                -> BytesFromStr(len, a, canon)
    [] dec = "pk_z32"                    -> BytesFromZ32(len, a, canon) /\ DecLen5(len) = 32 /\ mat = "point"

\* rule (the property's wording): accepted iff 64 lower-case hex digits or 52 base32 characters of
\* either case with zero trailing bits, and - for public keys - the 32 bytes are a curve point
RuleStr(dec, len, a, canon, mat) ==
  LET shape == IF dec = "pk_z32" THEN len = 52 /\ a = "z32" /\ canon
               ELSE (len = 64 /\ a = "hexLower") \/ (len = 52 /\ a \in {"b32Upper", "b32Lower", "b32Mixed"} /\ canon)
  IN shape /\ (dec = "sk_fromstr" \/ mat = "point")

\* class of the string the canonical encoder produces for an accepted value
EncoderOut(dec) == IF dec = "pk_z32" THEN [len |-> 52, alpha |-> "z32"] ELSE [len |-> 64, alpha |-> "hexLower"]

KeyStrCases ==
  { [tbl |-> "keystr", dec |-> d, len |-> l, alpha |-> a, canon |-> cn, mat |-> m,
     may |-> May(a), must |-> Must(a), accept |-> AcceptStr(d, l, a, cn, m)] :
      d \in StrDecs, l \in StrLens, a \in AlphaNames, cn \in BOOLEAN, m \in {"point", "nonpoint", "na"} }
KeyStrWanted(x) ==
  /\ (x.mat = "na") = ~Carries(x.len, x.alpha)
  /\ (~x.canon) => (x.len = 52 /\ x.alpha \in FiveBit)          \* non-canonical trailing bits exist only there
  /\ x.len >= Cardinality(Must(x.alpha)) \/ x.len \in {0, 1}      \* the markers fit into the string

\* the alphabet matters at the two lengths that pass the length checks: there the class decides
ClassesDecide == c.tbl = "keystr" /\ c.len \in {52, 64} =>
  \A A \in {HexLowerSyms, Z32Syms} : AllIn(c.alpha, A, FALSE) \/ SomeOut(c.alpha, A, FALSE)
ClassesDecideUpper == c.tbl = "keystr" /\ c.len \in {52, 64} =>
  AllIn(c.alpha, B32Syms, TRUE) \/ SomeOut(c.alpha, B32Syms, TRUE)
MechanismIsRule == c.tbl = "keystr" => c.accept = RuleStr(c.dec, c.len, c.alpha, c.canon, c.mat)
OnlyPoints == c.tbl = "keystr" /\ c.accept /\ c.dec # "sk_fromstr" => c.mat = "point"
AcceptCarries == c.tbl = "keystr" /\ c.accept => Carries(c.len, c.alpha)
\* Accept => RoundTrip: what the encoder prints for the accepted value is accepted again, with the same material
AcceptRoundTrips == c.tbl = "keystr" /\ c.accept =>
  LET o == EncoderOut(c.dec) IN AcceptStr(c.dec, o.len, o.alpha, TRUE, c.mat)
\* secret keys follow the same string rule without the point requirement
SkIsPkWithoutPoint == c.tbl = "keystr" /\ c.dec = "sk_fromstr" =>
  c.accept = AcceptStr("pk_fromstr", c.len, c.alpha, c.canon, "point")

---------------------------------------------------------------------------
(* Table "keybytes": byte strings offered to from_bytes / TryFrom<&[u8]> / postcard / JSON arrays.
   `len` is the number of payload bytes, `decl` the declared length where the format has a
   length prefix (postcard `bytes`, used by ed25519_dalek::SigningKey) else = len. *)
ByteLens == {0, 1, 31, 32, 33, 63, 64, 65}
ByteDecs == {"pk_try_from", "pk_postcard", "pk_from_bytes", "sk_try_from", "sk_postcard", "sk_json",
             "sig_try_from", "sig_postcard", "sig_json"}
Want(dec) == IF dec \in {"sig_try_from", "sig_postcard", "sig_json"} THEN 64 ELSE 32
IsPk(dec) == dec \in {"pk_try_from", "pk_postcard", "pk_from_bytes"}
\* "yes" / "no" / "either": postcard::from_bytes ignores trailing bytes, which the property does not decide
AcceptBytes(dec, len, decl, mat) ==
  LET w == Want(dec) pt == (~IsPk(dec)) \/ mat = "point" IN
  CASE dec \in {"pk_try_from", "sk_try_from", "sig_try_from", "pk_from_bytes", "sk_json", "sig_json"} ->
         IF len = w /\ pt THEN "yes" ELSE "no"
    [] dec \in {"pk_postcard", "sig_postcard"} ->                  \* fixed-size tuple: reads exactly w bytes
         IF len < w \/ ~pt THEN "no" ELSE IF len = w THEN "yes" ELSE "either"
    [] dec = "sk_postcard" ->                                       \* varint length + bytes, visitor wants 32
         IF decl > len \/ decl # w THEN "no" ELSE IF len = decl THEN "yes" ELSE "either"
KeyBytesCases ==
  { [tbl |-> "keybytes", dec |-> d, len |-> l, decl |-> dl, mat |-> m, accept |-> AcceptBytes(d, l, dl, m)] :
      d \in ByteDecs, l \in ByteLens, dl \in ByteLens, m \in {"point", "nonpoint", "na"} }
KeyBytesWanted(x) ==
  /\ (x.dec = "sk_postcard") \/ x.decl = x.len
  /\ (x.dec = "pk_from_bytes") => x.len = 32                    \* &[u8; 32] by type
  /\ (x.mat = "na") = ~(IsPk(x.dec) /\ x.len >= 32)             \* the first 32 bytes are the key material
\* rule: a value comes out only from exactly-sized input (or a sized prefix) and pk only from points
BytesRule == c.tbl = "keybytes" =>
  /\ c.accept = "yes" => c.len = Want(c.dec) /\ (IsPk(c.dec) => c.mat = "point")
  /\ c.accept = "either" => c.len > Want(c.dec)
  /\ IsPk(c.dec) /\ c.mat = "nonpoint" => c.accept = "no"
  /\ c.len < Want(c.dec) => c.accept = "no"

---------------------------------------------------------------------------
(* Table "caddr": CustomAddr construction routes x payload length x id class.
   The struct is modelled as the code stores it. *)
PayloadLens == {0, 1, 29, 30, 31, 32, 255, 256, 4096}
IdClasses == {"zero", "one", "mid", "max"}                       \* 0, 1, 0x544f52, 2^64 - 1
Routes == {"from_parts", "tuple", "from_bytes", "postcard", "json", "fromstr"}
PanicRepr == [tag |-> "Panic", size |-> 0, heap |-> 0]
CopyFromSlice(n) ==
  IF n <= Threshold
    THEN IF n <= InlineCap THEN [tag |-> "Inline", size |-> n % 256, heap |-> 0]   \* inline[..n].copy_from_slice; n as u8
         ELSE PanicRepr                                                             \* slice index out of range
    ELSE [tag |-> "Heap", size |-> 0, heap |-> n]
LenOf(r) == IF r.tag = "Inline" THEN r.size ELSE r.heap                 \* CustomAddrBytes::len
AsBytesLen(r) == IF r.tag = "Inline" THEN (IF r.size <= InlineCap THEN r.size ELSE Invalid) ELSE r.heap  \* &data[..size]
IdHexLen(ic) == CASE ic = "zero" -> 1 [] ic = "one" -> 1 [] ic = "mid" -> 6 [] ic = "max" -> 16   \* {:x}
CAddrCases ==
  { [tbl |-> "caddr", route |-> r, n |-> n, idc |-> ic, repr |-> CopyFromSlice(n).tag,
     data_len |-> AsBytesLen(CopyFromSlice(n)), vec_len |-> 8 + LenOf(CopyFromSlice(n)),
     str_len |-> IdHexLen(ic) + 1 + 2 * AsBytesLen(CopyFromSlice(n))] :
      r \in Routes, n \in PayloadLens, ic \in IdClasses }
\* every observable depends on (id, bytes) only: the lengths are those of the payload whatever the representation
ReprIndependent == c.tbl = "caddr" =>
  /\ c.repr # "Panic"
  /\ c.data_len = c.n /\ c.vec_len = 8 + c.n /\ c.str_len = IdHexLen(c.idc) + 1 + 2 * c.n
InlineFits == c.tbl = "caddr" /\ c.repr = "Inline" => c.n <= InlineCap /\ c.n < 256

(* Table "caddrbin": byte strings of total length L offered to CustomAddr::from_bytes *)
BinLens == {0, 1, 7, 8, 9, 37, 38, 39, 40, 263}
CAddrBinCases == { [tbl |-> "caddrbin", total |-> L, accept |-> (L >= 8), n |-> IF L >= 8 THEN L - 8 ELSE 0,
                    repr |-> IF L >= 8 THEN CopyFromSlice(L - 8).tag ELSE "none"] : L \in BinLens }
BinRule == c.tbl = "caddrbin" => (c.accept = (c.total >= 8)) /\ c.repr # "Panic"

(* Table "caddrstr": strings offered to CustomAddr::from_str: <id hex> '_' <data hex>.
   "lenient" forms (upper case, leading zeros, '+') are outside the documented format; the
   property only requires that parsing them is total and that an accepted one has the numeric value. *)
IdForms == {"canon", "upper", "leadzero", "plus", "empty", "overflow", "nonhex", "zerox", "minus"}
DataForms == {"lower", "empty", "upper", "odd", "nonhex", "hassep"}
IdVerdict(f) == CASE f = "canon" -> "yes" [] f \in {"upper", "leadzero", "plus"} -> "either" [] OTHER -> "no"
DataVerdict(f) == CASE f \in {"lower", "empty"} -> "yes" [] f = "upper" -> "either" [] OTHER -> "no"
Both(a, b) == IF a = "no" \/ b = "no" THEN "no" ELSE IF a = "yes" /\ b = "yes" THEN "yes" ELSE "either"
CAddrStrCases ==
  { [tbl |-> "caddrstr", sep |-> s, idf |-> i, dataf |-> d,
     accept |-> IF s THEN Both(IdVerdict(i), DataVerdict(d)) ELSE "no"] :
      s \in BOOLEAN, i \in IdForms, d \in DataForms }
CAddrStrWanted(x) == x.sep \/ x.dataf # "hassep"
StrRule == c.tbl = "caddrstr" =>
  /\ (c.idf = "canon" /\ c.dataf \in {"lower", "empty"} /\ c.sep) = (c.accept = "yes")   \* Display output parses
  /\ ~c.sep => c.accept = "no"

---------------------------------------------------------------------------
(* Table "sig": symbolic signatures.  Sig(sk, m) verifies under pk for msg iff pk = Pub(sk) and
   msg = m and the 64 bytes are untouched.  "weak" is the small-order public key with the
   identity signature, which non-strict verification accepts for every message. *)
SigKeys == {"k1", "k2"}
SigMsgs == {"m1", "m2"}
Tampers == {"none", "flipR", "flipS", "zero", "sPlusL", "reencoded"}
Verify(pk, msg, sk, m, t) == pk = sk /\ msg = m /\ t \in {"none", "reencoded"}
SigCases ==
  { [tbl |-> "sig", pk |-> pk, msg |-> msg, sk |-> sk, m |-> m, tamper |-> t, ok |-> Verify(pk, msg, sk, m, t)] :
      pk \in SigKeys, msg \in SigMsgs, sk \in SigKeys, m \in SigMsgs, t \in Tampers }
  \cup { [tbl |-> "sig", pk |-> "weak", msg |-> msg, sk |-> "weak", m |-> "m1", tamper |-> "identity", ok |-> FALSE] :
      msg \in SigMsgs }
SigRule == c.tbl = "sig" => (c.ok => c.pk = c.sk /\ c.msg = c.m)
SigComplete == c.tbl = "sig" /\ c.pk = c.sk /\ c.msg = c.m /\ c.tamper = "none" /\ c.pk # "weak" => c.ok

---------------------------------------------------------------------------
(* Table "matrix": Enc x Type support.  "rt": encode then decode is the identity and the encoder
   output has the stated class; "dec": decoder only (the harness encodes with data_encoding);
   "enc": encoder only (must not panic); "none". *)
Types == {"pk", "sk", "sig", "caddr", "taddr", "eaddr", "rurl"}
Encs == {"str", "b32", "z32", "postcard", "json", "bin"}
Support(t, e) ==
  CASE t = "pk"    -> (CASE e = "b32" -> "dec" [] OTHER -> "rt")
    [] t = "sk"    -> (CASE e \in {"str", "b32"} -> "dec" [] e = "z32" -> "none" [] OTHER -> "rt")
    [] t = "sig"   -> (CASE e = "str" -> "enc" [] e \in {"b32", "z32"} -> "none" [] OTHER -> "rt")
    [] t = "caddr" -> (CASE e \in {"b32", "z32"} -> "none" [] OTHER -> "rt")
    [] t = "taddr" -> (CASE e = "str" -> "enc" [] e \in {"postcard", "json"} -> "rt" [] OTHER -> "none")
    [] t = "eaddr" -> (CASE e \in {"postcard", "json"} -> "rt" [] OTHER -> "none")
    [] t = "rurl"  -> (CASE e \in {"str", "postcard", "json"} -> "rt" [] OTHER -> "none")
\* value classes: keys are random or special material; addresses are sets of transport-address kinds
AddrKinds == {"ip4", "ip6", "relay", "cinline", "cheap"}
VClasses(t) == CASE t \in {"pk", "sk"} -> {{"random"}, {"special"}}
                 [] t = "sig"   -> {{"random"}}
                 [] t = "caddr" -> {{"cinline"}, {"cheap"}}
                 [] t = "taddr" -> {{k} : k \in AddrKinds}
                 [] t = "eaddr" -> SUBSET AddrKinds
                 [] t = "rurl"  -> {{"relay"}}
\* class of the text an encoder prints (checked on the real output; "" = not a key string)
OutClass(t, e) == CASE t = "pk" /\ e = "str" -> [len |-> 64, alpha |-> "hexLower"]
                    [] t = "pk" /\ e = "z32" -> [len |-> 52, alpha |-> "z32"]
                    [] OTHER -> [len |-> 0, alpha |-> ""]
MatrixCases ==
  { [tbl |-> "matrix", type |-> t, enc |-> e, support |-> Support(t, e), vclass |-> v, out |-> OutClass(t, e)] :
      t \in Types, e \in Encs, v \in UNION {VClasses(tt) : tt \in Types} }
MatrixWanted(x) == x.support # "none" /\ x.vclass \in VClasses(x.type)
\* consistency between the tables: the string a key encoder prints is one its decoder table accepts
EncodersAccepted == c.tbl = "matrix" /\ c.out.alpha # "" /\ c.support = "rt" =>
  AcceptStr(IF c.enc = "z32" THEN "pk_z32" ELSE "pk_fromstr", c.out.len, c.out.alpha, TRUE, "point")
\* every type can be carried in both serde formats, and those round trips are identities
SerdeTotal == c.tbl = "matrix" /\ c.enc \in {"postcard", "json"} => c.support = "rt"

---------------------------------------------------------------------------
(* Table "layout": the postcard wire form field by field, and the mutation layer over it
   (truncate at each field boundary, flip one bit per field, extend by one byte).
   Verdicts: "no" must be refused, "yes" must decode (to the mutated content), "point" decodes iff
   the mutated 32 bytes are still a curve point, "either" is not decided by the property.  In every
   case decoding is total, and whatever decodes must re-encode and decode to itself. *)
Layout(t) == CASE t = "pk"    -> <<"key32">>
               [] t = "sig"   -> <<"sig64">>
               [] t = "caddr" -> <<"id_varint", "len_varint", "data">>
               [] t = "taddr" -> <<"tag_varint", "payload">>
               [] t = "eaddr" -> <<"key32", "count_varint", "elem", "elem">>
LayoutTypes == {"pk", "sig", "caddr", "taddr", "eaddr"}
Mutations == {"truncate", "flip", "extend"}
\* opaque content: every bit pattern of the field is a value
Opaque == {"sig64", "data"}
MutVerdict(fname, m) ==
  CASE m = "truncate" -> "no"                     \* a prefix that ends before the last field ends is incomplete
    [] m = "extend"   -> "either"                 \* postcard::from_bytes leaves trailing bytes unread
    [] m = "flip"     -> IF fname = "key32" THEN "point" ELSE IF fname \in Opaque THEN "yes" ELSE "either"
LayoutCases == UNION {
  { [tbl |-> "layout", type |-> t, field |-> i, fname |-> Layout(t)[i], nfields |-> Len(Layout(t)), mut |-> m,
     verdict |-> MutVerdict(Layout(t)[i], m)] : i \in 1..Len(Layout(t)), m \in Mutations } : t \in LayoutTypes }
LayoutWanted(x) == x.field <= Len(Layout(x.type)) /\ (x.mut = "extend" => x.field = Len(Layout(x.type)))
LayoutRule == c.tbl = "layout" =>
  /\ c.mut = "truncate" => c.verdict = "no"
  /\ c.verdict = "yes" => c.mut = "flip" /\ c.fname \in Opaque
  /\ c.fname = "key32" /\ c.mut = "flip" => c.verdict = "point"       \* OnlyPoints carries over to the wire form

---------------------------------------------------------------------------
CasesOf(T) == CASE T = "keystr"   -> {x \in KeyStrCases : KeyStrWanted(x)}
           [] T = "keybytes" -> {x \in KeyBytesCases : KeyBytesWanted(x)}
           [] T = "caddr"    -> CAddrCases
           [] T = "caddrbin" -> CAddrBinCases
           [] T = "caddrstr" -> {x \in CAddrStrCases : CAddrStrWanted(x)}
           [] T = "sig"      -> SigCases
           [] T = "matrix"   -> {x \in MatrixCases : MatrixWanted(x)}
           [] T = "layout"   -> {x \in LayoutCases : LayoutWanted(x)}
           
Tables == {"keystr", "keybytes", "caddr", "caddrbin", "caddrstr", "sig", "matrix", "layout"}
Cases == IF Table = "all" THEN UNION {CasesOf(t) : t \in Tables} ELSE CasesOf(Table)

Init == c \in Cases
Stutter == UNCHANGED c
Next == Stutter
Spec == Init /\ [][Next]_vars

Emit == PrintT(<<"REPLAY", ToJson(c)>>)
=============================================================================
