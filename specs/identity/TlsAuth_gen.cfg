SPECIFICATION Spec
INVARIANT DialAuth ClientAuth ServerAuth HonestCompletes NameRoundTrip NameShapeRule NamesWithinAllowed NoWeakIdentity
INVARIANT Emit
CHECK_DEADLOCK FALSE
CONSTANTS
  Keys = {"k1", "k2", "k3"}
  WeakKeys = {"w1"}
  HeldMode = "full"
  CheckSpki = TRUE
  CheckSig = TRUE
  Strict = TRUE
