SPECIFICATION Spec
INVARIANT DialAuth ClientAuth ServerAuth HonestCompletes NameRoundTrip NameShapeRule NamesWithinAllowed
INVARIANT Emit
CHECK_DEADLOCK FALSE
CONSTANTS
  Keys = {"k1", "k2", "k3"}
  HeldMode = "full"
  CheckSpki = TRUE
  CheckSig = TRUE
