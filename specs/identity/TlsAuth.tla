------------------------------ MODULE TlsAuth ------------------------------
(* C01 - Dialing by public key authenticates the remote endpoint.

   Symbolic (Dolev-Yao style) model of iroh's TLS 1.3 raw-public-key authentication.
   Keys are names; the peer of a handshake holds a set `held` of secret keys and can make a
   CertificateVerify signature only with a key it holds.  What it presents (an offer) is
   otherwise unconstrained: any server name may reach the verifier, any byte string may be the
   end-entity "certificate", any number of intermediates may follow.

   Code modelled (iroh/src):
     tls/name.rs      encode / decode          EncName / DecodeName over the label structure
                                               `[base32, "iroh", "invalid"]`
     tls/verifier.rs  ServerCertificateVerifier::verify_server_cert    ServerCertErr: the checks in
                                               code order (name type, name decodes, no intermediates,
                                               SPKI(decoded id) = end entity)
                      ClientCertificateVerifier::verify_client_cert    ClientCertErr (no intermediates)
                      verify_tls13_signature (both), Ed25519Dalek::verify_signature    SigOk: scheme is
                                               Ed25519, the certificate is exactly an Ed25519 SPKI and
                                               the signature was made by that key
     tls/resolver.rs  ResolveRawPublicKeyCert  the honest offer: <<Enc(dialed), Spki(k), 0, k>>
     endpoint/connection.rs  remote_id_from_noq_conn    Complete: id = key of the single peer cert
     endpoint.rs      connect_with_opts        the dialer's server name is EncName(dialed id)

   One handshake per behaviour, seen from the verifying side `side`:
     "client": we dialed, the peer is the server  (verify_server_cert + signature)
     "server": we accepted, the peer is the client (verify_client_cert + signature)
   Actions: PeerOffer, VerifyCert, VerifySig, Complete (rustls calls the certificate check, then
   the signature check, and finishes the handshake only if both succeed).

   CheckSpki / CheckSig = TRUE is the design the property requires (and the pinned code);
   FALSE drops the SPKI comparison / the signature check and must be refuted (anti-vacuity).

   Weak keys.  An endpoint id only has to be a curve point, and the eight small-order points are
   curve points.  For such a point A the permissive Ed25519 equation [s]B = R + [k]A is satisfied by
   s = 0 and a small-order R chosen from eight candidates, for every message: a "universal forgery"
   that anybody can write down without any secret (Forgery below).  The property demands proof of
   the *secret* key, and for a weak id there is none to prove: such a handshake must never complete.
   Ed25519Dalek::verify_signature goes through iroh_base::PublicKey::verify = verify_strict, which
   refuses small-order A and R (Strict = TRUE); Strict = FALSE models dalek's plain `verify` and
   must be refuted. *)
EXTENDS Naturals, FiniteSets, TLC, Json

CONSTANTS Keys,        \* names of ordinary keys: a secret key exists, a party may or may not hold it
          WeakKeys,    \* names of valid-but-weak curve points (the small-order points of edwards25519, which
                       \* EndpointId::from_bytes accepts): usable as an id, but NOBODY holds a secret for them
          MaxInter,    \* max. number of intermediates in an offer
          HeldMode,    \* which key sets the peer may hold: "all" = SUBSET Keys (the proof), "full" = {Keys}
                       \* (every offer reachable once: prints the cases), "few" = {{}, {one key}} (refutations)
          CheckSpki, CheckSig,
          Strict       \* TRUE: signatures are checked with verify_strict (iroh_base::PublicKey::verify, the pinned
                       \* code); FALSE: with the permissive Ed25519 check, which accepts small-order A and R
VARIABLES side, held, offer, phase, remoteId
vars == <<side, held, offer, phase, remoteId>>

None == "none"
HeldSets == CASE HeldMode = "all" -> SUBSET Keys
              [] HeldMode = "full" -> {Keys}
              [] HeldMode = "few" -> {{}, {CHOOSE k \in Keys : TRUE}}

---------------------------------------------------------------------------
(* Server names.  A name is (form, key); Struct gives its label structure. *)
NameForms == {"enc",          \* what name::encode prints: <base32hex lower of 32 key bytes>.iroh.invalid
              "encUpper",     \* the base32 label in upper case
              "upperSuffix",  \* ....IROH.INVALID
              "trailingDot",  \* enc + "."
              "subdomain",    \* "x." + enc
              "noMid",        \* <base32>.invalid
              "bare",         \* iroh.invalid
              "wrongTld",     \* <base32>.iroh.example
              "wrongMid",     \* <base32>.irox.invalid
              "short",        \* label of 51 symbols
              "long",         \* label of 53..56 symbols
              "notBase32",    \* 52 symbols, some outside 0-9a-v
              "nonCanon",     \* 52 symbols with non-zero trailing bits
              "nonPoint",     \* label decodes to 32 bytes that are not a curve point (key component unused)
              "emptyLabel",   \* .iroh.invalid
              "ip"}           \* an IP literal (ServerName::IpAddress)
Struct(f) ==
  CASE f = "enc"         -> [labels |-> 3, first |-> "b32",      mid |-> "iroh",  tld |-> "invalid"]
    [] f = "encUpper"    -> [labels |-> 3, first |-> "b32Upper", mid |-> "iroh",  tld |-> "invalid"]
    [] f = "upperSuffix" -> [labels |-> 3, first |-> "b32",      mid |-> "IROH",  tld |-> "INVALID"]
    [] f = "trailingDot" -> [labels |-> 4, first |-> "b32",      mid |-> "iroh",  tld |-> "invalid"]
    [] f = "subdomain"   -> [labels |-> 4, first |-> "x",        mid |-> "b32",   tld |-> "iroh"]
    [] f = "noMid"       -> [labels |-> 2, first |-> "b32",      mid |-> "invalid", tld |-> ""]
    [] f = "bare"        -> [labels |-> 2, first |-> "iroh",     mid |-> "invalid", tld |-> ""]
    [] f = "wrongTld"    -> [labels |-> 3, first |-> "b32",      mid |-> "iroh",  tld |-> "example"]
    [] f = "wrongMid"    -> [labels |-> 3, first |-> "b32",      mid |-> "irox",  tld |-> "invalid"]
    [] f = "ip"          -> [labels |-> 4, first |-> "127",      mid |-> "0",     tld |-> "0"]
    [] OTHER             -> [labels |-> 3, first |-> f,          mid |-> "iroh",  tld |-> "invalid"]
\* BASE32_DNSSEC.decode(label) -> 32 bytes -> EndpointId::from_bytes
LabelDecode(first, k) == IF first \in {"b32", "b32Upper"} THEN k ELSE None   \* DNSSEC base32 decodes case-insensitively
\* name::decode: `let [label, "iroh", "invalid"] = name.split(".")[..] else None`
DecodeName(n) == LET s == Struct(n.form) IN
  IF s.labels = 3 /\ s.mid = "iroh" /\ s.tld = "invalid" THEN LabelDecode(s.first, n.key) ELSE None
EncName(k) == [form |-> "enc", key |-> k]
\* What the property determines: case variants are DNS-equivalent spellings of the same shape, so
\* decoding them to the key or refusing them both satisfy it; everything else is determined.
DecodeAllowed(n) == IF n.form \in {"encUpper", "upperSuffix"} THEN {n.key, None} ELSE {DecodeName(n)}
KeyedForms == NameForms \ {"nonPoint", "ip", "bare", "emptyLabel"}
AllKeys == Keys \cup WeakKeys
Names == {[form |-> f, key |-> k] : f \in KeyedForms, k \in Keys}
           \cup {[form |-> f, key |-> None] : f \in NameForms \ KeyedForms}
           \cup {[form |-> "enc", key |-> w] : w \in WeakKeys}          \* a weak id is dialable like any other
NoName == [form |-> "na", key |-> None]

(* End-entity "certificates": (class, key) *)
EEKeyed == {"spki",        \* rustls::sign::public_key_to_spki(ED25519, key): what an iroh endpoint presents
            "badPrefix",   \* one byte of the 12-byte DER prefix changed (length / tag / unused-bits)
            "badAlg",      \* a different algorithm OID (X25519) around the same key bytes
            "trailing",    \* the SPKI followed by an extra byte
            "x509",        \* an X.509-looking certificate whose SPKI holds the key
            "rawkey"}      \* the bare 32 key bytes
EEUnkeyed == {"nonPointSpki", "garbage", "empty"}
EEs == {[cls |-> c, key |-> k] : c \in EEKeyed, k \in Keys} \cup {[cls |-> c, key |-> None] : c \in EEUnkeyed}
         \cup {[cls |-> "spki", key |-> w] : w \in WeakKeys}              \* the well-formed SPKI of a weak point
\* the key for which `ee` is byte-for-byte the Ed25519 SPKI
SpkiKey(ee) == IF ee.cls = "spki" THEN ee.key ELSE None

Replay == "replay"   \* a genuine signature by the presented key, but over another handshake's transcript
Forgery == "forgery" \* the universal forgery for weak keys (s = 0, R small-order): anybody can construct it, it is
                     \* NOT a signature by any secret key
Free == {None, Replay, Forgery}                \* what the peer can present without holding a secret
Signers == Keys \cup Free                      \* None: a signature not made with any key (random bytes)
Schemes == {"ed25519", "other"}
AllOffers == [name : Names \cup {NoName}, ee : EEs, inter : 0..MaxInter, signer : Signers, scheme : Schemes]
NoOffer == [name |-> NoName, ee |-> [cls |-> "empty", key |-> None], inter |-> 0, signer |-> None, scheme |-> "other"]
ForSide(o, s) == IF s = "client" THEN o.name # NoName ELSE o.name = NoName     \* only the dialer has a server name

---------------------------------------------------------------------------
(* The verifiers *)
ServerCertErr(o) ==
  IF o.name.form = "ip" THEN "UnsupportedNameType"
  ELSE IF DecodeName(o.name) = None THEN "NotValidForName"
  ELSE IF o.inter > 0 THEN "UnknownIssuer"
  ELSE IF CheckSpki /\ SpkiKey(o.ee) # DecodeName(o.name) THEN "UnknownIssuer"
  ELSE "ok"
ClientCertErr(o) == IF o.inter > 0 THEN "UnknownIssuer" ELSE "ok"
CertErr(s, o) == IF s = "client" THEN ServerCertErr(o) ELSE ClientCertErr(o)
\* Ed25519Dalek::verify_signature(key k, transcript, signature term sg)
Verifies(k, sg) == \/ sg = k                                             \* made with k's secret over this transcript
                   \/ (~Strict) /\ k \in WeakKeys /\ sg = Forgery          \* permissive check only
\* verify_tls13_signature: the certificate parses as an Ed25519 SPKI and the signature verifies under that key
SigOk(o) == (~CheckSig) \/ (o.scheme = "ed25519" /\ SpkiKey(o.ee) # None /\ Verifies(SpkiKey(o.ee), o.signer))
Completes(s, o) == CertErr(s, o) = "ok" /\ SigOk(o)

---------------------------------------------------------------------------
Init == /\ side \in {"client", "server"} /\ held \in HeldSets
        /\ offer = NoOffer /\ phase = "start" /\ remoteId = None

\* the peer presents anything it can build; it signs this handshake only with keys it holds
\* (it may replay signatures it has seen, of any key, and write down the universal forgery)
PeerOffer == /\ phase = "start"
             /\ \E o \in AllOffers : /\ ForSide(o, side) /\ o.signer \in held \cup Free
                                     /\ offer' = o
             /\ phase' = "offered" /\ UNCHANGED <<side, held, remoteId>>
VerifyCert == /\ phase = "offered"
              /\ phase' = IF CertErr(side, offer) = "ok" THEN "certOk" ELSE "failed"
              /\ UNCHANGED <<side, held, offer, remoteId>>
VerifySig == /\ phase = "certOk"
             /\ phase' = IF SigOk(offer) THEN "sigOk" ELSE "failed"
             /\ UNCHANGED <<side, held, offer, remoteId>>
\* the connection is established; remote_id() is the key of the single peer certificate
Complete == /\ phase = "sigOk"
            /\ phase' = "done" /\ remoteId' = SpkiKey(offer.ee)
            /\ UNCHANGED <<side, held, offer>>
Next == PeerOffer \/ VerifyCert \/ VerifySig \/ Complete
Spec == Init /\ [][Next]_vars

---------------------------------------------------------------------------
(* C01 *)
\* a dial to id d completes only against a peer that holds d's secret key, and reports d
DialAuth == side = "client" /\ phase = "done" =>
  \A d \in AllKeys : offer.name = EncName(d) => d \in held /\ remoteId = d        \* held \subseteq Keys: never for a weak id
\* whatever name reached the verifier: completion means the peer proved the key the name decodes to
ClientAuth == side = "client" /\ phase = "done" =>
  /\ DecodeName(offer.name) # None /\ DecodeName(offer.name) \in held /\ remoteId = DecodeName(offer.name)
\* the accepting side reports a key the client really holds
ServerAuth == side = "server" /\ phase = "done" => remoteId # None /\ remoteId \in held
\* an honest peer that holds the dialed key does get through (the property is not vacuous)
HonestOffer(d) == [name |-> EncName(d), ee |-> [cls |-> "spki", key |-> d], inter |-> 0, signer |-> d, scheme |-> "ed25519"]
HonestCompletes == \A d \in Keys : Completes("client", HonestOffer(d))
\* names: encode/decode round trip, and decoding succeeds only on the exact three-label shape
NameRoundTrip == \A k \in AllKeys : DecodeName(EncName(k)) = k
\* nobody is ever authenticated as a weak id, on either side
NoWeakIdentity == phase = "done" => remoteId \notin WeakKeys
NameShapeRule == \A n \in Names : DecodeName(n) # None =>
  LET s == Struct(n.form) IN s.labels = 3 /\ s.mid = "iroh" /\ s.tld = "invalid" /\ s.first \in {"b32", "b32Upper"}
                                /\ DecodeName(n) = n.key
NamesWithinAllowed == \A n \in Names : DecodeName(n) \in DecodeAllowed(n)

---------------------------------------------------------------------------
\* one REPLAY line per offer and side (held = Keys makes every offer reachable)
Flat(o) == [form |-> o.name.form, nkey |-> o.name.key, ee |-> o.ee.cls, ekey |-> o.ee.key,
            inter |-> o.inter, signer |-> o.signer, scheme |-> o.scheme]
Emit == (phase \in {"done", "failed"} /\ held = Keys) =>
  PrintT(<<"REPLAY", ToJson([side |-> side, o |-> Flat(offer),
                              cert_ok |-> (CertErr(side, offer) = "ok"), cert_err |-> CertErr(side, offer),
                              sig_ok |-> SigOk(offer), complete |-> (phase = "done"), remote_id |-> remoteId,
                              decode |-> DecodeAllowed(offer.name),
                              honest |-> ((side = "client" => offer.name.form = "enc") /\ offer.ee.cls = "spki" /\ offer.inter = 0
                                          /\ offer.signer = offer.ee.key /\ offer.scheme = "ed25519"),
                              \* the key-less impostor: presents a weak point and the universal forgery
                              impostor |-> ((side = "client" => offer.name = EncName(offer.ee.key)) /\ offer.ee.cls = "spki"
                                            /\ offer.ee.key \in WeakKeys /\ offer.inter = 0 /\ offer.signer = Forgery
                                            /\ offer.scheme = "ed25519")])>>)
=============================================================================
