----------------------------- MODULE TlsSession -----------------------------
(* C01 (growth) - authentication across several dials of one endpoint: TLS session resumption.

   iroh/src/tls/name.rs explains why the TLS server name is derived from the dialed endpoint id:
   rustls keeps session tickets in a cache keyed by server name (tls.rs: TlsConfig::session_store,
   make_client_config: Resumption::store + enable_early_data).  A resumed (PSK) handshake carries no
   Certificate / CertificateVerify, so verify_server_cert is NOT called again: the client trusts
   whatever it stored in that bucket.  Authentication of a resumed connection therefore rests on
   "bucket Enc(d) only ever holds tickets issued by an endpoint that proved key d".

   One dialer, one server endpoint S_a per key a (S_a holds exactly a's secret key and can open
   only the tickets it issued itself).  Action Dial(d, a): connect to id d at the address of S_a:
     - the dialer offers the tickets in bucket Bucket(d); S_a resumes iff one of them is its own;
     - otherwise a full handshake runs: TlsAuth.tla's honest offer <<Enc(d), Spki(a), 0, a>>,
       which completes iff a = d;
     - after any completed handshake S_a issues fresh tickets, stored under Bucket(d);
     - remote_id() is the key of the peer certificate: presented (full) or stored (resumed).
   `book` is the dialer's address book: addresses accumulate per id inside an endpoint, so a
   behaviour uses one address per id (this is what lets the e2e driver replay a behaviour on a
   single real endpoint without two addresses competing for one id).

   NamePerId = TRUE is the pinned code (connect_with_opts passes name::encode(endpoint_id));
   FALSE is the historical constant server name and must be refuted. *)
EXTENDS Naturals, Sequences, FiniteSets, TLC, Json

CONSTANTS Keys, MaxDials, NamePerId
VARIABLES book, cache, log
vars == <<book, cache, log>>

None == "none"
Buckets == Keys \cup {"const"}
Bucket(d) == IF NamePerId THEN d ELSE "const"

Init == /\ book = [d \in Keys |-> None]
        /\ cache = [b \in Buckets |-> {}]
        /\ log = <<>>

Dial(d, a) ==
  /\ Len(log) < MaxDials
  /\ book[d] \in {None, a}
  /\ LET b == Bucket(d)
         resumed == a \in cache[b]      \* S_a recognises one of the offered tickets
         full == (a = d)                \* TlsAuth: the full handshake completes iff the peer holds d
         ok == resumed \/ full
     IN /\ cache' = IF ok THEN [cache EXCEPT ![b] = @ \cup {a}] ELSE cache
        /\ log' = Append(log, [dial |-> d, at |-> a, resumed |-> resumed, ok |-> ok,
                               remote |-> IF ok THEN a ELSE None])
  /\ book' = [book EXCEPT ![d] = a]

DialStep == \E d \in Keys, a \in Keys : Dial(d, a)
Next == DialStep
Spec == Init /\ [][Next]_vars

---------------------------------------------------------------------------
\* every established connection, resumed or not, is with the holder of the dialed key and says so
SessionAuth == \A i \in 1..Len(log) : log[i].ok => log[i].at = log[i].dial /\ log[i].remote = log[i].dial
\* the mechanism behind it: a bucket only holds tickets of the endpoint it is named after
BucketsPartitioned == NamePerId => \A d \in Keys : cache[d] \subseteq {d}
\* a resumption is preceded by a completed handshake with the same endpoint for the same id
ResumeNeedsHistory == \A i \in 1..Len(log) : log[i].resumed =>
  \E j \in 1..(i - 1) : log[j].ok /\ log[j].at = log[i].at /\ Bucket(log[j].dial) = Bucket(log[i].dial)
\* honest dials always get through
HonestConnects == \A i \in 1..Len(log) : log[i].at = log[i].dial => log[i].ok

Emit == Len(log) = MaxDials => PrintT(<<"REPLAY", ToJson([dials |-> log])>>)
=============================================================================
