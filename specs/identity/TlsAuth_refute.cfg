SPECIFICATION Spec
INVARIANT DialAuth
CHECK_DEADLOCK FALSE
CONSTANTS
  Keys = {"k1", "k2"}
  HeldMode = "few"
  MaxInter = 0
