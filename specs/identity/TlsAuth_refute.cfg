SPECIFICATION Spec
INVARIANT DialAuth
CHECK_DEADLOCK FALSE
CONSTANTS
  Keys = {"k1", "k2"}
  WeakKeys = {"w1"}
  HeldMode = "few"
  MaxInter = 0
