SPECIFICATION Spec
INVARIANT SessionAuth BucketsPartitioned ResumeNeedsHistory HonestConnects
INVARIANT Emit
CHECK_DEADLOCK FALSE
CONSTANTS
  Keys = {"k1", "k2", "k3"}
