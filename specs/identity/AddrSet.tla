------------------------------ MODULE AddrSet ------------------------------
(* C02 (growth) - EndpointAddr is a *set* of transport addresses.

   iroh-base/src/endpoint_addr.rs: `EndpointAddr { id, addrs: BTreeSet<TransportAddr> }` with the
   builders new / from_parts / with_relay_url / with_ip_addr / with_addrs and the views is_empty /
   ip_addrs / relay_urls.  One action per builder call; `hist` is the behaviour with the expected
   views after every call, replayed on the real type by harness/src/bin/vh_ident.rs (c02a).
   The harness additionally rebuilds the final value from the expected set in a shuffled order with
   duplicates and requires the two values to be equal, to hash equally and to encode to the same
   postcard / JSON bytes (canonical form: C02's "survives every encoding unchanged" needs equal
   values to have one encoding).

   Addresses are names; the kind is fixed by the constant sets. *)
EXTENDS Naturals, Sequences, FiniteSets, TLC, Json

CONSTANTS Relays, Ips, Customs, MaxSteps
VARIABLES set, given, hist
vars == <<set, given, hist>>

Addrs == Relays \cup Ips \cup Customs
\* argument lists of from_parts / with_addrs: up to two entries, duplicates allowed
Lists == {<<>>} \cup {<<a>> : a \in Addrs} \cup {<<a, b>> : a \in Addrs, b \in Addrs}
Elems(l) == {l[i] : i \in 1..Len(l)}

View(s) == [addrs |-> s, empty |-> (s = {}), ips |-> s \cap Ips, relays |-> s \cap Relays]
Log(op, args) == hist' = Append(hist, [op |-> op, args |-> args, view |-> View(set')])
Bound == Len(hist) < MaxSteps

Init == set = {} /\ given = {} /\ hist = <<>>          \* EndpointAddr::new(id)

FromParts(l) == /\ Bound /\ set' = Elems(l) /\ given' = Elems(l) /\ Log("from_parts", l)
WithRelay(r) == /\ Bound /\ set' = set \cup {r} /\ given' = given \cup {r} /\ Log("with_relay_url", <<r>>)
WithIp(i)    == /\ Bound /\ set' = set \cup {i} /\ given' = given \cup {i} /\ Log("with_ip_addr", <<i>>)
WithAddrs(l) == /\ Bound /\ set' = set \cup Elems(l) /\ given' = given \cup Elems(l) /\ Log("with_addrs", l)

Next == (\E l \in Lists : FromParts(l)) \/ (\E r \in Relays : WithRelay(r)) \/ (\E i \in Ips : WithIp(i))
        \/ (\E l \in Lists : WithAddrs(l))
Spec == Init /\ [][Next]_vars

\* the value is exactly the addresses given since it was constructed: no order, no multiplicity, nothing lost
SetIsUnion == set = given
\* builders only add
Monotone == [][ (hist' # hist /\ hist'[Len(hist')].op # "from_parts") => set \subseteq set' ]_vars
ViewsPartition == LET v == View(set) IN v.ips \cup v.relays \cup (set \cap Customs) = set /\ v.empty = (Cardinality(set) = 0)

Emit == Len(hist) = MaxSteps => PrintT(<<"REPLAY", ToJson([steps |-> hist])>>)
=============================================================================
