SPECIFICATION Spec
INVARIANT DialAuth ClientAuth ServerAuth HonestCompletes NameRoundTrip NameShapeRule NamesWithinAllowed NoWeakIdentity
CHECK_DEADLOCK FALSE
CONSTANTS
  Keys = {"k1", "k2", "k3"}
  WeakKeys = {"w1"}
