--------------------------- MODULE RouterLifecycle ---------------------------
(* Growth of the router specification beyond C40-C42: connections in flight while the router shuts down.

   Models iroh/src/protocol.rs, RouterBuilder::spawn (run loop 520-613) with connection tasks:
     Dial(k)            a dialer starts connection k towards the router's endpoint (allowed until the endpoint is closed)
     LoopAccept(k)      select branch `endpoint.accept()` (only polled when the cancel branch is not ready: `biased`),
                        filter passes, `join_set.spawn(token.run_until_cancelled(handle_connection(..)))`
     HandlerStart(k)    handshake done, `handler.accept(connection)` is running
     HandlerFinish(k)   `handler.accept` returns on its own (the task ends, the connection is dropped)
     Shutdown           `Router::shutdown`: cancel_token.cancel()
     LoopCancel         select branch `cancel_token.cancelled()` -> break -> `protocols.shutdown()` begins
     HandlersDown       `protocols.shutdown().await` completes
     CancelAccepts      `handler_cancel_token.cancel()`
     AcceptDropped(k)   a still running `handle_connection` future is dropped by `run_until_cancelled`
     EpClose            `endpoint.close().await`: force-closes what is still open, queued Incomings are never served
     Exit               `join_set` drained (abort_all + join_next loop), run task ends
     Return             `Router::shutdown` returns (it awaits the run task)

   Properties (documented on ProtocolHandler::accept / shutdown and Router::shutdown):
     NoAbortBeforeHandlersDown  an `accept` future is aborted only after every ProtocolHandler::shutdown completed
     OpenWhileHandlersShutDown  a connection held open by its handler is not closed by the router before that either
     NoDispatchAfterStop        once the run loop has left its select loop, no further connection reaches a handler
     ReturnMeansQuiet           when shutdown() returns: handlers down, endpoint closed, no accept future alive,
                                every accepted connection closed

   `hist` is the driver word for harness/src/bin/vh_router.rs (life): dial / started / finish / shutdown / loop_stop /
   gate / exit, with the state of every connection the specification determines at the end.  *)
EXTENDS Naturals, Sequences, FiniteSets, TLC, Json
CONSTANTS Conns,      \* set of strings
          AbortEarly, \* FALSE: the code's order (handlers' shutdown, then cancel the accept futures);
                      \* TRUE: the accept futures are cancelled as soon as the loop stops (refuted; anti-vacuity)
          Record
VARIABLES loop,        \* "running" | "stopping" | "handlers_down" | "accepts_cancelled" | "ep_closed" | "exited"
          cancelled, handlersDone, epClosed, returned,
          conn,        \* per connection: "none" | "queued" | "handling" | "accepting" | "finished" | "dropped" | "unserved"
          open,        \* per connection: the dialer still sees it open
          dropAfterDown, \* per connection: handlersDone at the moment its accept future was dropped / it was closed by the router
          hist
vars == <<loop, cancelled, handlersDone, epClosed, returned, conn, open, dropAfterDown, hist>>

Ev(op, k) == [op |-> op, k |-> k]
Log(evs) == hist' = IF Record THEN hist \o evs ELSE hist
Live == {"handling", "accepting"}

Init == /\ loop = "running" /\ cancelled = FALSE /\ handlersDone = FALSE /\ epClosed = FALSE /\ returned = FALSE
        /\ conn = [k \in Conns |-> "none"] /\ open = [k \in Conns |-> FALSE]
        /\ dropAfterDown = [k \in Conns |-> TRUE] /\ hist = <<>>

Dial(k) == /\ conn[k] = "none" /\ ~epClosed
           /\ conn' = [conn EXCEPT ![k] = "queued"] /\ Log(<<Ev("dial", k)>>)
           /\ UNCHANGED <<loop, cancelled, handlersDone, epClosed, returned, open, dropAfterDown>>
LoopAccept(k) == /\ loop = "running" /\ ~cancelled /\ conn[k] = "queued"
                 /\ conn' = [conn EXCEPT ![k] = "handling"]
                 /\ UNCHANGED <<loop, cancelled, handlersDone, epClosed, returned, open, dropAfterDown, hist>>
HandlerStart(k) == /\ conn[k] = "handling" /\ loop \in {"running", "stopping", "handlers_down"}
                   /\ conn' = [conn EXCEPT ![k] = "accepting"] /\ open' = [open EXCEPT ![k] = TRUE]
                   /\ Log(<<Ev("started", k)>>)
                   /\ UNCHANGED <<loop, cancelled, handlersDone, epClosed, returned, dropAfterDown>>
HandlerFinish(k) == /\ conn[k] = "accepting" /\ loop \in {"running", "stopping"}
                    /\ conn' = [conn EXCEPT ![k] = "finished"] /\ open' = [open EXCEPT ![k] = FALSE]
                    /\ Log(<<Ev("finish", k)>>)
                    /\ UNCHANGED <<loop, cancelled, handlersDone, epClosed, returned, dropAfterDown>>
Shutdown == /\ ~cancelled /\ cancelled' = TRUE /\ Log(<<Ev("shutdown", "")>>)
            /\ UNCHANGED <<loop, handlersDone, epClosed, returned, conn, open, dropAfterDown>>
LoopCancel == /\ loop = "running" /\ cancelled /\ loop' = "stopping" /\ Log(<<Ev("loop_stop", "")>>)
              /\ UNCHANGED <<cancelled, handlersDone, epClosed, returned, conn, open, dropAfterDown>>
HandlersDown == /\ loop = "stopping" /\ loop' = "handlers_down" /\ handlersDone' = TRUE /\ Log(<<Ev("gate", "")>>)
                /\ UNCHANGED <<cancelled, epClosed, returned, conn, open, dropAfterDown>>
CancelAccepts == /\ loop = "handlers_down" /\ loop' = "accepts_cancelled"
                 /\ UNCHANGED <<cancelled, handlersDone, epClosed, returned, conn, open, dropAfterDown, hist>>
AcceptDropped(k) == /\ (loop \in {"accepts_cancelled", "ep_closed"} \/ (AbortEarly /\ loop = "stopping")) /\ conn[k] \in Live
                    /\ conn' = [conn EXCEPT ![k] = "dropped"] /\ open' = [open EXCEPT ![k] = FALSE]
                    /\ dropAfterDown' = [dropAfterDown EXCEPT ![k] = handlersDone]
                    /\ UNCHANGED <<loop, cancelled, handlersDone, epClosed, returned, hist>>
EpClose == /\ loop = "accepts_cancelled" /\ loop' = "ep_closed" /\ epClosed' = TRUE
           /\ open' = [k \in Conns |-> FALSE]
           /\ conn' = [k \in Conns |-> IF conn[k] = "queued" THEN "unserved" ELSE conn[k]]
           /\ dropAfterDown' = [k \in Conns |-> IF open[k] THEN handlersDone ELSE dropAfterDown[k]]
           /\ UNCHANGED <<cancelled, handlersDone, returned, hist>>
Exit == /\ loop = "ep_closed" /\ \A k \in Conns : conn[k] \notin Live
        /\ loop' = "exited" /\ Log(<<Ev("exit", "")>>)
        /\ UNCHANGED <<cancelled, handlersDone, epClosed, returned, conn, open, dropAfterDown>>
Return == /\ loop = "exited" /\ cancelled /\ ~returned /\ returned' = TRUE
          /\ UNCHANGED <<loop, cancelled, handlersDone, epClosed, conn, open, dropAfterDown, hist>>

Next == (\E k \in Conns : Dial(k)) \/ (\E k \in Conns : LoopAccept(k)) \/ (\E k \in Conns : HandlerStart(k))
        \/ (\E k \in Conns : HandlerFinish(k)) \/ Shutdown \/ LoopCancel \/ HandlersDown \/ CancelAccepts
        \/ (\E k \in Conns : AcceptDropped(k)) \/ EpClose \/ Exit \/ Return
Spec == Init /\ [][Next]_vars

---------------------------------------------------------------------------
NoAbortBeforeHandlersDown == \A k \in Conns : conn[k] = "dropped" => dropAfterDown[k]
OpenWhileHandlersShutDown == \A k \in Conns : (conn[k] = "accepting" /\ ~handlersDone) => open[k]
RouterClosesOnlyAfterDown == \A k \in Conns : dropAfterDown[k]
NoDispatchAfterStop == [][\A k \in Conns : (conn[k] = "queued" /\ conn'[k] = "handling") => (loop = "running" /\ ~cancelled)]_vars
ReturnMeansQuiet == returned => /\ handlersDone /\ epClosed
                                /\ \A k \in Conns : conn[k] \notin Live /\ ~open[k]

---------------------------------------------------------------------------
(* drivable behaviours: the harness controls dials, the handler's own finish, shutdown, the gate; a dial made while the
   loop runs is accepted and started before anything else happens (`Served`); the loop tail runs to the end. *)
Served == (\E k \in Conns : conn[k] \in {"queued", "handling"} /\ loop = "running" /\ ~cancelled)
             => (\E k \in Conns : conn[k] \in {"queued", "handling"} /\ conn'[k] # conn[k])
LoopTail == loop \in {"handlers_down", "accepts_cancelled", "ep_closed"} => (loop' # loop \/ \E k \in Conns : conn'[k] = "dropped" /\ conn[k] # "dropped")
StopSeen == (loop = "running" /\ cancelled) => loop' = "stopping"
Drivable == Served /\ LoopTail /\ StopSeen
Terminal == returned
Emit == Terminal => PrintT(<<"REPLAY", ToJson([word |-> hist, final |-> conn, closed_after_down |-> dropAfterDown])>>)
=============================================================================
