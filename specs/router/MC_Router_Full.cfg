SPECIFICATION Spec
INVARIANT OnlyTheNegotiatedHandler NoHandlerWithoutPass RetryNeedsValidatedAccept EstablishedReachesHandler FilterAcceptReaches
INVARIANT EstablishedOnlyIfAllAccept AcceptOnlyIfAllAccept BeforeRejectStops PreconditionsGate ShortCircuit RejectCodeSeen ClosedGate PathsWellFormed Decided
CHECK_DEADLOCK FALSE
CONSTANT Scenarios <- FamFull
