\* schedule generation: drivable behaviours only, one REPLAY line per complete behaviour
SPECIFICATION Spec
INVARIANT TypeOK LoopOrder Emit
ACTION_CONSTRAINT Drivable
CHECK_DEADLOCK FALSE
CONSTANTS
  Record = TRUE
  ExitOnAcceptNone = FALSE
