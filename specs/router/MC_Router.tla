----------------------------- MODULE MC_Router -----------------------------
(* Scenario families for Router.tla (C40 / C42).  Hook i of the dialer rejects with close code 40 + i, hook i of the
   accepting endpoint with 50 + i, the handler of protocol a closes with HandlerCode[a]. *)
EXTENDS Router, IOUtils
Alpns == {"p", "q", "r"}
Verdicts == {"Accept", "Retry", "Reject", "Ignore"}

OfferSeqs == {<<a>> : a \in Alpns \cup {""}} \cup ({<<a, b>> : a \in Alpns \cup {""}, b \in Alpns} \ {<<a, a>> : a \in Alpns})
NoFilter == [on |-> FALSE, v1 |-> "Accept", v2 |-> "Accept"]
AllFilters == {NoFilter} \cup [on : {TRUE}, v1 : Verdicts, v2 : Verdicts]

CHook(i) == [before : {"A", "R"}, after : {0, 40 + i}]
SHookAfter(i) == [before : {"A"}, after : {0, 50 + i}]
SHook(i) == SHookAfter(i) \cup {[before |-> "R", after |-> 0]}     \* before_connect of the accepting side is never consulted
Lists(H(_)) == ({<<>>} \cup {<<h>> : h \in H(1)}) \cup {<<h1, h2>> : h1 \in H(1), h2 \in H(2)}
Lists1(H(_)) == {<<>>} \cup {<<h>> : h \in H(1)}
NoHooks == {<<>>}

(* C40, quick: every registration set x every offer; every filter verdict function on three dial patterns *)
FamDispatch == [reg : SUBSET Alpns, offers : OfferSeqs, self : {FALSE}, closed : {FALSE}, cpath : {"await"}, spath : {"router"}, filt : {NoFilter}, ch : NoHooks, sh : NoHooks]
FamFilter == [reg : {{"p"}, {"p", "q"}}, offers : {<<"p">>, <<"r">>, <<"q", "p">>}, self : {FALSE}, closed : {FALSE}, cpath : {"await"}, spath : {"router"}, filt : AllFilters,
              ch : NoHooks, sh : NoHooks]

(* C42, quick: every hook list pair; every precondition failure x dialer hook list; hooks behind a retry *)
FamHooks == [reg : {{"p"}}, offers : {<<"p">>}, self : {FALSE}, closed : {FALSE}, cpath : {"await"}, spath : {"router"}, filt : {NoFilter}, ch : Lists(CHook), sh : Lists(SHookAfter)]
FamPre == ([reg : {{"p"}}, offers : {<<"p">>, <<"">>, <<"", "p">>}, self : BOOLEAN, closed : {FALSE}, cpath : {"await"}, spath : {"router"}, filt : {NoFilter}, ch : Lists(CHook), sh : NoHooks]
            \ [reg : {{"p"}}, offers : {<<"p">>}, self : {FALSE}, closed : {FALSE}, cpath : {"await"}, spath : {"router"}, filt : {NoFilter}, ch : Lists(CHook), sh : NoHooks])
FamHooksRetry == [reg : {{"p", "q"}}, offers : {<<"q">>}, self : {FALSE}, closed : {FALSE}, cpath : {"await"}, spath : {"router"},
                  filt : {[on |-> TRUE, v1 |-> "Retry", v2 |-> "Accept"], [on |-> TRUE, v1 |-> "Reject", v2 |-> "Accept"]},
                  ch : Lists1(CHook), sh : Lists1(SHook)]
FamClosed == [reg : {{"p"}}, offers : {<<"p">>, <<"">>}, self : BOOLEAN, closed : {TRUE}, cpath : {"await"}, spath : {"router"}, filt : {NoFilter}, ch : Lists1(CHook), sh : NoHooks]
(* establishment paths: both 0-RTT sides and the plain accept loop x {no hook, accept, reject(code)} on either side *)
CPaths == {"await", "zrtt"}
SPaths == {"router", "await", "zrtt"}
FamPaths == [reg : {{"p"}}, offers : {<<"p">>}, self : {FALSE}, closed : {FALSE}, cpath : CPaths, spath : SPaths,
             filt : {NoFilter}, ch : Lists1(CHook), sh : Lists1(SHookAfter)]
FamPathsThorough == [reg : {{"p"}, {"p", "q"}}, offers : {<<"p">>, <<"q", "p">>, <<"r">>}, self : {FALSE}, closed : {FALSE},
                     cpath : CPaths, spath : SPaths, filt : {NoFilter}, ch : Lists(CHook), sh : Lists(SHookAfter)]
FamC42Quick == (((FamHooks \cup FamPre) \cup FamHooksRetry) \cup FamClosed) \cup FamPaths
FamClosed0 == [reg : {{"p"}}, offers : {<<"p">>}, self : {FALSE}, closed : {TRUE}, cpath : {"await"}, spath : {"router"}, filt : {NoFilter}, ch : NoHooks, sh : NoHooks]
FamC40Quick == ((FamDispatch \cup FamFilter) \cup FamHooksRetry) \cup FamClosed0

(* the full product (model checking of the invariants; the e2e runs take a seeded sample of it through FamJson) *)
FamFull == [reg : SUBSET Alpns, offers : OfferSeqs, self : BOOLEAN, closed : BOOLEAN, cpath : {"await"}, spath : {"router"}, filt : AllFilters, ch : Lists(CHook), sh : Lists(SHookAfter)]
FamSmall == [reg : SUBSET Alpns, offers : OfferSeqs, self : BOOLEAN, closed : BOOLEAN, cpath : {"await"}, spath : {"router"}, filt : AllFilters, ch : Lists1(CHook), sh : Lists1(SHook)]

(* scenarios chosen by the check (seeded sample of FamFull, or a replay), one JSON object per line *)
JsonScn == ndJsonDeserialize(IOEnv.SCN)
FamJson == {[reg |-> Range(JsonScn[k].reg), offers |-> JsonScn[k].offers, self |-> JsonScn[k].self, closed |-> JsonScn[k].closed,
             cpath |-> JsonScn[k].cpath, spath |-> JsonScn[k].spath, filt |-> JsonScn[k].filt,
             ch |-> JsonScn[k].ch, sh |-> JsonScn[k].sh] : k \in DOMAIN JsonScn}
=============================================================================
