\* anti-vacuity: deviating designs (Fixed = FALSE, or ExitOnAcceptNone = TRUE) must be refuted by the C41 invariant alone
SPECIFICATION Spec
INVARIANT ReturnMeansDone
CHECK_DEADLOCK FALSE
CONSTANTS
  Record = FALSE
