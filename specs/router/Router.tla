------------------------------- MODULE Router -------------------------------
(* C40 — Router hands each connection only to the handler for its protocol.
   C42 — Connection hooks and connect preconditions gate every connection.

   One connection attempt from a dialing endpoint (client) to an endpoint with a Router (server), or to itself.
   Models, one action per call / decision point:

     iroh/src/endpoint.rs  Endpoint::connect_with_opts (1092-1155)
        ClosedCheck        `if self.is_closed() { return Err(EndpointClosed) }`: nothing else happens on a closed endpoint
        BeforeConnect(i)   EndpointHooksList::before_connect: hook i is called with the primary ALPN; the first
                           Reject ends the attempt with ConnectWithOptsError::LocallyRejected, later hooks are not
                           called (iroh/src/endpoint/hooks.rs 144-158)
        BeforeDone         all hooks accepted
        Precheck           `ensure!(endpoint_id != self.id(), SelfConnect)`, `ensure!(!alpn.is_empty(), InvalidAlpn)`.
                           The code runs the hooks first; the property does not fix the order, so the specification
                           also allows the preconditions to fail before any hook was called.
        (dial)             client config with `[alpn] ++ additional_alpns`, noq connect: first packet leaves
     iroh/src/protocol.rs  RouterBuilder::spawn run loop (557-593), handle_connection (625-661)
        Incoming           `endpoint.accept()` yields an Incoming
        Filter             the IncomingFilter verdict for (validated?): Accept -> handshake; Retry ->
                           `incoming.retry()` (a validated Incoming cannot be retried: refused); Reject -> refuse();
                           Ignore -> ignore()
        RetryRoundTrip     the dialer answers the RETRY packet with a token: the next Incoming is validated
        Handshake          TLS: some protocol offered by the dialer and registered with the router is negotiated
                           (Endpoint::set_alpns(registered)); none in common -> the handshake fails
        Dispatch           `protocols.get(alpn)` -> `handler.on_accepting(accepting)` of the handler registered for
                           the negotiated protocol
        HandlerAccept      `handler.accept(connection)` after `accepting.await` succeeded
     iroh/src/endpoint/connection.rs  conn_from_noq_conn (311-361), both sides, after their handshake completed
        CAfter(i)/SAfter(i) EndpointHooksList::after_handshake: hook i is called; the first Reject{code} closes the
                           connection with that code and yields ConnectingError::LocallyRejected
        CEstablished       the dialer's `Connecting` resolves to a Connection
        ServerLost         the dialer rejected and closed before the accepting side got further
        ClientSees / HandlerSees   the close code the peer observes / whether the handler got the dialer's stream

   The establishment path is a scenario dimension only: the rule is the same on every path (both sides consult
   their after_handshake hooks for every connection that completes its handshake; a Reject fails the attempt and
   closes with the hook's code; the protocol code runs only behind them), so CAfter / SAfter / HandlerAccept are not
   path-specific and TLC enumerates the dimension.  The incoming filter exists only on the Router path.

   The harness (harness/src/bin/vh_router.rs, e2e) runs each scenario on two real endpoints on 127.0.0.1 with
   recording handlers (handler for protocol a closes with HandlerCode[a] after it received the dialer's stream),
   recording hooks and a recording filter; checks/c40.py and checks/c42.py compare what was recorded with the
   outcomes of this specification.  *)
EXTENDS Naturals, Sequences, FiniteSets, TLC, Json
CONSTANTS Scenarios
(* a scenario: [reg    : set of protocols registered with the router,
                offers : sequence of protocols the dialer offers (primary first; "" = empty protocol name),
                self   : dialing its own id,
                closed : the dialing endpoint was closed before the call,
                cpath  : how the dialer establishes: "await" = `Connecting` awaited (Endpoint::connect), "zrtt" =
                         `Connecting::into_0rtt` + `handshake_completed()` (after a ticket-priming connection),
                spath  : how the accepting side establishes: "router" = Router (filter, ProtocolHandler),
                         "await" = own accept loop, `Incoming::accept` + `Accepting` awaited,
                         "zrtt" = own accept loop, `Accepting::into_0rtt` + `handshake_completed()`,
                filt   : [on : BOOLEAN, v1 : verdict for an unvalidated Incoming, v2 : verdict for a validated one],
                ch, sh : sequences of hooks on the dialing / accepting endpoint,
                         hook = [before : "A" | "R", after : 0 (accept) | close code (reject)]] *)
VARIABLES scn, stage, validated, passed, negotiated,
          cside, ci,          \* dialer after the handshake: "none" | "hooks" | "established" | "rejected"; next hook
          sside, si,          \* accepting side: "none" | "lookup" | "hooks" | "accepted" | "rejected" | "lost"
          result,             \* what the dialer's connect returns
          clientSaw,          \* close code the established dialer finally observes (0 = nothing yet)
          handlerSaw,         \* 0 nothing yet, 1 the dialer's stream, else the dialer's close code
          cBefore, cAfter, sAfter, filterLog, hlog      \* call logs
vars == <<scn, stage, validated, passed, negotiated, cside, ci, sside, si, result, clientSaw, handlerSaw,
          cBefore, cAfter, sAfter, filterLog, hlog>>

HandlerCode == [p |-> 101, q |-> 102, r |-> 103]
Range(s) == {s[i] : i \in DOMAIN s}
Primary == scn.offers[1]
Mutual == (Range(scn.offers) \cap scn.reg) \ {""}
FirstReject(hooks, f(_)) == CHOOSE i \in 1..Len(hooks) : f(hooks[i]) /\ \A j \in 1..(i - 1) : ~f(hooks[j])
RejectsBefore(h) == h.before = "R"
RejectsAfter(h) == h.after # 0

Init == /\ scn \in Scenarios
        /\ stage = "before" /\ validated = FALSE /\ passed = FALSE /\ negotiated = ""
        /\ cside = "none" /\ ci = 1 /\ sside = "none" /\ si = 1
        /\ result = "" /\ clientSaw = 0 /\ handlerSaw = 0
        /\ cBefore = <<>> /\ cAfter = <<>> /\ sAfter = <<>> /\ filterLog = <<>> /\ hlog = <<>>

Finish(r) == result' = r /\ stage' = "done"

---------------------------------------------------------------------------
(* the dialer: Endpoint::connect_with_opts *)
ClosedCheck ==
  /\ stage = "before" /\ scn.closed /\ Finish("EndpointClosed")
  /\ UNCHANGED <<scn, validated, passed, negotiated, cside, ci, sside, si, clientSaw, handlerSaw,
                 cBefore, cAfter, sAfter, filterLog, hlog>>

BeforeConnect(i) ==
  /\ stage = "before" /\ ~scn.closed /\ ci = i /\ i <= Len(scn.ch)
  /\ cBefore' = Append(cBefore, [i |-> i, alpn |-> Primary])
  /\ IF scn.ch[i].before = "R" THEN Finish("LocallyRejected") /\ UNCHANGED ci
                                ELSE ci' = i + 1 /\ UNCHANGED <<result, stage>>
  /\ UNCHANGED <<scn, validated, passed, negotiated, cside, sside, si, clientSaw, handlerSaw, cAfter, sAfter, filterLog, hlog>>

BeforeDone ==
  /\ stage = "before" /\ ~scn.closed /\ ci > Len(scn.ch) /\ stage' = "precheck" /\ ci' = 1
  /\ UNCHANGED <<scn, validated, passed, negotiated, cside, sside, si, result, clientSaw, handlerSaw,
                 cBefore, cAfter, sAfter, filterLog, hlog>>

Failing == (IF scn.self THEN {"SelfConnect"} ELSE {}) \cup (IF Primary = "" THEN {"InvalidAlpn"} ELSE {})
Precheck ==
  /\ \/ stage = "precheck"
     \/ stage = "before" /\ ~scn.closed /\ cBefore = <<>> /\ Failing # {}       \* order of hooks and preconditions is not fixed
  /\ IF Failing # {} THEN \E f \in Failing : Finish(f)
                     ELSE stage' = "dial" /\ UNCHANGED result
  /\ UNCHANGED <<scn, validated, passed, negotiated, cside, ci, sside, si, clientSaw, handlerSaw,
                 cBefore, cAfter, sAfter, filterLog, hlog>>

---------------------------------------------------------------------------
(* the router's accept loop *)
Incoming ==
  /\ stage = "dial" /\ stage' = "incoming"
  /\ UNCHANGED <<scn, validated, passed, negotiated, cside, ci, sside, si, result, clientSaw, handlerSaw,
                 cBefore, cAfter, sAfter, filterLog, hlog>>

Verdict == IF validated THEN scn.filt.v2 ELSE scn.filt.v1
Filter ==
  /\ stage = "incoming"
  /\ IF ~scn.filt.on \/ scn.spath # "router"
        THEN stage' = "handshake" /\ passed' = TRUE /\ UNCHANGED <<filterLog, result>>
        ELSE /\ filterLog' = Append(filterLog, validated)
             /\ CASE Verdict = "Accept" -> stage' = "handshake" /\ passed' = TRUE /\ UNCHANGED result
                  [] Verdict = "Retry"  -> IF validated THEN Finish("Refused") /\ UNCHANGED passed     \* retry() fails: refuse()
                                                        ELSE stage' = "retry" /\ UNCHANGED <<result, passed>>
                  [] Verdict = "Reject" -> Finish("Refused") /\ UNCHANGED passed
                  [] Verdict = "Ignore" -> Finish("NoResponse") /\ UNCHANGED passed
  /\ UNCHANGED <<scn, validated, negotiated, cside, ci, sside, si, clientSaw, handlerSaw, cBefore, cAfter, sAfter, hlog>>

RetryRoundTrip ==
  /\ stage = "retry" /\ validated' = TRUE /\ stage' = "incoming"
  /\ UNCHANGED <<scn, passed, negotiated, cside, ci, sside, si, result, clientSaw, handlerSaw,
                 cBefore, cAfter, sAfter, filterLog, hlog>>

Handshake ==
  /\ stage = "handshake"
  /\ IF Mutual = {}
        THEN Finish("NoAlpn") /\ UNCHANGED <<negotiated, cside, sside>>
        ELSE /\ \E a \in Mutual : negotiated' = a          \* which common protocol TLS picks is not constrained
             /\ stage' = "connected" /\ cside' = "hooks" /\ sside' = "lookup" /\ UNCHANGED result
  /\ UNCHANGED <<scn, validated, passed, ci, si, clientSaw, handlerSaw, cBefore, cAfter, sAfter, filterLog, hlog>>

---------------------------------------------------------------------------
(* after the handshake: the dialer *)
CAfter(i) ==
  /\ stage = "connected" /\ cside = "hooks" /\ ci = i /\ i <= Len(scn.ch)
  /\ cAfter' = Append(cAfter, i)
  /\ IF scn.ch[i].after # 0 THEN cside' = "rejected" /\ result' = "LocallyRejectedAfter" /\ UNCHANGED ci
                            ELSE ci' = i + 1 /\ UNCHANGED <<cside, result>>
  /\ UNCHANGED <<scn, stage, validated, passed, negotiated, sside, si, clientSaw, handlerSaw, cBefore, sAfter, filterLog, hlog>>

CEstablished ==
  /\ stage = "connected" /\ cside = "hooks" /\ ci > Len(scn.ch)
  /\ cside' = "established" /\ result' = "Ok"
  /\ UNCHANGED <<scn, stage, validated, passed, negotiated, ci, sside, si, clientSaw, handlerSaw,
                 cBefore, cAfter, sAfter, filterLog, hlog>>

(* after the handshake: the accepting side, handle_connection *)
Dispatch ==
  /\ stage = "connected" /\ sside = "lookup" /\ negotiated \in scn.reg
  /\ hlog' = Append(hlog, [h |-> negotiated, ev |-> "on_accepting"]) /\ sside' = "hooks"
  /\ UNCHANGED <<scn, stage, validated, passed, negotiated, cside, ci, si, result, clientSaw, handlerSaw,
                 cBefore, cAfter, sAfter, filterLog>>

SAfter(i) ==
  /\ stage = "connected" /\ sside = "hooks" /\ si = i /\ i <= Len(scn.sh)
  /\ cside # "none"
  /\ sAfter' = Append(sAfter, i)
  /\ IF scn.sh[i].after # 0 THEN sside' = "rejected" /\ UNCHANGED si
                            ELSE si' = i + 1 /\ UNCHANGED sside
  /\ UNCHANGED <<scn, stage, validated, passed, negotiated, cside, ci, result, clientSaw, handlerSaw,
                 cBefore, cAfter, filterLog, hlog>>

HandlerAccept ==
  /\ stage = "connected" /\ sside = "hooks" /\ si > Len(scn.sh)
  /\ hlog' = Append(hlog, [h |-> negotiated, ev |-> "accept"]) /\ sside' = "accepted"
  /\ UNCHANGED <<scn, stage, validated, passed, negotiated, cside, ci, si, result, clientSaw, handlerSaw,
                 cBefore, cAfter, sAfter, filterLog>>

ServerLost ==
  /\ stage = "connected" /\ cside = "rejected" /\ sside \in {"lookup", "hooks"} /\ sside' = "lost"
  /\ UNCHANGED <<scn, stage, validated, passed, negotiated, cside, ci, si, result, clientSaw, handlerSaw,
                 cBefore, cAfter, sAfter, filterLog, hlog>>

(* what the peers finally observe *)
HandlerSees ==
  /\ stage = "connected" /\ sside = "accepted" /\ handlerSaw = 0 /\ cside \in {"established", "rejected"}
  /\ handlerSaw' = IF cside = "established" THEN 1 ELSE scn.ch[ci].after
  /\ UNCHANGED <<scn, stage, validated, passed, negotiated, cside, ci, sside, si, result, clientSaw,
                 cBefore, cAfter, sAfter, filterLog, hlog>>

ClientSees ==
  /\ stage = "connected" /\ cside = "established" /\ clientSaw = 0
  /\ \/ sside = "rejected" /\ clientSaw' = scn.sh[si].after
     \/ sside = "accepted" /\ handlerSaw = 1 /\ clientSaw' = HandlerCode[negotiated]
  /\ UNCHANGED <<scn, stage, validated, passed, negotiated, cside, ci, sside, si, result, handlerSaw,
                 cBefore, cAfter, sAfter, filterLog, hlog>>

Next == ClosedCheck \/ (\E i \in 1..2 : BeforeConnect(i)) \/ BeforeDone \/ Precheck \/ Incoming \/ Filter \/ RetryRoundTrip
        \/ Handshake \/ (\E i \in 1..2 : CAfter(i)) \/ CEstablished \/ Dispatch \/ (\E i \in 1..2 : SAfter(i))
        \/ HandlerAccept \/ ServerLost \/ HandlerSees \/ ClientSees
Spec == Init /\ [][Next]_vars

Terminal == \/ stage = "done"
            \/ stage = "connected" /\ cside = "established" /\ clientSaw # 0
            \/ stage = "connected" /\ cside = "rejected" /\ (sside \in {"lost", "rejected"} \/ (sside = "accepted" /\ handlerSaw # 0))

---------------------------------------------------------------------------
(* C40 *)
Handled == hlog # <<>>
Accepted == \E k \in DOMAIN hlog : hlog[k].ev = "accept"
\* only the handler registered for the negotiated protocol ever sees the connection, and that protocol was offered
OnlyTheNegotiatedHandler == \A k \in DOMAIN hlog : hlog[k].h = negotiated /\ negotiated \in scn.reg /\ negotiated \in Range(scn.offers)
\* no handler if nothing registered matches, or the filter refused / ignored, or the connect never left the dialer
NoHandlerWithoutPass == Handled => passed /\ Mutual # {} /\ result \notin {"Refused", "NoResponse", "NoAlpn", "LocallyRejected", "SelfConnect", "InvalidAlpn", "EndpointClosed"}
\* a connection the filter asked to retry reaches a handler only if its validated retry was accepted
RetryNeedsValidatedAccept == (Handled /\ scn.filt.on /\ scn.filt.v1 = "Retry") => validated /\ scn.filt.v2 = "Accept" /\ filterLog = <<FALSE, TRUE>>
\* an established dialer ends up with exactly that handler: it is closed with the handler's own code
EstablishedReachesHandler == (Terminal /\ result = "Ok" /\ \A i \in DOMAIN scn.sh : scn.sh[i].after = 0)
                                 => Accepted /\ clientSaw = HandlerCode[negotiated] /\ handlerSaw = 1
\* a filter that lets the connection through and a common protocol: the handshake is attempted and reaches the handler
FilterAcceptReaches == (Terminal /\ passed /\ Mutual # {}) => Handled \/ sside = "lost"

(* C42 *)
AllBeforeAccept == \A i \in DOMAIN scn.ch : scn.ch[i].before = "A"
AllAfterAccept(hooks) == \A i \in DOMAIN hooks : hooks[i].after = 0
\* the dialer has a connection only if every one of its hooks accepted and the preconditions hold
EstablishedOnlyIfAllAccept == cside = "established" => AllBeforeAccept /\ AllAfterAccept(scn.ch) /\ ~scn.self /\ Primary # "" /\ ~scn.closed
\* the accepting side hands a connection to the protocol only if every one of its hooks accepted
AcceptOnlyIfAllAccept == Accepted => AllAfterAccept(scn.sh)
\* a before_connect rejection stops the attempt before anything is sent
BeforeRejectStops == ~AllBeforeAccept => stage \in {"before", "done"} /\ filterLog = <<>> /\ negotiated = "" /\ hlog = <<>>
                                           /\ result \in {"", "LocallyRejected", "SelfConnect", "InvalidAlpn", "EndpointClosed"}
\* own id or empty protocol name: never leaves the dialer, always an error
PreconditionsGate == (scn.self \/ Primary = "") => stage \in {"before", "precheck", "done"} /\ filterLog = <<>> /\ hlog = <<>>
                                                   /\ result \in {"", "LocallyRejected", "SelfConnect", "InvalidAlpn", "EndpointClosed"}
\* a closed endpoint does not connect, and asks no hook
ClosedGate == scn.closed => stage \in {"before", "done"} /\ result \in {"", "EndpointClosed"} /\ cBefore = <<>> /\ filterLog = <<>> /\ hlog = <<>>
\* hooks are called in order and not after a rejection
ShortCircuit == /\ \A k \in DOMAIN cBefore : cBefore[k].i = k /\ (k < Len(cBefore) => scn.ch[k].before = "A")
                /\ \A k \in DOMAIN cAfter : cAfter[k] = k /\ (k < Len(cAfter) => scn.ch[k].after = 0)
                /\ \A k \in DOMAIN sAfter : sAfter[k] = k /\ (k < Len(sAfter) => scn.sh[k].after = 0)
\* an after_handshake rejection closes the connection with the rejecting hook's code
RejectCodeSeen == /\ (cside = "rejected" /\ handlerSaw # 0) => handlerSaw = scn.ch[FirstReject(scn.ch, RejectsAfter)].after
                  /\ (sside = "rejected" /\ clientSaw # 0) => clientSaw = scn.sh[FirstReject(scn.sh, RejectsAfter)].after
                  /\ (cside = "rejected") => result = "LocallyRejectedAfter"
\* scenarios are well-formed: paths are known, only a Router has an incoming filter
PathsWellFormed == scn.cpath \in {"await", "zrtt"} /\ scn.spath \in {"router", "await", "zrtt"}
\* every attempt ends: complete runs have a result
Decided == Terminal => result # ""

---------------------------------------------------------------------------
Outcome == [result |-> result, alpn |-> IF result = "Ok" THEN negotiated ELSE "", client_saw |-> clientSaw,
            handler_saw |-> handlerSaw, hlog |-> hlog, c_before |-> cBefore, c_after |-> cAfter, s_after |-> sAfter,
            filter_log |-> filterLog]
Emit == Terminal => PrintT(<<"REPLAY", ToJson([scn |-> scn, out |-> Outcome])>>)
=============================================================================
