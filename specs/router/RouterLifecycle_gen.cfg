SPECIFICATION Spec
INVARIANT NoAbortBeforeHandlersDown RouterClosesOnlyAfterDown ReturnMeansQuiet Emit
ACTION_CONSTRAINT Drivable
CHECK_DEADLOCK FALSE
CONSTANTS
  Record = TRUE
  AbortEarly = FALSE
