\* model checking, fine-grained (every interleaving, e.g. a multi-thread runtime), with liveness
SPECIFICATION FairSpec
INVARIANT TypeOK ReturnMeansDone LoopOrder AwaitHoldsTask AtMostOneAwaits
PROPERTY CancelStable AllReturn
CHECK_DEADLOCK FALSE
CONSTANTS
  Record = FALSE
  ExitOnAcceptNone = FALSE
