SPECIFICATION Spec
INVARIANT OnlyTheNegotiatedHandler NoHandlerWithoutPass RetryNeedsValidatedAccept EstablishedReachesHandler FilterAcceptReaches
INVARIANT EstablishedOnlyIfAllAccept AcceptOnlyIfAllAccept BeforeRejectStops PreconditionsGate ShortCircuit RejectCodeSeen Decided
CHECK_DEADLOCK FALSE
CONSTANT Scenarios <- FamSmall
