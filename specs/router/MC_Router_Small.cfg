SPECIFICATION Spec
INVARIANT OnlyTheNegotiatedHandler NoHandlerWithoutPass RetryNeedsValidatedAccept EstablishedReachesHandler FilterAcceptReaches
INVARIANT EstablishedOnlyIfAllAccept AcceptOnlyIfAllAccept BeforeRejectStops PreconditionsGate ShortCircuit RejectCodeSeen ClosedGate Decided
CHECK_DEADLOCK FALSE
CONSTANT Scenarios <- FamSmall
