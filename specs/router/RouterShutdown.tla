--------------------------- MODULE RouterShutdown ---------------------------
(* C41 — Router shutdown returns only after handlers and endpoint are shut down.

   Models iroh/src/protocol.rs:
     * the run-loop task spawned by RouterBuilder::spawn (lines 520-613), and
     * Router::shutdown (lines 429-446) called concurrently on clones of one Router
       (clones share `cancel_token` and the `task` slot `Arc<Mutex<Option<AbortOnDropHandle>>>`).

   Run loop, one action per await point / select branch:
     LoopCancel        select branch `cancel_token.cancelled()` -> break; protocols.shutdown() begins
     LoopAcceptNone    select branch `endpoint.accept()` -> None (endpoint closed on its own) -> break; protocols.shutdown()
                       begins (with ExitOnAcceptNone: the task returns instead, see the constant)
     HandlersDown      `protocols.shutdown().await` completes: every ProtocolHandler::shutdown has returned
     EpClose           `endpoint.close().await` completes
     Exit              join_set drained, future ends: `_cancel_guard` drops (cancels the token), JoinHandle resolves
     EndpointCloses    somebody else calls Endpoint::close (environment)

   Router::shutdown of caller c, split where the code releases atomicity.  `Fixed` selects the design:
     Fixed = FALSE  the code as written
        Start(c)    `if self.is_shutdown() { return Ok(()) }`            (early return when the token is cancelled)
        Cancel(c)   `self.cancel_token.cancel()`
        Acquire(c)  `self.task.lock().take()` (std mutex, guard dropped): Some -> go await it, None -> `return Ok(())`
        Await(c)    `task.await?` resolves when the run loop has exited; return
     Fixed = TRUE   the design the property requires (proposed_fixes/C41.diff): no early return, the task slot is
                    an async mutex that is held across the await
        Start(c)    call begins
        Cancel(c)   `self.cancel_token.cancel()`
        Acquire(c)  `self.task.lock().await` acquired (only when free), `take()`: Some -> await it under the lock,
                    None -> return
        Await(c)    `task.await?` resolves; guard dropped; return

   Observation at every return: ret[c] = (handlersDone, epClosed) — what a caller sees when `shutdown().await`
   hands control back.  `hist` is the driver word (schedule + expected observations) that
   harness/src/bin/vh_router.rs (c41) executes against the real Router through its public API: `start` = poll
   caller c's shutdown future once, `ep_close` = Endpoint::close from outside, `loop_stop` = wait until the
   handlers' shutdown has been entered, `gate` = let the slow handler's shutdown finish, `exit` = wait for the
   run loop to end, `ret` = caller c's future has completed with that observation.  *)
EXTENDS Naturals, Sequences, FiniteSets, TLC, Json
CONSTANTS Callers,    \* set of strings
          Fixed,      \* BOOLEAN
          ExitOnAcceptNone, \* BOOLEAN, FALSE = the code: when `endpoint.accept()` yields None the loop `break`s into the
                      \* shutdown sequence.  TRUE = a deviating design in which that arm leaves the run task at once
                      \* (`return`), skipping ProtocolHandler::shutdown: refuted by ReturnMeansDone (anti-vacuity for
                      \* the endpoint-closes-first path: every return there needs HandlersDown first)
          Record      \* BOOLEAN: keep the driver word in `hist` (schedule generation) or not (model checking)
VARIABLES cancelled,     \* cancel_token.is_cancelled()
          taskSlot,      \* "some" | "none": the shared Option<AbortOnDropHandle>
          loop,          \* "running" | "stopping" | "handlers_down" | "ep_closed" | "exited"
          epClosed,      \* Endpoint::is_closed()
          handlersDone,  \* every registered handler's shutdown() has completed
          cpc,           \* per caller: "idle" | "cancel" | "acquire" | "await" | "returned"
          holder,        \* owner of the async mutex (Fixed design only) or "none"
          ret,           \* per caller: observation at return
          hist           \* driver word
vars == <<cancelled, taskSlot, loop, epClosed, handlersDone, cpc, holder, ret, hist>>

Ev(op, c, via) == [op |-> op, c |-> c, h |-> handlersDone, e |-> epClosed, via |-> via]
LoopEv(op) == Ev(op, "", "")
Log(evs) == hist' = IF Record THEN hist \o evs ELSE hist

Init == /\ cancelled = FALSE /\ taskSlot = "some" /\ loop = "running"
        /\ epClosed = FALSE /\ handlersDone = FALSE
        /\ cpc = [c \in Callers |-> "idle"] /\ holder = "none"
        /\ ret = [c \in Callers |-> [h |-> TRUE, e |-> TRUE]]
        /\ hist = <<>>

---------------------------------------------------------------------------
(* run loop *)
LoopCancel == /\ loop = "running" /\ cancelled /\ loop' = "stopping"
              /\ Log(<<LoopEv("loop_stop")>>)
              /\ UNCHANGED <<cancelled, taskSlot, epClosed, handlersDone, cpc, holder, ret>>
LoopAcceptNone == /\ loop = "running" /\ epClosed
                  /\ IF ExitOnAcceptNone
                        THEN loop' = "exited" /\ cancelled' = TRUE /\ Log(<<LoopEv("exit")>>)   \* `return`: the drop guard fires
                        ELSE loop' = "stopping" /\ UNCHANGED cancelled /\ Log(<<LoopEv("loop_stop")>>)
                  /\ UNCHANGED <<taskSlot, epClosed, handlersDone, cpc, holder, ret>>
HandlersDown == /\ loop = "stopping" /\ loop' = "handlers_down" /\ handlersDone' = TRUE
                /\ Log(<<LoopEv("gate")>>)
                /\ UNCHANGED <<cancelled, taskSlot, epClosed, cpc, holder, ret>>
EpClose == /\ loop = "handlers_down" /\ loop' = "ep_closed" /\ epClosed' = TRUE
           /\ UNCHANGED <<cancelled, taskSlot, handlersDone, cpc, holder, ret, hist>>
Exit == /\ loop = "ep_closed" /\ loop' = "exited" /\ cancelled' = TRUE      \* drop guard cancels the token
        /\ Log(<<LoopEv("exit")>>)
        /\ UNCHANGED <<taskSlot, epClosed, handlersDone, cpc, holder, ret>>
(* environment: the endpoint is closed by someone else, before or while the handlers shut down *)
EndpointCloses == /\ ~epClosed /\ loop \in {"running", "stopping"} /\ epClosed' = TRUE
                  /\ Log(<<LoopEv("ep_close")>>)
                  /\ UNCHANGED <<cancelled, taskSlot, loop, handlersDone, cpc, holder, ret>>

---------------------------------------------------------------------------
(* Router::shutdown *)
\* `return Ok(())` of caller c, after the driver events `pre`; `via` names the return statement taken
Return(c, pre, via) == /\ cpc' = [cpc EXCEPT ![c] = "returned"]
                  /\ ret' = [ret EXCEPT ![c] = [h |-> handlersDone, e |-> epClosed]]
                  /\ Log(pre \o <<Ev("ret", c, via)>>)

Start(c) == /\ cpc[c] = "idle"
            /\ IF ~Fixed /\ cancelled
                  THEN Return(c, <<Ev("start", c, "")>>, "is_shutdown")          \* is_shutdown() early return
                  ELSE /\ cpc' = [cpc EXCEPT ![c] = "cancel"] /\ UNCHANGED ret
                       /\ Log(<<Ev("start", c, "")>>)
            /\ UNCHANGED <<cancelled, taskSlot, loop, epClosed, handlersDone, holder>>

Cancel(c) == /\ cpc[c] = "cancel" /\ cancelled' = TRUE /\ cpc' = [cpc EXCEPT ![c] = "acquire"]
             /\ UNCHANGED <<taskSlot, loop, epClosed, handlersDone, holder, ret, hist>>

Acquire(c) == /\ cpc[c] = "acquire"
              /\ Fixed => holder = "none"
              /\ IF taskSlot = "some"
                    THEN /\ cpc' = [cpc EXCEPT ![c] = "await"] /\ UNCHANGED <<ret, hist>>
                         /\ taskSlot' = "none"                                      \* take()
                         /\ holder' = IF Fixed THEN c ELSE holder                   \* Fixed: guard kept across the await
                    ELSE Return(c, <<>>, "slot_empty") /\ UNCHANGED <<taskSlot, holder>>
              /\ UNCHANGED <<cancelled, loop, epClosed, handlersDone>>

Await(c) == /\ cpc[c] = "await" /\ loop = "exited" /\ Return(c, <<>>, "task")
            /\ taskSlot' = "none"
            /\ holder' = (IF holder = c THEN "none" ELSE holder)
            /\ UNCHANGED <<cancelled, loop, epClosed, handlersDone>>

Next == LoopCancel \/ LoopAcceptNone \/ HandlersDown \/ EpClose \/ Exit \/ EndpointCloses
        \/ (\E c \in Callers : Start(c)) \/ (\E c \in Callers : Cancel(c))
        \/ (\E c \in Callers : Acquire(c)) \/ (\E c \in Callers : Await(c))
Spec == Init /\ [][Next]_vars
FairSpec == Spec /\ WF_vars(LoopCancel \/ LoopAcceptNone \/ HandlersDown \/ EpClose \/ Exit)
                 /\ \A c \in Callers : WF_vars(Start(c) \/ Cancel(c) \/ Acquire(c) \/ Await(c))

---------------------------------------------------------------------------
(* C41 *)
TypeOK == /\ cancelled \in BOOLEAN /\ taskSlot \in {"some", "none"} /\ epClosed \in BOOLEAN /\ handlersDone \in BOOLEAN
          /\ loop \in {"running", "stopping", "handlers_down", "ep_closed", "exited"}
          /\ cpc \in [Callers -> {"idle", "cancel", "acquire", "await", "returned"}]
          /\ holder \in Callers \cup {"none"}
\* whenever a shutdown call has returned, every handler's shutdown had completed and the endpoint was closed
ReturnMeansDone == \A c \in Callers : cpc[c] = "returned" => ret[c].h /\ ret[c].e
\* the router itself closes the endpoint only after the handlers are down, and exits only with both done
LoopOrder == /\ loop \in {"ep_closed", "exited"} => handlersDone /\ epClosed
             /\ loop = "handlers_down" => handlersDone
\* is_shutdown() stays true once set; nobody awaits a task nobody holds
CancelStable == [][cancelled => cancelled']_vars
AwaitHoldsTask == \A c \in Callers : cpc[c] = "await" => taskSlot = "none" /\ (Fixed => holder = c)
AtMostOneAwaits == Cardinality({c \in Callers : cpc[c] = "await"}) <= 1
\* liveness (FairSpec): every call returns, i.e. the fixed design does not trade the early return for a hang
AllReturn == <>(\A c \in Callers : cpc[c] = "returned")

---------------------------------------------------------------------------
(* Schedule generation for the conformance driver.  The public API lets the driver decide when a caller's
   future is polled, when the endpoint is closed from outside and when the slow handler finishes; it cannot
   pause the run loop between HandlersDown and Exit, cannot interleave two callers inside one poll on a
   current-thread runtime, and cannot delay the wake-up of an awaiting caller.  These action constraints keep
   exactly the drivable behaviours (the unconstrained model is what TLC checks the property on). *)
Mid(c) == cpc[c] \in {"cancel"} \/ (cpc[c] = "acquire" /\ (Fixed => holder = "none"))
Coop == (\E c \in Callers : Mid(c)) => (\E c \in Callers : Mid(c) /\ cpc'[c] # cpc[c])
LoopTail == loop \in {"handlers_down", "ep_closed"} => loop' # loop
WakeFirst == (loop = "exited" /\ \E c \in Callers : cpc[c] = "await") => (\E c \in Callers : cpc[c] = "await" /\ cpc'[c] = "returned")
Drivable == Coop /\ LoopTail /\ WakeFirst

\* a complete behaviour of the callers that were started (any subset of Callers)
Terminal == loop = "exited" /\ \A c \in Callers : cpc[c] \in {"idle", "returned"}
Emit == Terminal => PrintT(<<"REPLAY", ToJson([fixed |-> Fixed, word |-> hist])>>)
=============================================================================
