SPECIFICATION Spec
INVARIANT NoAbortBeforeHandlersDown OpenWhileHandlersShutDown RouterClosesOnlyAfterDown ReturnMeansQuiet
PROPERTY NoDispatchAfterStop
CHECK_DEADLOCK FALSE
CONSTANTS
  Record = FALSE
