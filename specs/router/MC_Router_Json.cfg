SPECIFICATION Spec
INVARIANT OnlyTheNegotiatedHandler NoHandlerWithoutPass RetryNeedsValidatedAccept EstablishedReachesHandler FilterAcceptReaches
INVARIANT EstablishedOnlyIfAllAccept AcceptOnlyIfAllAccept BeforeRejectStops PreconditionsGate ShortCircuit RejectCodeSeen ClosedGate PathsWellFormed Decided
INVARIANT Emit
CHECK_DEADLOCK FALSE
CONSTANT Scenarios <- FamJson
