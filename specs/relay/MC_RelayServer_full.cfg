\* everything: split reads, admin calls, transport faults (RelayServer!Next)
SPECIFICATION Spec
INVARIANT TypeOK RegistryShape NewestWins PacketsWellAddressed AtMostOnce FifoPerSender WireClean Isolation
PROPERTY GoneOnlyOnEntryRemoval DisplacedIsTold PromotedIsTold StatusToTheRightOne AcceptedByActiveOnly ReadTouchesOnlySelf LeavesOnlyForOwnReasons
CHECK_DEADLOCK FALSE
CONSTANTS
  Conns <- Tiny_Conns
  KeyOf <- Tiny_KeyOf
  Keys = {"A", "B"}
  NoConn = "none"
  LateCancel = FALSE
  FixRevoke = TRUE
