SPECIFICATION Spec
INVARIANT AuthenticatedOnlyWithProof NoImpersonation HonestOutcome HonestNeverRejected HonestTerminal
INVARIANT DenyReportedNotAdmitted AdmittedOnlyAfterAuth OnlyRecordedVictimSigs
PROPERTY Stable
CHECK_DEADLOCK FALSE
CONSTANTS
  Victim = "k1"
  AdvKey = "k2"
  Materials = {"m1", "m2"}
  NoMat = "nomat"
  Policies = {"allow", "deny", "deny_reason"}
