--------------------------- MODULE RelayMapLocks ---------------------------
(* C43 — iroh_relay::RelayMap (iroh-relay/src/relay_map.rs).

   RelayMap = Arc<RwLock<BTreeMap<RelayUrl, Arc<RelayConfig>>>>; `clone()` yields a second
   handle on the *same* lock and map.  Handles (constant) are the program's variables,
   ObjOf[h] the object a handle points to: handles with equal ObjOf are clones of each other.

   Every public operation is modelled as the sequence of its lock steps (std::sync::RwLock:
   a write lock needs no holder at all, a read lock needs no writer; the lock is not
   re-entrant for write-then-read on one thread).  One action per critical section:

     Start(t)        thread t begins its next operation (argument choice)
     Simple(t)       insert / remove / with_auth_token: `relays.write()`, mutate, guard dropped
                     at the end of the statement (one lock, one step)
     ExtAlias(t)     extend, design "alias_check": `Arc::ptr_eq(&self.relays, &other.relays)`
                     -> return (extending a map by itself is the identity)
     ExtW(t)         extend, designs "as_written"/"alias_check": `let mut a = self.relays.write()`
     ExtR(t)         ... `let b = other.relays.read()`; a.extend(b.iter()..); both guards dropped
     ExtSnap(t)      extend, design "snapshot": read `other`, copy its entries, guard dropped
     ExtApply(t)     ... then `self.relays.write().extend(copied)`
     EqR1(t), EqR2(t)  PartialEq::eq: `self.relays.read()`, then `other.relays.read()`, compare

   ExtendDesign:
     "as_written"   the pinned code (relay_map.rs:142): write(self) then read(other).  With
                    other a clone of self the thread waits for itself: TLC refutes
                    NeverBlocksForever with  Start(extend a a2); ExtW; <stuck>.
     "alias_check"  the minimal repair (early return on aliasing).  Decides the property for
                    operation *sequences* (one thread).  With two threads TLC still finds the
                    lock-order inversion  a.extend(&b) || b.extend(&a).
     "snapshot"     never holds two locks: no deadlock for any number of threads.
   The property (C43) quantifies over operation sequences, so the required design is any of
   the last two with Threads = {t1}; the two-thread configurations document the hazard.

   Contents: content[o][u] = [id, tok]; id = 0 means absent, otherwise the number of the
   operation that inserted the config (every inserted RelayConfig is distinguishable), tok the
   auth token (0 = none) set by with_auth_token on the entries present at that time.
   `hist` (only when Record) is the finished-operation log with the returned value and the
   contents seen through every handle afterwards: the expectations replayed on the real
   RelayMap by harness/src/bin/vh_relayproto/c43.rs. *)
EXTENDS Naturals, Sequences, FiniteSets, TLC, Json
CONSTANTS Handles, ObjOf, Urls, Threads, MaxOps, Tokens, ExtendDesign, Record
VARIABLES lock,     \* [Objs -> [w : BOOLEAN, r : Nat]]
          content,  \* [Objs -> [Urls -> Cfg]]
          pc,       \* [Threads -> operation in progress]
          nops,     \* operations started so far
          hist
vars == <<lock, content, pc, nops, hist>>

Objs == {ObjOf[h] : h \in Handles}
Absent == [id |-> 0, tok |-> 0]
EmptyMap == [u \in Urls |-> Absent]
Idle == [op |-> "idle", a |-> "-", b |-> "-", u |-> "-", tok |-> 0, seq |-> 0, step |-> 0, snap |-> EmptyMap]

Init == /\ lock = [o \in Objs |-> [w |-> FALSE, r |-> 0]]
        /\ content = [o \in Objs |-> EmptyMap]
        /\ pc = [t \in Threads |-> Idle]
        /\ nops = 0 /\ hist = <<>>

CanWrite(o) == ~lock[o].w /\ lock[o].r = 0
CanRead(o) == ~lock[o].w

\* what every handle sees
View(c) == [h \in Handles |-> c[ObjOf[h]]]
Log(t, ret, c) == hist' = IF Record
                             THEN Append(hist, [op |-> pc[t].op, a |-> pc[t].a, b |-> pc[t].b, u |-> pc[t].u,
                                                tok |-> pc[t].tok, seq |-> pc[t].seq, ret |-> ret, after |-> View(c)])
                             ELSE hist
Finish(t) == pc' = [pc EXCEPT ![t] = Idle]

Begin(t, op, a, b, u, tok) ==
    pc' = [pc EXCEPT ![t] = [op |-> op, a |-> a, b |-> b, u |-> u, tok |-> tok, seq |-> nops + 1, step |-> 1, snap |-> EmptyMap]]
Start(t) == /\ pc[t].op = "idle" /\ nops < MaxOps /\ nops' = nops + 1
            /\ UNCHANGED <<lock, content, hist>>
            /\ \/ \E a \in Handles, u \in Urls : Begin(t, "insert", a, "-", u, 0)
               \/ \E a \in Handles, u \in Urls : Begin(t, "remove", a, "-", u, 0)
               \/ \E a \in Handles, k \in Tokens : Begin(t, "token", a, "-", "-", k)
               \/ \E a \in Handles, b \in Handles : Begin(t, "extend", a, b, "-", 0)
               \/ \E a \in Handles, b \in Handles : Begin(t, "eq", a, b, "-", 0)

\* insert(url, cfg) -> Option<old>; remove(url) -> Option<old>; with_auth_token(self, tok) -> Self
Simple(t) ==
    LET o == ObjOf[pc[t].a] IN
    /\ pc[t].op \in {"insert", "remove", "token"} /\ CanWrite(o)
    /\ content' = [content EXCEPT ![o] =
                     CASE pc[t].op = "insert" -> [@ EXCEPT ![pc[t].u] = [id |-> pc[t].seq, tok |-> 0]]
                       [] pc[t].op = "remove" -> [@ EXCEPT ![pc[t].u] = Absent]
                       [] pc[t].op = "token"  -> [u \in Urls |-> IF @[u].id = 0 THEN Absent ELSE [id |-> @[u].id, tok |-> pc[t].tok]]]
    /\ Log(t, IF pc[t].op = "token" THEN Absent ELSE content[o][pc[t].u], content')
    /\ Finish(t) /\ UNCHANGED <<lock, nops>>

\* b's entries win over a's
Merge(ma, mb) == [u \in Urls |-> IF mb[u].id # 0 THEN mb[u] ELSE ma[u]]
Aliased(t) == ObjOf[pc[t].a] = ObjOf[pc[t].b]

ExtAlias(t) == /\ pc[t].op = "extend" /\ pc[t].step = 1 /\ ExtendDesign = "alias_check" /\ Aliased(t)
               /\ Log(t, Absent, content) /\ Finish(t) /\ UNCHANGED <<lock, content, nops>>
ExtW(t) == /\ pc[t].op = "extend" /\ pc[t].step = 1
           /\ ExtendDesign = "as_written" \/ (ExtendDesign = "alias_check" /\ ~Aliased(t))
           /\ CanWrite(ObjOf[pc[t].a])
           /\ lock' = [lock EXCEPT ![ObjOf[pc[t].a]].w = TRUE]
           /\ pc' = [pc EXCEPT ![t].step = 2] /\ UNCHANGED <<content, nops, hist>>
ExtR(t) == /\ pc[t].op = "extend" /\ pc[t].step = 2 /\ ExtendDesign \in {"as_written", "alias_check"}
           /\ CanRead(ObjOf[pc[t].b])
           /\ content' = [content EXCEPT ![ObjOf[pc[t].a]] = Merge(@, content[ObjOf[pc[t].b]])]
           /\ lock' = [lock EXCEPT ![ObjOf[pc[t].a]].w = FALSE]
           /\ Log(t, Absent, content') /\ Finish(t) /\ UNCHANGED nops
ExtSnap(t) == /\ pc[t].op = "extend" /\ pc[t].step = 1 /\ ExtendDesign = "snapshot"
              /\ CanRead(ObjOf[pc[t].b])
              /\ pc' = [pc EXCEPT ![t].step = 2, ![t].snap = content[ObjOf[pc[t].b]]]
              /\ UNCHANGED <<lock, content, nops, hist>>
ExtApply(t) == /\ pc[t].op = "extend" /\ pc[t].step = 2 /\ ExtendDesign = "snapshot"
               /\ CanWrite(ObjOf[pc[t].a])
               /\ content' = [content EXCEPT ![ObjOf[pc[t].a]] = Merge(@, pc[t].snap)]
               /\ Log(t, Absent, content') /\ Finish(t) /\ UNCHANGED <<lock, nops>>

\* PartialEq: two read guards held together; the result is reported as ret.id = 1 (equal) / 2 (different)
EqR1(t) == /\ pc[t].op = "eq" /\ pc[t].step = 1 /\ CanRead(ObjOf[pc[t].a])
           /\ lock' = [lock EXCEPT ![ObjOf[pc[t].a]].r = @ + 1]
           /\ pc' = [pc EXCEPT ![t].step = 2] /\ UNCHANGED <<content, nops, hist>>
EqR2(t) == /\ pc[t].op = "eq" /\ pc[t].step = 2 /\ CanRead(ObjOf[pc[t].b])
           /\ lock' = [lock EXCEPT ![ObjOf[pc[t].a]].r = @ - 1]
           /\ Log(t, [id |-> IF content[ObjOf[pc[t].a]] = content[ObjOf[pc[t].b]] THEN 1 ELSE 2, tok |-> 0], content)
           /\ Finish(t) /\ UNCHANGED <<content, nops>>

\* Two next-state relations so that TLC's per-action coverage (vacuity check) only lists the actions of
\* the design being checked: NextLocks for "as_written" / "alias_check", NextSnapshot for "snapshot".
NextLocks == \/ \E t \in Threads : Start(t)
             \/ \E t \in Threads : Simple(t)
             \/ \E t \in Threads : ExtAlias(t)
             \/ \E t \in Threads : ExtW(t)
             \/ \E t \in Threads : ExtR(t)
             \/ \E t \in Threads : EqR1(t)
             \/ \E t \in Threads : EqR2(t)
NextSnapshot == \/ \E t \in Threads : Start(t)
                \/ \E t \in Threads : Simple(t)
                \/ \E t \in Threads : ExtSnap(t)
                \/ \E t \in Threads : ExtApply(t)
                \/ \E t \in Threads : EqR1(t)
                \/ \E t \in Threads : EqR2(t)
SpecLocks == Init /\ [][NextLocks]_vars
SpecSnapshot == Init /\ [][NextSnapshot]_vars

---------------------------------------------------------------------------
(* C43 *)
InProgress(t) == pc[t].op # "idle"
\* the lock step thread t is waiting for can be taken
CanStep(t) ==
    CASE pc[t].op \in {"insert", "remove", "token"} -> CanWrite(ObjOf[pc[t].a])
      [] pc[t].op = "extend" /\ ExtendDesign = "snapshot" ->
             IF pc[t].step = 1 THEN CanRead(ObjOf[pc[t].b]) ELSE CanWrite(ObjOf[pc[t].a])
      [] pc[t].op = "extend" /\ ExtendDesign # "snapshot" ->
             IF pc[t].step = 1 THEN (ExtendDesign = "alias_check" /\ Aliased(t)) \/ CanWrite(ObjOf[pc[t].a])
                               ELSE CanRead(ObjOf[pc[t].b])
      [] pc[t].op = "eq" -> IF pc[t].step = 1 THEN CanRead(ObjOf[pc[t].a]) ELSE CanRead(ObjOf[pc[t].b])
      [] OTHER -> TRUE
\* locks are held only by operations in progress, so if every such operation waits, they wait forever
NeverBlocksForever == ~( (\E t \in Threads : InProgress(t)) /\ (\A t \in Threads : InProgress(t) => ~CanStep(t)) )

LocksConsistent == \A o \in Objs : ~(lock[o].w /\ lock[o].r > 0)
LocksFreeWhenIdle == (\A t \in Threads : ~InProgress(t)) => \A o \in Objs : lock[o] = [w |-> FALSE, r |-> 0]

\* map semantics, per finished operation of thread t (action properties; single-threaded reading)
Finishes(t, op) == pc[t].op = op /\ pc'[t].op = "idle"
OthersUntouched(o) == \A p \in Objs \ {o} : content'[p] = content[p]
InsertIsMapInsert == [][\A t \in Threads : Finishes(t, "insert") =>
                           LET o == ObjOf[pc[t].a] IN
                           /\ content'[o][pc[t].u].id = pc[t].seq
                           /\ \A u \in Urls \ {pc[t].u} : content'[o][u] = content[o][u]
                           /\ OthersUntouched(o)]_vars
RemoveIsMapRemove == [][\A t \in Threads : Finishes(t, "remove") =>
                           LET o == ObjOf[pc[t].a] IN
                           /\ content'[o][pc[t].u] = Absent
                           /\ \A u \in Urls \ {pc[t].u} : content'[o][u] = content[o][u]
                           /\ OthersUntouched(o)]_vars
TokenSetsAllPresent == [][\A t \in Threads : Finishes(t, "token") =>
                           LET o == ObjOf[pc[t].a] IN
                           /\ \A u \in Urls : /\ content'[o][u].id = content[o][u].id
                                              /\ content'[o][u].id # 0 => content'[o][u].tok = pc[t].tok
                           /\ OthersUntouched(o)]_vars
\* extend is the right-biased union; the argument is never changed (for one thread: exactly the union of
\* the contents at the start, which for aliased arguments is the identity)
ExtendIsUnion == [][\A t \in Threads : Finishes(t, "extend") =>
                           LET a == ObjOf[pc[t].a]
                               b == ObjOf[pc[t].b] IN
                           /\ \A u \in Urls : content'[a][u] \in {content[a][u], content[b][u], pc[t].snap[u]}
                           /\ (Cardinality(Threads) = 1 => content'[a] = Merge(content[a], content[b]))
                           /\ OthersUntouched(a)]_vars
EqChangesNothing == [][\A t \in Threads : Finishes(t, "eq") => content' = content]_vars
\* clones see the same map at all times (by construction of View; stated for the record)
ClonesAgree == \A g, h \in Handles : ObjOf[g] = ObjOf[h] => View(content)[g] = View(content)[h]

TypeOK == /\ nops \in 0..MaxOps
          /\ \A o \in Objs : lock[o].r \in 0..Cardinality(Threads)
          /\ \A o \in Objs, u \in Urls : content[o][u].id \in 0..MaxOps /\ content[o][u].tok \in {0} \cup Tokens

\* behaviour generator: one REPLAY line per complete operation sequence
Done == nops = MaxOps /\ \A t \in Threads : ~InProgress(t)
Emit == (Record /\ Done) => PrintT(<<"REPLAY", ToJson([ops |-> hist])>>)
=============================================================================
