----------------------- MODULE MC_Gen_RelayServer -----------------------
(* Instances of the behaviour generator (constants a .cfg cannot express). *)
EXTENDS Gen_RelayServer
Reg_Conns == {"a1", "a2", "a3", "b1"}
Reg_KeyOf == [c \in Reg_Conns |-> IF c = "b1" THEN "B" ELSE "A"]
Reg_Pre   == <<"a1", "b1">>
Reg_Pre3  == <<"a1", "a2", "a3">>
Fwd_Conns == {"a1", "a2", "b1"}
Fwd_KeyOf == [c \in Fwd_Conns |-> IF c = "b1" THEN "B" ELSE "A"]
Fwd_Pre   == <<"a1", "b1">>
Fwd_Pre3  == <<"a1", "a2", "b1">>   \* a1 superseded by a2, then the peer
Iso_Conns == {"a1", "b1", "b2"}
Iso_KeyOf == [c \in Iso_Conns |-> IF c = "a1" THEN "A" ELSE "B"]
Iso_Pre   == <<"b1", "a1">>
NoPre     == <<>>
=============================================================================
