----------------------------- MODULE RelayWire -----------------------------
(* Relay wire format, part 1: datagram batches (C16).

   Models iroh_relay::protos::relay::Datagrams and Datagrams::take_segments
   (iroh-relay/src/protos/relay.rs:232).  The frame-length / version model of the
   same wire format (C10) lives in RelayFrames.tla, which EXTENDS this module's
   batch definitions.

   A batch is abstracted to [len, seg, ecn]:
     len   number of content bytes (one unit = `k` real bytes, the harness scales by
           k in {1, 97, 1200}; every byte carries a position tag so that loss and
           duplication are visible),
     seg   the segment size, 0 = None  (Option<NonZeroU16>),
     ecn   0 = None, 1 = Ect1, 2 = Ect0, 3 = Ce   (the two ECN bits).
   The *meaning* of a batch is the sequence of its datagram lengths, Segs(b): a batch
   without a segment size is one datagram; with segment size s it is ceil(len/s)
   datagrams, all of s bytes except possibly the last.

   State machine (one action per call of the public method):
     Take(n)   `piece = rest.take_segments(n)`: `rest` is `self` (mutated in place),
               the returned batch is appended to `pieces`.  Modelled exactly as the
               code computes it: split_to(min(n*s, len)); the piece keeps the segment
               size iff n > 1 and s < piece length; `self` drops its segment size when
               at most one segment is left.
   A behaviour takes until the batch is empty and then once more on the empty batch.
   With VaryN = FALSE the same n is used for every call (the property as stated:
   "repeatedly taking at most n segments"); with VaryN = TRUE every call picks its own n.

   BatchRule selects the comparison in `is_datagram_batch`: "lt" is the code as
   written and as required; "le" is a plausible slip (`<=`) kept as the anti-vacuity
   variant: TLC must refute SegSizeOnlyIfMultiple for it. *)
EXTENDS Naturals, Sequences, FiniteSets, TLC, Json
CONSTANTS MaxLen, MaxSeg, MaxN, Ecns, VaryN, BatchRule
VARIABLES orig,       \* the batch the behaviour started from
          rest,       \* `self`: what is still in the batch
          fixedN,     \* the n of this behaviour (0 when VaryN)
          pieces,     \* sequence of [n, len, seg, ecn, restLen, restSeg]: every call with its result
          tookEmpty   \* the final call on the empty batch has been made
vars == <<orig, rest, fixedN, pieces, tookEmpty>>

Min(a, b) == IF a < b THEN a ELSE b
Batch(l, s, e) == [len |-> l, seg |-> s, ecn |-> e]

(* ---- meaning of a batch: the sequence of its datagram lengths ---- *)
NumSegs(b) == IF b.len = 0 THEN 0
              ELSE IF b.seg = 0 THEN 1
              ELSE (b.len + b.seg - 1) \div b.seg
Segs(b) == [i \in 1..NumSegs(b) |->
              IF b.seg = 0 THEN b.len
              ELSE IF i * b.seg <= b.len THEN b.seg ELSE b.len - (i - 1) * b.seg]

(* ---- Datagrams::take_segments as written ---- *)
IsBatch(n, s, taken) == n > 1 /\ (IF BatchRule = "le" THEN s <= taken ELSE s < taken)
TakeSegments(b, n) ==
  IF b.seg = 0
    THEN [piece |-> Batch(b.len, 0, b.ecn), rest |-> Batch(0, 0, b.ecn)]     \* mem::take(contents)
    ELSE LET taken == Min(n * b.seg, b.len)
             left  == b.len - taken
         IN [piece |-> Batch(taken, IF IsBatch(n, b.seg, taken) THEN b.seg ELSE 0, b.ecn),
             rest  |-> Batch(left, IF left <= b.seg THEN 0 ELSE b.seg, b.ecn)]

Init == /\ orig \in {Batch(l, s, e) : l \in 0..MaxLen, s \in 0..MaxSeg, e \in Ecns}
        /\ rest = orig
        /\ fixedN \in (IF VaryN THEN {0} ELSE 1..MaxN)
        /\ pieces = <<>> /\ tookEmpty = FALSE

Take(n) == /\ ~tookEmpty
           /\ VaryN \/ n = fixedN
           /\ LET r == TakeSegments(rest, n)
              IN /\ rest' = r.rest
                 /\ pieces' = Append(pieces, [n |-> n, len |-> r.piece.len, seg |-> r.piece.seg, ecn |-> r.piece.ecn,
                                              restLen |-> r.rest.len, restSeg |-> r.rest.seg])
           /\ tookEmpty' = (rest.len = 0)
           /\ UNCHANGED <<orig, fixedN>>

Next == \E n \in 1..MaxN : Take(n)
Spec == Init /\ [][Next]_vars

---------------------------------------------------------------------------
(* C16 *)
PieceBatch(p) == Batch(p.len, p.seg, p.ecn)
RECURSIVE Concat(_)
Concat(ss) == IF ss = <<>> THEN <<>> ELSE Head(ss) \o Concat(Tail(ss))
PieceSegs == [i \in 1..Len(pieces) |-> Segs(PieceBatch(pieces[i]))]

\* nothing lost, nothing duplicated, order and datagram boundaries kept: at every point the
\* datagrams handed out so far followed by the datagrams still in the batch are the original ones
PartitionsExactly == Concat(PieceSegs) \o Segs(rest) = Segs(orig)
\* each taken batch holds at most n datagrams
AtMostN == \A i \in 1..Len(pieces) : NumSegs(PieceBatch(pieces[i])) <= pieces[i].n
\* a piece carries a segment size only when it holds more than one datagram, and then the original one
SegSizeOnlyIfMultiple == \A i \in 1..Len(pieces) :
                            pieces[i].seg # 0 => /\ pieces[i].len > pieces[i].seg
                                                 /\ pieces[i].seg = orig.seg
\* the batch that stays behind keeps the same discipline (the original batch, which may come from
\* the wire, need not: e.g. segment size 14 on 12 bytes)
RestSegSizeOnlyIfMultiple == (pieces # <<>> /\ rest.seg # 0) => rest.len > rest.seg /\ rest.seg = orig.seg
\* ECN marking is kept by every piece and by the remainder
EcnKept == rest.ecn = orig.ecn /\ \A i \in 1..Len(pieces) : pieces[i].ecn = orig.ecn
\* taking from a non-empty batch makes progress, so repeated taking terminates;
\* taking from an empty batch yields an empty single-datagram piece
Progress == [][ /\ (rest.len > 0 => rest'.len < rest.len)
                /\ (rest.len = 0 => rest'.len = 0 /\ rest'.seg = 0 /\ pieces'[Len(pieces')].len = 0 /\ pieces'[Len(pieces')].seg = 0) ]_vars
TypeOK == /\ rest.len \in 0..MaxLen /\ rest.seg \in 0..MaxSeg
          /\ Len(pieces) <= MaxLen + 2

\* behaviour generator: one REPLAY line per complete behaviour
Done == tookEmpty
Emit == Done => PrintT(<<"REPLAY", ToJson([len |-> orig.len, seg |-> orig.seg, ecn |-> orig.ecn, calls |-> pieces])>>)
=============================================================================
