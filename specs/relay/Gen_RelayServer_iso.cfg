\* behaviour generator, instance "iso"; caps, Classes, Ops, MaxSteps, MaxFrames are chosen by the check
SPECIFICATION GSpec
INVARIANT Emit
CHECK_DEADLOCK FALSE
CONSTANTS
  Conns <- Iso_Conns
  KeyOf <- Iso_KeyOf
  Pre <- Iso_Pre
  NoConn = "none"
  LateCancel = FALSE
  InqCap = 1
  FixRevoke = FALSE
