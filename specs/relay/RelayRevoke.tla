---------------------------- MODULE RelayRevoke ----------------------------
(* C08 — a revoked relay connection does not stay connected.

   Models the part of the relay server between admission and registration and the embedder's
   revocation call:

     Admit(c)      Inner::accept (iroh-relay/src/server/http_server.rs): handshake::serverside, then
                   authorize_with = AccessControl::on_connect -> Allow, OnDisconnectGuard created,
                   ServerConfirmsAuth written and flushed.  From here on the embedder knows
                   (endpoint id, connection id) and may ask for a disconnect.
                   [pause point relay.accept.admitted:<endpoint> sits here]
     Register(c)   Clients::register (iroh-relay/src/server/clients.rs): one DashMap entry critical
                   section: the new connection becomes the active one, an older one is pushed to
                   `inactive`; the connection actor starts serving.
                   For the connections in SplitConns the critical section is explicit:
     RegisterLock(c)    `self.0.clients.entry(endpoint)` : the entry (shard) lock is taken
                        [pause point relay.register.locked:<endpoint> sits here, lock held]
     RegisterBody(c)    the entry is edited (replace active / insert)
     RegisterUnlock(c)  the entry guard is dropped at the end of the match arm
     DiscId(c)     Clients::disconnect(endpoint, Some(connection_id))
     DiscKey(k)    Clients::disconnect(endpoint, None)
                   both: `self.0.clients.get(endpoint)` takes the entry lock, start_shutdown() on the
                   matching registered connections, return whether one was found.
     DiscIdCall / DiscIdRet, DiscKeyCall / DiscKeyRet
                   the same call issued while a Register of that endpoint holds the entry lock: `get`
                   blocks (Call), and the call proceeds and returns once the lock is free (Ret).
                   TryLock = TRUE is the variant that does not wait (`try_get`, a locked entry is
                   treated like an absent endpoint): the call returns false at once and is lost.
     Serve(c)      the connection actor answers a client frame (ping -> pong, datagram forwarded)
     ActorExit(c)  actor observes the cancellation, flushes, Clients::unregister (promotes the newest
                   inactive connection), drops the guard (on_disconnect)

   FixRevoke selects the design the property requires (TRUE: a disconnect for an admitted connection
   that is not registered yet is remembered in `pending` and honoured by Register) versus the code as
   written at the pinned commit (FALSE: `disconnect` returns false for an unknown connection and
   nothing is remembered).  The required design satisfies the properties below; TLC refutes the code
   as written with  Admit(t); DiscId(t); Register(t)  (known deviation C08_revoke_before_register)
   and the TryLock variant with  ..; RegisterLock(t2); DiscIdCall(t)  (a registered connection whose
   revocation was dropped).

   `revoked` holds the connections for which a disconnect call has *returned*: from then on they must
   not be served.  A call that is still blocked on the entry lock has not returned.

   `word` is the schedule: the sequence of forcible steps, which vh_relayauth c08 imposes on a real
   `Server::spawn` through the pause points (mode C).  RegisterBody, ActorExit and Serve are not part
   of the word: they are the server's own steps; the harness waits for their effects instead.

   Generator switches (they restrict the words, not the server): same-key connections are admitted
   and released in the order of ConnOrder (the pause gates are FIFO per endpoint); InOrder sets the
   connections up one after the other in ConnOrder; DiscAfterSetup allows disconnects only once every
   connection is registered; PromptRet lets a blocked disconnect call return before any other step
   of the word once the lock is free (the blocked thread of the real call cannot be held back). *)
EXTENDS Naturals, Sequences, FiniteSets, TLC, Json
CONSTANTS Conns, Keys, KeyOf,   \* connections, endpoint ids, KeyOf[c]
          ConnOrder,            \* sequence of all connections: per-key FIFO of admission / release
          Targets,              \* connections the embedder may revoke
          MaxDisc,              \* number of disconnect requests in a behaviour
          FixRevoke,
          SplitConns,           \* connections whose Register is RegisterLock; RegisterBody; RegisterUnlock
          TryLock,              \* TRUE: disconnect does not wait for the entry lock (anti-vacuity)
          InOrder, DiscAfterSetup, PromptRet

None == "none"
VARIABLES cstate,     \* [Conns -> {"new","admitted","registered","cancelled","gone"}]
          active,     \* [Keys -> Conns \cup {None}]   ClientState.active
          inactive,   \* [Keys -> Seq(Conns)]          ClientState.inactive
          lock,       \* [Keys -> Conns \cup {None}]   whose register holds the entry lock of the endpoint
          revoked,    \* connections for which a disconnect call has returned
          pending,    \* FixRevoke only: revocations remembered for not yet registered connections
          pendId,     \* connections with a disconnect-by-id call blocked on the entry lock
          pendKey,    \* endpoints with a disconnect-by-endpoint call blocked on the entry lock
          servedRev,  \* ghost: connections that were served after their revocation
          ndisc, word
vars == <<cstate, active, inactive, lock, revoked, pending, pendId, pendKey, servedRev, ndisc, word>>

Pos(c) == CHOOSE i \in 1..Len(ConnOrder) : ConnOrder[i] = c
EarlierSameKey(c) == {d \in Conns : KeyOf[d] = KeyOf[c] /\ Pos(d) < Pos(c)}
InReg(c) == cstate[c] \in {"registered", "cancelled"}       \* in active/inactive of its key
Known(c) == cstate[c] \in {"admitted", "registered", "cancelled"}   \* between on_connect and on_disconnect
SetUp(c) == cstate[c] \notin {"new", "admitted"} /\ lock[KeyOf[c]] # c
InOrderOk(c) == InOrder => \A d \in Conns : Pos(d) < Pos(c) => SetUp(d)
DiscAllowed == DiscAfterSetup => \A c \in Conns : SetUp(c)
ReadyRet == (\E c \in pendId : lock[KeyOf[c]] = None) \/ (\E k \in pendKey : lock[k] = None)
StepOk == PromptRet => ~ReadyRet       \* guard of every word step other than the returns

Init == /\ cstate = [c \in Conns |-> "new"]
        /\ active = [k \in Keys |-> None] /\ inactive = [k \in Keys |-> <<>>] /\ lock = [k \in Keys |-> None]
        /\ revoked = {} /\ pending = {} /\ pendId = {} /\ pendKey = {} /\ servedRev = {} /\ ndisc = 0 /\ word = <<>>

Step(op, x, ret) == word' = Append(word, [op |-> op, x |-> x, ret |-> ret])

Admit(c) ==
  /\ cstate[c] = "new" /\ (\A d \in EarlierSameKey(c) : cstate[d] # "new") /\ InOrderOk(c) /\ StepOk
  /\ cstate' = [cstate EXCEPT ![c] = "admitted"]
  /\ Step("admit", c, FALSE)
  /\ UNCHANGED <<active, inactive, lock, revoked, pending, pendId, pendKey, servedRev, ndisc>>

\* the edit of the entry: the body of the critical section
EditEntry(c) ==
  LET k == KeyOf[c]  old == active[k] IN
  /\ active' = [active EXCEPT ![k] = c]
  /\ inactive' = IF old = None THEN inactive ELSE [inactive EXCEPT ![k] = Append(@, old)]
  /\ IF FixRevoke /\ c \in pending
        THEN cstate' = [cstate EXCEPT ![c] = "cancelled"] /\ pending' = pending \ {c}
        ELSE cstate' = [cstate EXCEPT ![c] = "registered"] /\ UNCHANGED pending
CanRegister(c) == cstate[c] = "admitted" /\ \A d \in EarlierSameKey(c) : SetUp(d)

Register(c) ==
  /\ c \notin SplitConns /\ CanRegister(c) /\ lock[KeyOf[c]] = None /\ StepOk
  /\ EditEntry(c) /\ Step("register", c, FALSE)
  /\ UNCHANGED <<lock, revoked, pendId, pendKey, servedRev, ndisc>>

RegisterLock(c) ==
  /\ c \in SplitConns /\ CanRegister(c) /\ lock[KeyOf[c]] = None /\ StepOk
  /\ lock' = [lock EXCEPT ![KeyOf[c]] = c] /\ Step("reg_lock", c, FALSE)
  /\ UNCHANGED <<cstate, active, inactive, revoked, pending, pendId, pendKey, servedRev, ndisc>>
RegisterBody(c) ==
  /\ lock[KeyOf[c]] = c /\ cstate[c] = "admitted"
  /\ EditEntry(c)
  /\ UNCHANGED <<lock, revoked, pendId, pendKey, servedRev, ndisc, word>>
RegisterUnlock(c) ==
  /\ lock[KeyOf[c]] = c /\ cstate[c] # "admitted"
  /\ lock' = [lock EXCEPT ![KeyOf[c]] = None] /\ Step("reg_unlock", c, FALSE)
  /\ UNCHANGED <<cstate, active, inactive, revoked, pending, pendId, pendKey, servedRev, ndisc>>

\* start_shutdown() on every connection of `hit` that is in the registry; remember the others
Revoke(hit) ==
  /\ cstate' = [c \in Conns |-> IF c \in hit /\ cstate[c] = "registered" THEN "cancelled" ELSE cstate[c]]
  /\ pending' = IF FixRevoke THEN pending \cup {c \in hit : cstate[c] = "admitted"} ELSE pending
  /\ revoked' = revoked \cup hit
  /\ UNCHANGED <<active, inactive, lock, servedRev>>
HitOf(k) == {c \in Conns : KeyOf[c] = k /\ Known(c)}

DiscId(c) ==
  /\ ndisc < MaxDisc /\ c \in Targets /\ Known(c) /\ c \notin revoked /\ c \notin pendId /\ DiscAllowed /\ StepOk
  /\ lock[KeyOf[c]] = None
  /\ Revoke({c}) /\ ndisc' = ndisc + 1 /\ Step("disc_id", c, InReg(c))
  /\ UNCHANGED <<pendId, pendKey>>

DiscKey(k) ==
  /\ ndisc < MaxDisc /\ HitOf(k) \cap Targets # {} /\ ~(HitOf(k) \subseteq revoked) /\ k \notin pendKey /\ DiscAllowed /\ StepOk
  /\ lock[k] = None
  /\ Revoke(HitOf(k)) /\ ndisc' = ndisc + 1 /\ Step("disc_key", k, \E c \in HitOf(k) : InReg(c))
  /\ UNCHANGED <<pendId, pendKey>>

\* the call finds the entry locked by a Register of the same endpoint
DiscIdCall(c) ==
  /\ ndisc < MaxDisc /\ c \in Targets /\ Known(c) /\ c \notin revoked /\ c \notin pendId /\ DiscAllowed /\ StepOk
  /\ lock[KeyOf[c]] # None /\ ndisc' = ndisc + 1
  /\ IF TryLock
        THEN /\ revoked' = revoked \cup {c} /\ Step("disc_id", c, FALSE)          \* returns false at once: dropped
             /\ UNCHANGED pendId
        ELSE /\ pendId' = pendId \cup {c} /\ Step("disc_id_call", c, FALSE)        \* blocks
             /\ UNCHANGED revoked
  /\ UNCHANGED <<cstate, active, inactive, lock, pending, pendKey, servedRev>>
DiscIdRet(c) ==
  /\ c \in pendId /\ lock[KeyOf[c]] = None
  /\ Revoke({c}) /\ pendId' = pendId \ {c} /\ Step("disc_id_ret", c, InReg(c))
  /\ UNCHANGED <<pendKey, ndisc>>
DiscKeyCall(k) ==
  /\ ndisc < MaxDisc /\ HitOf(k) \cap Targets # {} /\ ~(HitOf(k) \subseteq revoked) /\ k \notin pendKey /\ DiscAllowed /\ StepOk
  /\ lock[k] # None /\ ndisc' = ndisc + 1
  /\ IF TryLock
        THEN /\ revoked' = revoked \cup HitOf(k) /\ Step("disc_key", k, FALSE)
             /\ UNCHANGED pendKey
        ELSE /\ pendKey' = pendKey \cup {k} /\ Step("disc_key_call", k, FALSE)
             /\ UNCHANGED revoked
  /\ UNCHANGED <<cstate, active, inactive, lock, pending, pendId, servedRev>>
DiscKeyRet(k) ==
  /\ k \in pendKey /\ lock[k] = None
  /\ Revoke(HitOf(k)) /\ pendKey' = pendKey \ {k} /\ Step("disc_key_ret", k, \E c \in HitOf(k) : InReg(c))
  /\ UNCHANGED <<pendId, ndisc>>

Serve(c) ==
  /\ cstate[c] = "registered"
  /\ servedRev' = IF c \in revoked THEN servedRev \cup {c} ELSE servedRev
  /\ UNCHANGED <<cstate, active, inactive, lock, revoked, pending, pendId, pendKey, ndisc, word>>

RemoveFrom(s, c) == SelectSeq(s, LAMBDA x : x # c)
\* Clients::unregister takes the entry lock as well (remove_if_mut)
ActorExit(c) ==
  LET k == KeyOf[c] IN
  /\ cstate[c] = "cancelled" /\ lock[k] = None /\ cstate' = [cstate EXCEPT ![c] = "gone"]
  /\ IF active[k] = c
        THEN IF inactive[k] # <<>>
                THEN /\ active' = [active EXCEPT ![k] = inactive[k][Len(inactive[k])]]
                     /\ inactive' = [inactive EXCEPT ![k] = SubSeq(@, 1, Len(@) - 1)]
                ELSE active' = [active EXCEPT ![k] = None] /\ UNCHANGED inactive
        ELSE inactive' = [inactive EXCEPT ![k] = RemoveFrom(@, c)] /\ UNCHANGED active
  /\ UNCHANGED <<lock, revoked, pending, pendId, pendKey, servedRev, ndisc, word>>

Next == \/ \E c \in Conns : \/ Admit(c) \/ Register(c) \/ RegisterLock(c) \/ RegisterBody(c) \/ RegisterUnlock(c)
                            \/ DiscId(c) \/ DiscIdCall(c) \/ DiscIdRet(c) \/ Serve(c) \/ ActorExit(c)
        \/ \E k \in Keys : DiscKey(k) \/ DiscKeyCall(k) \/ DiscKeyRet(k)
Spec == Init /\ [][Next]_vars
FairSpec == Spec /\ \A c \in Conns : /\ WF_vars(Register(c)) /\ WF_vars(RegisterLock(c)) /\ WF_vars(RegisterBody(c))
                                     /\ WF_vars(RegisterUnlock(c)) /\ WF_vars(ActorExit(c)) /\ WF_vars(DiscIdRet(c))
                 /\ \A k \in Keys : WF_vars(DiscKeyRet(k))

---------------------------------------------------------------------------
(* C08 *)
\* a connection whose disconnect was requested is not (or no longer) being served ...
RevokedNotServed == \A c \in revoked : cstate[c] # "registered"
NoServiceAfterRevoke == servedRev = {}
\* ... and is eventually gone from the registry, however the request interleaves with its setup
RevokedEventuallyGone == \A c \in Conns : (c \in revoked) ~> (cstate[c] = "gone")
\* a disconnect call that had to wait for the entry lock is not lost
BlockedCallsReturn == /\ \A c \in Conns : (c \in pendId) ~> (c \in revoked)
                      /\ \A k \in Keys : (k \in pendKey) ~> (k \notin pendKey)
\* other connections are unaffected: a disconnect step changes only connections it names
OthersUnaffected == [][ revoked' # revoked => \A d \in Conns : cstate'[d] # cstate[d] => d \in revoked' ]_vars
\* only connections that were admitted are ever registered; the registry holds exactly the live ones
RegistryShape == \A k \in Keys :
   /\ active[k] = None => inactive[k] = <<>>
   /\ \A c \in Conns : KeyOf[c] = k =>
        (InReg(c) <=> (active[k] = c \/ \E i \in 1..Len(inactive[k]) : inactive[k][i] = c))
PendingOnlyAdmitted == \A c \in pending : cstate[c] = "admitted"
LockDiscipline == \A k \in Keys : lock[k] # None => KeyOf[lock[k]] = k /\ ~SetUp(lock[k])

\* schedule generator: one REPLAY line per complete schedule, with the outcome the property requires
Quiescent == /\ ndisc = MaxDisc /\ pendId = {} /\ pendKey = {}
             /\ \A c \in Conns : cstate[c] \in {"registered", "gone"} /\ lock[KeyOf[c]] = None
Emit == Quiescent => PrintT(<<"REPLAY", ToJson(
          [word |-> word, served |-> [c \in Conns |-> cstate[c] = "registered"], revoked |-> revoked,
           active |-> active])>>)
=============================================================================
