---------------------------- MODULE RelayRevoke ----------------------------
(* C08 — a revoked relay connection does not stay connected.

   Models the part of the relay server between admission and registration and the embedder's
   revocation call:

     Admit(c)      Inner::accept (iroh-relay/src/server/http_server.rs): handshake::serverside, then
                   authorize_with = AccessControl::on_connect -> Allow, OnDisconnectGuard created,
                   ServerConfirmsAuth written and flushed.  From here on the embedder knows
                   (endpoint id, connection id) and may ask for a disconnect.
                   [pause point relay.accept.admitted:<endpoint> sits here]
     Register(c)   Clients::register (iroh-relay/src/server/clients.rs): one DashMap entry critical
                   section: the new connection becomes the active one, an older one is pushed to
                   `inactive`; the connection actor starts serving.
     DiscId(c)     Clients::disconnect(endpoint, Some(connection_id))
     DiscKey(k)    Clients::disconnect(endpoint, None)
                   both: look the endpoint up in the registry, start_shutdown() on the matching
                   registered connections, return whether one was found.
     Serve(c)      the connection actor answers a client frame (ping -> pong, datagram forwarded)
     ActorExit(c)  actor observes the cancellation, flushes, Clients::unregister (promotes the newest
                   inactive connection), drops the guard (on_disconnect)

   FixRevoke selects the design the property requires (TRUE: a disconnect for an admitted connection
   that is not registered yet is remembered in `pending` and honoured by Register) versus the code as
   written at the pinned commit (FALSE: `disconnect` returns false for an unknown connection and
   nothing is remembered).  The required design satisfies the properties below; TLC refutes the code
   as written with  Admit(t); DiscId(t); Register(t)  (known deviation C08_revoke_before_register).

   `word` is the schedule: the sequence of forcible steps, which vh_relayauth c08 imposes on a real
   `Server::spawn` through the pause point (mode C).  ActorExit and Serve are not part of the word:
   they are the server's own asynchronous steps; the harness waits for quiescence instead.

   Same-key connections are admitted and released in the order of ConnOrder (the pause gate is FIFO
   per endpoint); this restricts the words, not the server. *)
EXTENDS Naturals, Sequences, FiniteSets, TLC, Json
CONSTANTS Conns, Keys, KeyOf,   \* connections, endpoint ids, KeyOf[c]
          ConnOrder,            \* sequence of all connections: per-key FIFO of admission / release
          Targets,              \* connections the embedder may revoke
          MaxDisc,              \* number of disconnect requests in a behaviour
          FixRevoke

None == "none"
VARIABLES cstate,     \* [Conns -> {"new","admitted","registered","cancelled","gone"}]
          active,     \* [Keys -> Conns \cup {None}]   ClientState.active
          inactive,   \* [Keys -> Seq(Conns)]          ClientState.inactive
          revoked,    \* connections for which a disconnect was requested after their admission
          pending,    \* FixRevoke only: revocations remembered for not yet registered connections
          servedRev,  \* ghost: connections that were served after their revocation
          ndisc, word
vars == <<cstate, active, inactive, revoked, pending, servedRev, ndisc, word>>

Pos(c) == CHOOSE i \in 1..Len(ConnOrder) : ConnOrder[i] = c
EarlierSameKey(c) == {d \in Conns : KeyOf[d] = KeyOf[c] /\ Pos(d) < Pos(c)}
InReg(c) == cstate[c] \in {"registered", "cancelled"}       \* in active/inactive of its key
Known(c) == cstate[c] \in {"admitted", "registered", "cancelled"}   \* between on_connect and on_disconnect

Init == /\ cstate = [c \in Conns |-> "new"]
        /\ active = [k \in Keys |-> None] /\ inactive = [k \in Keys |-> <<>>]
        /\ revoked = {} /\ pending = {} /\ servedRev = {} /\ ndisc = 0 /\ word = <<>>

Step(op, x, ret) == word' = Append(word, [op |-> op, x |-> x, ret |-> ret])

Admit(c) ==
  /\ cstate[c] = "new" /\ \A d \in EarlierSameKey(c) : cstate[d] # "new"
  /\ cstate' = [cstate EXCEPT ![c] = "admitted"]
  /\ Step("admit", c, FALSE)
  /\ UNCHANGED <<active, inactive, revoked, pending, servedRev, ndisc>>

Register(c) ==
  LET k == KeyOf[c]  old == active[k] IN
  /\ cstate[c] = "admitted" /\ \A d \in EarlierSameKey(c) : cstate[d] \notin {"new", "admitted"}
  /\ active' = [active EXCEPT ![k] = c]
  /\ inactive' = IF old = None THEN inactive ELSE [inactive EXCEPT ![k] = Append(@, old)]
  /\ IF FixRevoke /\ c \in pending
        THEN cstate' = [cstate EXCEPT ![c] = "cancelled"] /\ pending' = pending \ {c}
        ELSE cstate' = [cstate EXCEPT ![c] = "registered"] /\ UNCHANGED pending
  /\ Step("register", c, FALSE)
  /\ UNCHANGED <<revoked, servedRev, ndisc>>

\* start_shutdown() on every connection of `hit` that is in the registry; remember the others
Revoke(hit) ==
  /\ cstate' = [c \in Conns |-> IF c \in hit /\ cstate[c] = "registered" THEN "cancelled" ELSE cstate[c]]
  /\ pending' = IF FixRevoke THEN pending \cup {c \in hit : cstate[c] = "admitted"} ELSE pending
  /\ revoked' = revoked \cup hit
  /\ ndisc' = ndisc + 1
  /\ UNCHANGED <<active, inactive, servedRev>>

DiscId(c) ==
  /\ ndisc < MaxDisc /\ c \in Targets /\ Known(c) /\ c \notin revoked
  /\ Revoke({c}) /\ Step("disc_id", c, InReg(c))

DiscKey(k) ==
  LET hit == {c \in Conns : KeyOf[c] = k /\ Known(c)} IN
  /\ ndisc < MaxDisc /\ hit \cap Targets # {} /\ ~(hit \subseteq revoked)
  /\ Revoke(hit) /\ Step("disc_key", k, \E c \in hit : InReg(c))

Serve(c) ==
  /\ cstate[c] = "registered"
  /\ servedRev' = IF c \in revoked THEN servedRev \cup {c} ELSE servedRev
  /\ UNCHANGED <<cstate, active, inactive, revoked, pending, ndisc, word>>

RemoveFrom(s, c) == SelectSeq(s, LAMBDA x : x # c)
ActorExit(c) ==
  LET k == KeyOf[c] IN
  /\ cstate[c] = "cancelled" /\ cstate' = [cstate EXCEPT ![c] = "gone"]
  /\ IF active[k] = c
        THEN IF inactive[k] # <<>>
                THEN /\ active' = [active EXCEPT ![k] = inactive[k][Len(inactive[k])]]
                     /\ inactive' = [inactive EXCEPT ![k] = SubSeq(@, 1, Len(@) - 1)]
                ELSE active' = [active EXCEPT ![k] = None] /\ UNCHANGED inactive
        ELSE inactive' = [inactive EXCEPT ![k] = RemoveFrom(@, c)] /\ UNCHANGED active
  /\ UNCHANGED <<revoked, pending, servedRev, ndisc, word>>

Next == \/ \E c \in Conns : Admit(c) \/ Register(c) \/ DiscId(c) \/ Serve(c) \/ ActorExit(c)
        \/ \E k \in Keys : DiscKey(k)
Spec == Init /\ [][Next]_vars
FairSpec == Spec /\ \A c \in Conns : WF_vars(Register(c)) /\ WF_vars(ActorExit(c))

---------------------------------------------------------------------------
(* C08 *)
\* a connection whose disconnect was requested is not (or no longer) being served ...
RevokedNotServed == \A c \in revoked : cstate[c] # "registered"
NoServiceAfterRevoke == servedRev = {}
\* ... and is eventually gone from the registry, however the request interleaves with its setup
RevokedEventuallyGone == \A c \in Conns : (c \in revoked) ~> (cstate[c] = "gone")
\* other connections are unaffected: a disconnect step changes only connections it names
OthersUnaffected == [][ revoked' # revoked => \A d \in Conns : cstate'[d] # cstate[d] => d \in revoked' ]_vars
\* only connections that were admitted are ever registered; the registry holds exactly the live ones
RegistryShape == \A k \in Keys :
   /\ active[k] = None => inactive[k] = <<>>
   /\ \A c \in Conns : KeyOf[c] = k =>
        (InReg(c) <=> (active[k] = c \/ \E i \in 1..Len(inactive[k]) : inactive[k][i] = c))
PendingOnlyAdmitted == \A c \in pending : cstate[c] = "admitted"

\* schedule generator: one REPLAY line per complete schedule, with the outcome the property requires
Quiescent == /\ ndisc = MaxDisc /\ \A c \in Conns : cstate[c] \in {"registered", "gone"}
Emit == Quiescent => PrintT(<<"REPLAY", ToJson(
          [word |-> word, served |-> [c \in Conns |-> cstate[c] = "registered"], revoked |-> revoked,
           active |-> active])>>)
=============================================================================
