\* schedule generator: every complete word with the outcome the property requires
SPECIFICATION Spec
INVARIANT RevokedNotServed NoServiceAfterRevoke RegistryShape PendingOnlyAdmitted LockDiscipline Emit
CHECK_DEADLOCK FALSE
CONSTANTS
  Keys = {"A", "B"}
  KeyOf <- MC_KeyOf
  ConnOrder <- MC_Order
  FixRevoke = TRUE
  TryLock = FALSE
  PromptRet = TRUE
