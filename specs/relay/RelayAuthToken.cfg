SPECIFICATION Spec
INVARIANT TypeOK LoopMatchesDocumentation FirstBearerWins CaseInsensitive NonTextEndsSearch QueryOnlyAsFallback NoneMeansNone Emit
PROPERTY Terminates
CHECK_DEADLOCK FALSE
