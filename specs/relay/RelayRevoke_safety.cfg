\* exhaustive safety check of the design the property requires (FixRevoke / TryLock are overridden for the refutation runs)
SPECIFICATION Spec
INVARIANT RevokedNotServed NoServiceAfterRevoke RegistryShape PendingOnlyAdmitted LockDiscipline
PROPERTY OthersUnaffected
CHECK_DEADLOCK FALSE
CONSTANTS
  Conns = {"t", "t2", "b"}
  Keys = {"A", "B"}
  KeyOf <- MC_KeyOf
  ConnOrder <- MC_Order
  Targets = {"t", "t2"}
  InOrder = FALSE
  DiscAfterSetup = FALSE
  PromptRet = FALSE
