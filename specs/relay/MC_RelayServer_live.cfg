\* liveness: a connection that left "registered" is eventually unregistered
SPECIFICATION LiveFused
PROPERTY EventuallyGone
CHECK_DEADLOCK FALSE
CONSTANTS
  Conns <- Tiny_Conns
  KeyOf <- Tiny_KeyOf
  Keys = {"A", "B"}
  NoConn = "none"
  LateCancel = FALSE
  InqCap = 1
  FixUndeliverable = TRUE
  FixRevoke = TRUE
