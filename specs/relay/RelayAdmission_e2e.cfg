\* end-to-end scenario generator: fault-free behaviours of two same-endpoint connections (they displace
\* each other) in which the environment acts only at rest; what a real client can do over plain http
SPECIFICATION Spec
INVARIANT OnConnectOnce AtMostOneDisconnect DisconnectOnlyAfterAllow GuardConservation DeniedNeverRegistered
INVARIANT RegistryOnlyLive IdsDistinct ExactlyOnceAtEnd Emit
CHECK_DEADLOCK FALSE
CONSTANTS
  Keys = {"A", "B"}
  KeyOf <- MC_KeyOf
  Script = "none"
  Causes = {"close", "disc_id", "disc_key", "shutdown"}
  QuiescentEnv = TRUE
  Paths = {"challenge"}
  Proofs = {TRUE}
  Helper = FALSE
  GuardLate = FALSE
  MaxFaults = 0
  Panics = FALSE
  SilentUnwind = FALSE
