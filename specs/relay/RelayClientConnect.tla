------------------------- MODULE RelayClientConnect -------------------------
(* Growth beyond C11/C15 (DESIGN §5, item 2): the whole of `ClientBuilder::connect`
   (iroh-relay/src/client.rs) as a pipeline, composed with a scripted relay.

   Stages in program order — one action each; every stage either passes the connection on or ends
   the attempt with a `ConnectError` class:
     MapUrl        dial_url: path := /relay, scheme http|ws -> ws (no TLS), anything else -> wss (TLS)
     NeedTlsConfig tls_config missing               -> MissingCryptoProvider   (before anything is dialed)
     Dial          MaybeTlsStreamBuilder::connect   -> Dial          (dial_happy_eyeballs, see RelayDial)
     BuildRequest  Sec-WebSocket-Protocol = all_joined; `Authorization: Bearer <token>` if a token is set
                   (a token that is no header value  -> InvalidAuthToken, after dialing, before any request)
     Upgrade       tokio-websockets handshake       -> Websocket     (no 101 / connection closed)
     CheckVersion  answer's sub-protocol            -> BadVersionHeader   (see RelayHttpNegotiate)
     Handshake     protos::handshake::clientside    -> Handshake (denied | broken)
     Connected     Ok(Client)
   The scripted relay: `listen` (accepts TCP or not), `answer` to the upgrade request, `hs` behaviour
   in the relay handshake.  What the relay sees (`seenConn`, `seenReq`, `seenAuth`, `seenPath`,
   `seenOffer`) and what the client returns (`result`) are the observables compared with the real
   client by harness vh_relaynet c11 (mode "connect").  Only plain-text URLs are bound (http, ws);
   https/wss are in the model for the scheme mapping and the TLS-config precondition only. *)
EXTENDS Naturals, Sequences, FiniteSets, TLC, Json

Schemes == {"http", "ws", "https", "wss"}
Tokens  == {"none", "valid", "invalid"}              \* invalid: contains a byte that cannot be in a header value
Answers == {"101v2", "101v1", "101v3", "101none", "400", "close"}
HsKinds == {"confirm", "deny", "close", "garbage"}

VARIABLES cfg,        \* the client's configuration [scheme, tlsConfig, token]
          srv,        \* the scripted relay [listen, answer, hs]
          stage, useTls, wsScheme,
          seenConn, seenReq, seenAuth, seenPath, seenOffer,
          version,    \* negotiated version once accepted
          result      \* "" while running, then "ok" or the error class
vars == <<cfg, srv, stage, useTls, wsScheme, seenConn, seenReq, seenAuth, seenPath, seenOffer, version, result>>

Bound(c) == c.scheme \in {"http", "ws"}               \* the cases the harness can run (no TLS on the scripted relay)
Init == /\ cfg \in [scheme : Schemes, tlsConfig : BOOLEAN, token : Tokens]
        /\ srv \in [listen : BOOLEAN, answer : Answers, hs : HsKinds]
        \* unbound schemes: one representative relay is enough (nothing is dialed in the model beyond the precondition)
        /\ ~Bound(cfg) => srv = [listen |-> TRUE, answer |-> "101v2", hs |-> "confirm"]
        \* irrelevant knobs are fixed so that every case is distinct in what it exercises
        /\ ~srv.listen => srv.answer = "101v2" /\ srv.hs = "confirm"
        /\ srv.answer \notin {"101v2", "101v1"} => srv.hs = "confirm"
        /\ stage = "map" /\ useTls = FALSE /\ wsScheme = "" /\ seenConn = FALSE /\ seenReq = FALSE
        /\ seenAuth = "none" /\ seenPath = "" /\ seenOffer = <<>> /\ version = "none" /\ result = ""

Fail(class) == /\ result' = class /\ stage' = "done"
Pass(next)  == /\ stage' = next /\ UNCHANGED result

MapUrl == /\ stage = "map"
          /\ wsScheme' = IF cfg.scheme \in {"http", "ws"} THEN "ws" ELSE "wss"
          /\ useTls' = (cfg.scheme \notin {"http", "ws"})
          /\ Pass("tlscfg")
          /\ UNCHANGED <<cfg, srv, seenConn, seenReq, seenAuth, seenPath, seenOffer, version>>

NeedTlsConfig == /\ stage = "tlscfg"
                 /\ IF cfg.tlsConfig THEN Pass("dial") ELSE Fail("MissingCryptoProvider")
                 /\ UNCHANGED <<cfg, srv, useTls, wsScheme, seenConn, seenReq, seenAuth, seenPath, seenOffer, version>>

\* unbound (TLS) schemes stop here in the model: the TLS handshake is not modelled
Dial == /\ stage = "dial"
        /\ IF ~Bound(cfg) THEN Fail("unmodelled-tls") /\ UNCHANGED seenConn
           ELSE IF srv.listen THEN Pass("request") /\ seenConn' = TRUE
           ELSE Fail("Dial") /\ UNCHANGED seenConn
        /\ UNCHANGED <<cfg, srv, useTls, wsScheme, seenReq, seenAuth, seenPath, seenOffer, version>>

BuildRequest == /\ stage = "request"
                /\ IF cfg.token = "invalid" THEN Fail("InvalidAuthToken") /\ UNCHANGED <<seenReq, seenAuth, seenPath, seenOffer>>
                   ELSE /\ Pass("upgrade") /\ seenReq' = TRUE /\ seenPath' = "/relay"
                        /\ seenAuth' = IF cfg.token = "valid" THEN "bearer" ELSE "none"
                        /\ seenOffer' = <<"v2", "v1">>
                /\ UNCHANGED <<cfg, srv, useTls, wsScheme, seenConn, version>>

Upgrade == /\ stage = "upgrade"
           /\ IF srv.answer \in {"400", "close"} THEN Fail("Websocket") ELSE Pass("version")
           /\ UNCHANGED <<cfg, srv, useTls, wsScheme, seenConn, seenReq, seenAuth, seenPath, seenOffer, version>>

CheckVersion == /\ stage = "version"
                /\ IF srv.answer = "101v2" THEN Pass("handshake") /\ version' = "v2"
                   ELSE IF srv.answer = "101v1" THEN Pass("handshake") /\ version' = "v1"
                   ELSE Fail("BadVersionHeader") /\ UNCHANGED version
                /\ UNCHANGED <<cfg, srv, useTls, wsScheme, seenConn, seenReq, seenAuth, seenPath, seenOffer>>

Handshake == /\ stage = "handshake"
             /\ CASE srv.hs = "confirm" -> Pass("connected")
                  [] srv.hs = "deny"    -> Fail("HandshakeDenied")
                  [] OTHER              -> Fail("HandshakeBroken")
             /\ UNCHANGED <<cfg, srv, useTls, wsScheme, seenConn, seenReq, seenAuth, seenPath, seenOffer, version>>

Connected == /\ stage = "connected" /\ result' = "ok" /\ stage' = "done"
             /\ UNCHANGED <<cfg, srv, useTls, wsScheme, seenConn, seenReq, seenAuth, seenPath, seenOffer, version>>

Next == MapUrl \/ NeedTlsConfig \/ Dial \/ BuildRequest \/ Upgrade \/ CheckVersion \/ Handshake \/ Connected
Spec == Init /\ [][Next]_vars

---------------------------------------------------------------------------
Done == stage = "done"
\* connected only through a listening relay that answered 101 with a supported version and confirmed the handshake
OkOnlyIfAllStagesPass == Done /\ result = "ok" => /\ cfg.tlsConfig /\ cfg.token # "invalid" /\ srv.listen
                                                  /\ srv.answer \in {"101v2", "101v1"} /\ srv.hs = "confirm"
                                                  /\ version \in {"v1", "v2"}
OkIfAllStagesPass == Done /\ Bound(cfg) /\ cfg.tlsConfig /\ cfg.token # "invalid" /\ srv.listen
                        /\ srv.answer \in {"101v2", "101v1"} /\ srv.hs = "confirm" => result = "ok"
\* nothing leaves the machine without a TLS configuration; no request leaves with an unusable token
NoDialWithoutTlsConfig == ~cfg.tlsConfig => ~seenConn /\ ~seenReq
NoRequestWithBadToken == cfg.token = "invalid" => ~seenReq
\* the token travels only as an Authorization header of the upgrade request, and only if one was set
TokenOnlyIfSet == (seenAuth = "bearer") <=> (seenReq /\ cfg.token = "valid")
\* the relay handshake (which proves the client's key) is started only after the version was accepted
HandshakeAfterVersion == stage \in {"handshake", "connected"} \/ (Done /\ result \in {"ok", "HandshakeDenied", "HandshakeBroken"})
                            => version \in {"v1", "v2"}
\* plain schemes never use TLS, the others always do; the websocket scheme follows
SchemeMapping == stage # "map" => /\ useTls = (cfg.scheme \in {"https", "wss"})
                                  /\ wsScheme = (IF useTls THEN "wss" ELSE "ws")

Emit == Done /\ Bound(cfg) => PrintT(<<"REPLAY", ToJson([cfg |-> cfg, srv |-> srv, result |-> result, version |-> version,
                                                         seenConn |-> seenConn, seenReq |-> seenReq, seenAuth |-> seenAuth,
                                                         seenPath |-> seenPath, seenOffer |-> seenOffer])>>)
=============================================================================
