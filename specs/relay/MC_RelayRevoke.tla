--------------------------- MODULE MC_RelayRevoke ---------------------------
(* Model-checking / schedule-generation instances of RelayRevoke.
   t, t2, t3: connections of endpoint A (duplicates of the same endpoint);
   b: bystander connection of endpoint B. *)
EXTENDS RelayRevoke
MC_KeyOf == [c \in Conns |-> IF c \in {"t", "t2", "t3"} THEN "A" ELSE "B"]
MC_Order == SelectSeq(<<"t", "t2", "t3", "b">>, LAMBDA c : c \in Conns)
=============================================================================
