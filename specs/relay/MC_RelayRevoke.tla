--------------------------- MODULE MC_RelayRevoke ---------------------------
(* Model-checking / schedule-generation instances of RelayRevoke.
   t, t2: connections of endpoint A (t2 is a duplicate connection of the same endpoint);
   b: bystander connection of endpoint B. *)
EXTENDS RelayRevoke
MC_KeyOf == [c \in Conns |-> IF c \in {"t", "t2"} THEN "A" ELSE "B"]
MC_Order == IF "t2" \in Conns THEN <<"t", "t2", "b">> ELSE <<"t", "b">>
=============================================================================
