SPECIFICATION Spec
INVARIANT OkOnlyIfAllStagesPass OkIfAllStagesPass NoDialWithoutTlsConfig NoRequestWithBadToken TokenOnlyIfSet
INVARIANT HandshakeAfterVersion SchemeMapping Emit
CHECK_DEADLOCK FALSE
