\* liveness under fairness of the server's steps and of the client's eventual close:
\* every admitted connection is eventually reported as disconnected
SPECIFICATION FairSpec
VIEW View
INVARIANT ExactlyOnceAtEnd
PROPERTY AdmittedEventuallyDisconnected
CHECK_DEADLOCK FALSE
CONSTANTS
  Keys = {"A", "B"}
  KeyOf <- MC_KeyOf
  Causes = {"close", "disc_id", "disc_key", "shutdown", "displaced", "pong_timeout"}
  QuiescentEnv = FALSE
  Paths = {"km", "challenge"}
  Proofs = {TRUE, FALSE}
  Helper = TRUE
  GuardLate = FALSE
  Panics = TRUE
  SilentUnwind = FALSE
