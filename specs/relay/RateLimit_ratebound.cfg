SPECIFICATION SpecBucket
INVARIANT RateBound
CHECK_DEADLOCK FALSE
CONSTANTS
  W = 16
