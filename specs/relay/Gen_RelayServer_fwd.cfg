\* behaviour generator, instance "fwd"; caps, Classes, Ops, MaxSteps, MaxFrames are chosen by the check
SPECIFICATION GSpec
INVARIANT Emit
CHECK_DEADLOCK FALSE
CONSTANTS
  Conns <- Fwd_Conns
  KeyOf <- Fwd_KeyOf
  Pre <- Fwd_Pre
  NoConn = "none"
  LateCancel = FALSE
  InqCap = 1
  FixRevoke = FALSE
