SPECIFICATION Spec
INVARIANT ProbeAnswers204 EchoIffWellFormed EchoIsChallenge OnlyProbeEchoes Emit
CHECK_DEADLOCK FALSE
CONSTANTS
  Limit = 64
