------------------------- MODULE RelayHttpNegotiate -------------------------
(* C11 — relay protocol version negotiation over the websocket upgrade.

   Code modelled
     iroh-relay/src/http.rs               ProtocolVersion { V1 = "iroh-relay-v1" < V2 = "iroh-relay-v2" },
                                          match_from_str (exact, case-sensitive), ALL / all_joined.
     iroh-relay/src/server/http_server.rs RelayServiceWithNotify::call (GET /relay dispatch) and
                                          handle_relay_ws_upgrade: the checks in program order
                                          (Upgrade, Sec-WebSocket-Key, Sec-WebSocket-Version,
                                          Sec-WebSocket-Protocol present / ASCII /
                                          split(',') . trim . match_from_str . max), the 101 answer
                                          naming the chosen version, the 400 answers.
     iroh-relay/src/server/client.rs      Client::send_status: Status frame in V2, Health frame in V1
                                          (what "the server speaks the version" means on the wire).
     iroh-relay/src/client.rs             ClientBuilder::connect: offers all_joined, requires 101 and a
                                          Sec-WebSocket-Protocol answer that match_from_str accepts.
     iroh-relay/src/protos/relay.rs       RelayToClientMsg::from_bytes: Health only in V1, Status only
                                          from V2 on (what "the client speaks the version" means).

   A sub-protocol header is a sequence of *tokens* from a small alphabet (TokDef): supported,
   unsupported, padded, wrong case, with junk, non-ASCII.  The check module maps token names to bytes.

   Three compositions ("mode"):
     "srv"  scripted client  -> real server : any request of SrvCases
     "cli"  real client      -> scripted server : any answer of Answers
     "e2e"  real client      -> real server
   Actions (one per step of the exchange):
     ServerUpgrade   the real server's decision for the request          (srv, e2e)
     ScriptedAnswer  the scripted server sends its answer                  (cli)
     ClientCheck     the real client's decision about the answer          (cli, e2e)
     Established     after the relay handshake both ends use their version (whenever upgraded/accepted)
   One initial state per case; `Emit` prints the expected observations of every case. *)
EXTENDS Naturals, Sequences, FiniteSets, TLC, Json

CONSTANTS MaxLen,      \* longest offered header (tokens)
          Tokens,      \* token names used for offered headers (subset of DOMAIN TokDef)
          Modes        \* subset of {"srv", "cli", "e2e"}

(* token alphabet: base name, padding around it, and how the name is spelled *)
TokDef == [ v1     |-> [base |-> "v1",   pad |-> "none", form |-> "exact"],
            v2     |-> [base |-> "v2",   pad |-> "none", form |-> "exact"],
            v3     |-> [base |-> "v3",   pad |-> "none", form |-> "exact"],      \* a future version
            empty  |-> [base |-> "",     pad |-> "none", form |-> "exact"],      \* nothing between two commas
            v2_sp  |-> [base |-> "v2",   pad |-> "both", form |-> "exact"],      \* " iroh-relay-v2 "
            v1_lsp |-> [base |-> "v1",   pad |-> "left", form |-> "exact"],      \* " iroh-relay-v1" (as in all_joined)
            v1_tab |-> [base |-> "v1",   pad |-> "tab",  form |-> "exact"],      \* "\tiroh-relay-v1\t"
            V2     |-> [base |-> "v2",   pad |-> "none", form |-> "upper"],      \* "IROH-RELAY-V2"
            v2x    |-> [base |-> "v2",   pad |-> "none", form |-> "suffix"],     \* "iroh-relay-v2x"
            v1in   |-> [base |-> "v1",   pad |-> "none", form |-> "inner"],      \* "iroh-relay -v1"
            chat   |-> [base |-> "chat", pad |-> "none", form |-> "exact"],      \* some other websocket protocol
            v2_hi  |-> [base |-> "v2",   pad |-> "none", form |-> "nonascii"] ]  \* "iroh-relay-v2\xFF"
Supported == {"v1", "v2"}
Rank(v) == IF v = "v2" THEN 2 ELSE IF v = "v1" THEN 1 ELSE 0       \* ProtocolVersion's Ord: newest is max
ClientOffer == <<"v2", "v1_lsp">>                                   \* ProtocolVersion::all_joined()

\* `s.trim()` then `ProtocolVersion::match_from_str(s)`: padding is gone, the spelling must be exact
Parse(t) == IF TokDef[t].form = "exact" /\ TokDef[t].base \in Supported THEN TokDef[t].base ELSE "none"
NonAscii(h) == \E i \in 1..Len(h) : TokDef[h[i]].form = "nonascii"
Offered(h) == {Parse(h[i]) : i \in 1..Len(h)} \ {"none"}
Best(S) == CHOOSE v \in S : \A w \in S : Rank(w) <= Rank(v)

VARIABLES mode, req, ans,       \* the case: request of the (scripted) client / answer of the scripted server
          stage, resp,          \* resp: what the server sent
          accepted, cliErr,     \* the real client's verdict
          srvSpeaks, cliSpeaks
vars == <<mode, req, ans, stage, resp, accepted, cliErr, srvSpeaks, cliSpeaks>>

NoResp == [status |-> 0, hasProto |-> FALSE, proto |-> "", wsver |-> FALSE, reason |-> ""]

---------------------------------------------------------------------------
(* cases *)
RECURSIVE SeqsUpTo(_, _)
SeqsUpTo(S, n) == IF n = 0 THEN {<<>>} ELSE LET P == SeqsUpTo(S, n - 1) IN P \cup {Append(p, s) : p \in {q \in P : Len(q) = n - 1}, s \in S}
Headers == SeqsUpTo(Tokens, MaxLen) \ {<<>>}        \* "" is the header <<"empty">>

GoodReq(h, present) == [method |-> "GET", path |-> "/relay", upgrade |-> "websocket", key |-> TRUE, wsver |-> "13",
                        hasProto |-> present, proto |-> h]
\* requests that differ from a good upgrade request in one other header, with three offers each
OtherOffers == {<<"v2", "v1_lsp">>, <<"v1">>, <<"v3">>}
VariantReqs ==
  UNION {{[GoodReq(h, TRUE) EXCEPT !.method = "POST"], [GoodReq(h, TRUE) EXCEPT !.path = "/relay/"],
          [GoodReq(h, TRUE) EXCEPT !.upgrade = "absent"], [GoodReq(h, TRUE) EXCEPT !.upgrade = "WebSocket"],
          [GoodReq(h, TRUE) EXCEPT !.upgrade = "h2c"], [GoodReq(h, TRUE) EXCEPT !.key = FALSE],
          [GoodReq(h, TRUE) EXCEPT !.wsver = "absent"], [GoodReq(h, TRUE) EXCEPT !.wsver = "12"],
          [GoodReq(h, TRUE) EXCEPT !.wsver = "8, 13"]} : h \in OtherOffers}
SrvCases == {GoodReq(h, TRUE) : h \in Headers} \cup {GoodReq(<<>>, FALSE)} \cup VariantReqs

AnswerTokens == (DOMAIN TokDef) \cup {"list_v2_v1"}       \* "iroh-relay-v2, iroh-relay-v1": a list is not a choice
Answers == {[status |-> s, hasProto |-> TRUE, proto |-> t] : s \in {101}, t \in AnswerTokens}
           \cup {[status |-> 101, hasProto |-> FALSE, proto |-> ""]}
           \cup {[status |-> s, hasProto |-> TRUE, proto |-> "v2"] : s \in {200, 400}}
NoAns == [status |-> 0, hasProto |-> FALSE, proto |-> ""]

Init == /\ mode \in Modes
        /\ \/ mode = "srv" /\ req \in SrvCases /\ ans = NoAns
           \/ mode = "cli" /\ req = GoodReq(ClientOffer, TRUE) /\ ans \in Answers
           \/ mode = "e2e" /\ req = GoodReq(ClientOffer, TRUE) /\ ans = NoAns
        /\ stage = "request" /\ resp = NoResp /\ accepted = FALSE /\ cliErr = "" /\ srvSpeaks = "none" /\ cliSpeaks = "none"

---------------------------------------------------------------------------
(* the real server: RelayServiceWithNotify::call + handle_relay_ws_upgrade, checks in program order *)
Bad(reason)  == [NoResp EXCEPT !.status = 400, !.reason = reason]
ServerDecision(r) ==
  IF ~(r.method = "GET" /\ r.path = "/relay") THEN [NoResp EXCEPT !.status = 404, !.reason = "route"]
  ELSE IF r.upgrade = "absent"      THEN Bad("upgrade-missing")
  ELSE IF r.upgrade # "websocket"   THEN Bad("upgrade-value")          \* compared byte for byte
  ELSE IF ~r.key                    THEN Bad("key-missing")
  ELSE IF r.wsver = "absent"        THEN Bad("wsversion-missing")
  ELSE IF r.wsver # "13"            THEN [Bad("wsversion") EXCEPT !.wsver = TRUE]    \* answers with the version it supports
  ELSE IF ~r.hasProto               THEN Bad("proto-missing")
  ELSE IF NonAscii(r.proto)         THEN Bad("proto-nonascii")
  ELSE IF Offered(r.proto) = {}     THEN Bad("proto-unsupported")
  ELSE [NoResp EXCEPT !.status = 101, !.hasProto = TRUE, !.proto = Best(Offered(r.proto)), !.reason = "upgrade"]

ServerUpgrade == /\ stage = "request" /\ mode \in {"srv", "e2e"}
                 /\ resp' = ServerDecision(req)
                 /\ stage' = IF mode = "e2e" THEN "answer" ELSE IF resp'.status = 101 THEN "upgraded" ELSE "done"
                 /\ UNCHANGED <<mode, req, ans, accepted, cliErr, srvSpeaks, cliSpeaks>>

ScriptedAnswer == /\ stage = "request" /\ mode = "cli"
                  /\ resp' = [NoResp EXCEPT !.status = ans.status, !.hasProto = ans.hasProto, !.proto = ans.proto]
                  /\ stage' = "answer"
                  /\ UNCHANGED <<mode, req, ans, accepted, cliErr, srvSpeaks, cliSpeaks>>

(* the real client: ClientBuilder::connect after the websocket handshake.  The answer's value reaches
   match_from_str with the optional whitespace around it already removed by the HTTP layer. *)
AnswerParse(t) == IF t \in DOMAIN TokDef THEN Parse(t) ELSE "none"
AnswerAscii(t) == ~(t \in DOMAIN TokDef /\ TokDef[t].form = "nonascii")
ClientCheck == /\ stage = "answer"
               /\ LET v == IF resp.hasProto /\ AnswerAscii(resp.proto) THEN AnswerParse(resp.proto) ELSE "none" IN
                  /\ cliErr' = IF resp.status # 101 THEN "status" ELSE IF v = "none" THEN "version" ELSE ""
                  /\ accepted' = (cliErr' = "")
                  /\ stage' = IF accepted' THEN "upgraded" ELSE "done"
               /\ UNCHANGED <<mode, req, ans, resp, srvSpeaks, cliSpeaks>>

\* the connection is up: each real end frames its traffic by the version it settled on
Established == /\ stage = "upgraded"
               /\ srvSpeaks' = IF mode \in {"srv", "e2e"} THEN resp.proto ELSE "none"
               /\ cliSpeaks' = IF mode \in {"cli", "e2e"} THEN AnswerParse(resp.proto) ELSE "none"
               /\ stage' = "done"
               /\ UNCHANGED <<mode, req, ans, resp, accepted, cliErr>>

Next == ServerUpgrade \/ ScriptedAnswer \/ ClientCheck \/ Established
Spec == Init /\ [][Next]_vars

---------------------------------------------------------------------------
(* C11, stated independently of the code's parsing pipeline: a header *offers* version v when one of its
   comma-separated members, without surrounding blanks, is exactly v's name. *)
Done == stage = "done"
RealServer == mode \in {"srv", "e2e"}
RealClient == mode \in {"cli", "e2e"}
Names(t) == IF TokDef[t].form = "exact" THEN TokDef[t].base ELSE "garbled"
OffersSupported(h) == {v \in Supported : \E i \in 1..Len(h) : Names(h[i]) = v}
WellFormedUpgrade == req.method = "GET" /\ req.path = "/relay" /\ req.upgrade = "websocket" /\ req.key /\ req.wsver = "13"

\* the relay upgrades only if the client offers at least one supported version ...
UpgradeOnlyIfOffered == Done /\ RealServer /\ resp.status = 101 => req.hasProto /\ OffersSupported(req.proto) # {}
\* ... and (for a well-formed upgrade request with a printable header) always when it does
UpgradeIfOffered == Done /\ RealServer /\ WellFormedUpgrade /\ req.hasProto /\ ~NonAscii(req.proto) /\ OffersSupported(req.proto) # {}
                       => resp.status = 101
\* ... and then uses the newest version the client offered
PicksNewestOffered == Done /\ RealServer /\ resp.status = 101 =>
                         /\ resp.hasProto /\ resp.proto \in OffersSupported(req.proto)
                         /\ \A v \in OffersSupported(req.proto) : Rank(v) <= Rank(resp.proto)
                         /\ srvSpeaks = resp.proto
\* a refused upgrade is a 4xx and never names a version
RefusalIsClean == Done /\ RealServer /\ resp.status # 101 => resp.status \in {400, 404} /\ ~resp.hasProto /\ srvSpeaks = "none"
\* a client accepts an answer only if it names a version the client supports, and then speaks it
ClientAcceptsOnlySupported == Done /\ RealClient /\ accepted => /\ resp.status = 101 /\ resp.hasProto
                                                                /\ cliSpeaks \in Supported
                                                                /\ (resp.proto \in DOMAIN TokDef /\ Names(resp.proto) = cliSpeaks)
ClientRejectsOthers == Done /\ RealClient /\ ~accepted => cliSpeaks = "none" /\ cliErr \in {"status", "version"}
\* both ends speak the same version
Agreement == Done /\ mode = "e2e" => accepted /\ srvSpeaks = cliSpeaks /\ cliSpeaks = "v2"

Emit == Done => PrintT(<<"REPLAY", ToJson([mode |-> mode, req |-> req, ans |-> ans, resp |-> resp, accepted |-> accepted,
                                           cliErr |-> cliErr, srvSpeaks |-> srvSpeaks, cliSpeaks |-> cliSpeaks])>>)
=============================================================================
