------------------------- MODULE MC_RelayAuthToken -------------------------
(* Alphabets for RelayAuthToken.  `lname` is the lower-cased scheme, `name`/`val` the form-decoded
   meaning of `raw`; both relations are fixed here by hand (independent of the code under test). *)
EXTENDS RelayAuthToken
H(id, scheme, lname, hasRest, rest, text) ==
    [id |-> id, scheme |-> scheme, lname |-> lname, hasRest |-> hasRest, rest |-> rest, text |-> text]
AllHeaders == {
    H(1,  "Bearer",  "bearer",  TRUE,  "t1",        "ascii"),
    H(2,  "bearer",  "bearer",  TRUE,  "t2",        "ascii"),
    H(3,  "BEARER",  "bearer",  TRUE,  " t3",       "ascii"),    \* two spaces: the token keeps the second
    H(4,  "bEaReR",  "bearer",  TRUE,  "t4 more",   "ascii"),    \* everything after the first space
    H(5,  "Bearer",  "bearer",  FALSE, "",          "ascii"),    \* scheme only, no space
    H(6,  "Bearer",  "bearer",  TRUE,  "",          "ascii"),    \* trailing space: empty token
    H(7,  "Basic",   "basic",   TRUE,  "dXNlcg==",  "ascii"),
    H(8,  "Bearerx", "bearerx", TRUE,  "t8",        "ascii"),
    H(9,  "",        "",        TRUE,  "Bearer t9", "ascii"),    \* leading space: empty scheme
    H(10, "",        "",        FALSE, "",          "ascii"),    \* empty value
    H(11, "Bearer=t11", "bearer=t11", FALSE, "",    "ascii"),    \* no space separator
    H(12, "Bearer",  "bearer",  TRUE,  "t12",       "binary"),   \* Bearer header with a malformed byte
    H(13, "Basic",   "basic",   TRUE,  "x",         "binary"),
    H(14, "Bearer",  "bearer",  TRUE,  "t14",       "utf8") }
P(id, raw, name, val) == [id |-> id, raw |-> raw, name |-> name, val |-> val]
AllParams == {
    P(1, "token=q1",           "token",  "q1"),
    P(2, "token=q2",           "token",  "q2"),
    P(3, "token=a%20b+c%26d",  "token",  "a b c&d"),
    P(4, "x=1",                "x",      "1"),
    P(5, "Token=q5",           "Token",  "q5"),
    P(6, "%74oken=q6",         "token",  "q6"),
    P(7, "token",              "token",  ""),
    P(8, "token=",             "token",  ""),
    P(9, "tokenx=q9",          "tokenx", "q9"),
    P(10, "to+ken=q10",        "to ken", "q10") }
HeadersById(S) == {h \in AllHeaders : h.id \in S}
ParamsById(S) == {p \in AllParams : p.id \in S}
MC_HeadersAll == AllHeaders
MC_ParamsAll == AllParams
MC_ParamsFew == ParamsById({1, 5})
MC_HeadersFew == HeadersById({1, 2, 7, 12, 14})
=============================================================================
