---------------------------- MODULE PingTracker ----------------------------
(* C14 — iroh_relay::PingTracker (iroh-relay/src/ping_tracker.rs) with integer time.

   One time unit = 100 ms.  Ping payloads are numbered 1..npings in the model and are
   mapped to the real random 8-byte payloads by the harness; payload 0 is a forged one.

   State mirrors the struct: `inner` = (cur, sentAt, deadline), `last_rtt` = lastRtt
   (stored +1 so that 0 means None).  One action per public method:
     NewPing      new_ping()           deadline = now + ping_timeout()
     Pong(d)      pong_received(d)     only the payload of the latest ping has an effect
     Advance(dt)  time passes
     Poll         timeout() polled once: completes iff the latest ping is outstanding
                  and its deadline has passed; completing clears the ping.
   `hist` is the behaviour with the expected observations, replayed on the real
   object by harness/src/bin/vh_relay.rs (c14). *)
EXTENDS Naturals, Sequences, FiniteSets, TLC, Json
CONSTANTS MaxT,      \* configured maximum timeout (units)
          MinT,      \* MIN_HEALTH_CHECK_TIMEOUT (5 units = 500 ms)
          MaxPings, MaxNow, MaxSteps, Dts
VARIABLES now, cur, sentAt, deadline, lastRtt, npings,
          answered,  \* ghost: ping numbers whose pong was accepted
          firedFor,  \* ghost: ping numbers for which the connection was declared dead
          hist
vars == <<now, cur, sentAt, deadline, lastRtt, npings, answered, firedFor, hist>>

Clamp(x) == IF x < MinT THEN MinT ELSE IF x > MaxT THEN MaxT ELSE x
TimeoutOf(r) == IF r = 0 THEN MaxT ELSE Clamp(3 * (r - 1))
Timeout == TimeoutOf(lastRtt)

Log(op, arg, fired) ==
  hist' = Append(hist, [op |-> op, arg |-> arg, fired |-> fired, timeout |-> TimeoutOf(lastRtt'), now |-> now'])

Bound == Len(hist) < MaxSteps

Init == /\ now = 0 /\ cur = 0 /\ sentAt = 0 /\ deadline = 0 /\ lastRtt = 0 /\ npings = 0
        /\ answered = {} /\ firedFor = {} /\ hist = <<>>

NewPing == /\ Bound /\ npings < MaxPings /\ npings' = npings + 1 /\ cur' = npings + 1
           /\ sentAt' = now /\ deadline' = now + Timeout
           /\ UNCHANGED <<now, lastRtt, answered, firedFor>> /\ Log("new_ping", npings + 1, FALSE)

Pong(d) == /\ Bound /\ d <= npings
           /\ IF cur # 0 /\ d = cur
                 THEN lastRtt' = (now - sentAt) + 1 /\ cur' = 0 /\ answered' = answered \cup {d}
                 ELSE UNCHANGED <<lastRtt, cur, answered>>
           /\ UNCHANGED <<now, sentAt, deadline, npings, firedFor>> /\ Log("pong", d, FALSE)

Advance(dt) == /\ Bound /\ now + dt <= MaxNow /\ now' = now + dt
               /\ UNCHANGED <<cur, sentAt, deadline, lastRtt, npings, answered, firedFor>> /\ Log("advance", dt, FALSE)

Poll == /\ Bound
        /\ UNCHANGED <<now, sentAt, deadline, lastRtt, npings, answered>>
        /\ IF cur # 0 /\ now >= deadline
              THEN cur' = 0 /\ firedFor' = firedFor \cup {cur} /\ Log("poll", 0, TRUE)
              ELSE UNCHANGED <<cur, firedFor>> /\ Log("poll", 0, FALSE)

\* a plain disjunction of named actions, so that TLC reports coverage per action
Next == NewPing \/ (\E d \in 0..MaxPings : Pong(d)) \/ (\E dt \in Dts : Advance(dt)) \/ Poll
Spec == Init /\ [][Next]_vars

---------------------------------------------------------------------------
(* C14 *)
\* dead is declared only for a ping that was the latest when it fired and was never answered
DeadOnlyByLatestUnanswered == \A p \in firedFor : p \notin answered
\* ... and only at or after its deadline: checked as an action property
FiresOnlyPastDeadline == [][ (firedFor' # firedFor) => (cur # 0 /\ cur = npings /\ now >= deadline /\ firedFor' = firedFor \cup {cur}) ]_vars
\* a pong for an older ping or with wrong data changes neither deadline nor measured rtt nor the outstanding ping
StalePongNoEffect == [][ (answered' = answered /\ Len(hist') = Len(hist) + 1 /\ hist'[Len(hist')].op = "pong")
                          => UNCHANGED <<cur, sentAt, deadline, lastRtt>> ]_vars
\* only the latest ping is ever answered
OnlyLatestAnswered == [][ \A p \in answered' \ answered : p = npings /\ p = cur ]_vars
\* the deadline of a ping is 3x the measured rtt clamped to [MinT, MaxT] (MaxT before any measurement)
DeadlineRule == cur # 0 => /\ deadline - sentAt >= MinT \/ lastRtt = 0
                           /\ deadline - sentAt <= MaxT
TimeoutBounds == Timeout <= MaxT /\ (lastRtt # 0 => Timeout >= MinT)

\* behaviour generator: one REPLAY line per reachable history, with the final outstanding flag
Emit == PrintT(<<"REPLAY", ToJson([steps |-> hist, outstanding |-> (cur # 0), maxt |-> MaxT])>>)
=============================================================================
