\* as RelayMapLocks.cfg with three URLs (used with -simulate for longer sequences)
SPECIFICATION SpecLocks
INVARIANT TypeOK LocksConsistent LocksFreeWhenIdle NeverBlocksForever ClonesAgree Emit
PROPERTY InsertIsMapInsert RemoveIsMapRemove TokenSetsAllPresent ExtendIsUnion EqChangesNothing
CHECK_DEADLOCK FALSE
CONSTANTS
  Handles = {"a", "a2", "b"}
  ObjOf <- MC_ObjOf
  Urls = {"u1", "u2", "u3"}
  Tokens = {7}
