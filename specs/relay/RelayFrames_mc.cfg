SPECIFICATION Spec
INVARIANT TypeOK EncodedLenExact LimitAgreement SinkAcceptsUpToMax RoundTrip DecodesIfWithinDecoderLimit CrossVersionRejected OtherDirectionRejected DecodingTotal DecoderLimit
CHECK_DEADLOCK FALSE
CONSTANTS
  MAX = 65536
  Lens <- MC_Lens
  AdvLens <- MC_AdvLens
  AdvTags <- MC_AdvTags
