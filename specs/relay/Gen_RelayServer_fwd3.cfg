\* behaviour generator, instance "fwd3" (duplicate connection of the destination already displaced); caps, Classes, Ops, MaxSteps, MaxFrames are chosen by the check
SPECIFICATION GSpec
INVARIANT Emit
CHECK_DEADLOCK FALSE
CONSTANTS
  Conns <- Fwd_Conns
  KeyOf <- Fwd_KeyOf
  Pre <- Fwd_Pre3
  NoConn = "none"
  LateCancel = FALSE
  InqCap = 1
  FixRevoke = FALSE
