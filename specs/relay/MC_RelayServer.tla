------------------------- MODULE MC_RelayServer -------------------------
(* Model-checking instances of RelayServer: constants a .cfg cannot express, and next-state
   relations restricted to an action family (each a plain disjunction, so that TLC's
   coverage shows every action of the family being taken).
     SpecFused   client frames and closes are read at once (ClientFrame / Close), no admin calls
     SpecAdmin   SpecFused + Disconnect / DisconnectKey
     SpecRegistry  registrations, closes, disconnects only (no client frames)
     SpecFaults  SpecAdmin + Stall / Unstall / BreakSink / FinishWrite
     SpecSplit   Push / Leave / ReadFrame as separate steps + admin calls
     Spec        everything (RelayServer!Next) *)
EXTENDS RelayServer
Tiny_Conns == {"a1", "b1"}
Tiny_KeyOf == [c \in Tiny_Conns |-> IF c = "b1" THEN "B" ELSE "A"]
\* forwarding instance: two connections of A, one of B
Fwd_Conns == {"a1", "a2", "b1"}
Fwd_KeyOf == [c \in Fwd_Conns |-> IF c = "b1" THEN "B" ELSE "A"]
\* registry instance: three connections of A, one of B
Reg_Conns == {"a1", "a2", "a3", "b1"}
Reg_KeyOf == [c \in Reg_Conns |-> IF c = "b1" THEN "B" ELSE "A"]
\* three connections of A only
Reg3_Conns == {"a1", "a2", "a3"}
Reg3_KeyOf == [c \in Reg3_Conns |-> "A"]
\* two keys with two connections each
Duo_Conns == {"a1", "a2", "b1", "b2"}
Duo_KeyOf == [c \in Duo_Conns |-> IF c \in {"b1", "b2"} THEN "B" ELSE "A"]

NextFused == \/ \E c \in Conns : Admit(c)
             \/ \E c \in Conns : Register(c)
             \/ \E c \in Conns, d \in Keys, cls \in Classes, g \in Modes : ClientFrame(c, d, cls, g)
             \/ \E c \in Conns : Close(c)
             \/ \E c \in Conns : TakePacket(c)
             \/ \E c \in Conns : TakeMsg(c)
             \/ \E c \in Conns : Unregister(c)
             \/ \E k \in Keys, p \in Keys : NotifyGone(k, p)
NextAdmin == \/ \E c \in Conns : Admit(c)
             \/ \E c \in Conns : Register(c)
             \/ \E c \in Conns, d \in Keys, cls \in Classes, g \in Modes : ClientFrame(c, d, cls, g)
             \/ \E c \in Conns : Close(c)
             \/ \E c \in Conns : TakePacket(c)
             \/ \E c \in Conns : TakeMsg(c)
             \/ \E c \in Conns : Disconnect(c)
             \/ \E k \in Keys : DisconnectKey(k)
             \/ \E c \in Conns : Unregister(c)
             \/ \E k \in Keys, p \in Keys : NotifyGone(k, p)
NextRegistry == \/ \E c \in Conns : Admit(c)
                \/ \E c \in Conns : Register(c)
                \/ \E c \in Conns : Close(c)
                \/ \E c \in Conns : TakeMsg(c)
                \/ \E c \in Conns : Disconnect(c)
                \/ \E k \in Keys : DisconnectKey(k)
                \/ \E c \in Conns : Unregister(c)
NextFaults == \/ \E c \in Conns : Admit(c)
              \/ \E c \in Conns : Register(c)
              \/ \E c \in Conns, d \in Keys, cls \in Classes, g \in Modes : ClientFrame(c, d, cls, g)
              \/ \E c \in Conns : Close(c)
              \/ \E c \in Conns : TakePacket(c)
              \/ \E c \in Conns : TakeMsg(c)
              \/ \E c \in Conns : FinishWrite(c)
              \/ \E c \in Conns : Disconnect(c)
              \/ \E k \in Keys : DisconnectKey(k)
              \/ \E c \in Conns : Unregister(c)
              \/ \E k \in Keys, p \in Keys : NotifyGone(k, p)
              \/ \E c \in Conns : Stall(c)
              \/ \E c \in Conns : Unstall(c)
              \/ \E c \in Conns : BreakSink(c)
NextSplit == \/ \E c \in Conns : Admit(c)
             \/ \E c \in Conns : Register(c)
             \/ \E c \in Conns, d \in Keys, cls \in Classes : Push(c, d, cls)
             \/ \E c \in Conns : Leave(c)
             \/ \E c \in Conns, g \in Modes : ReadFrame(c, g)
             \/ \E c \in Conns : TakePacket(c)
             \/ \E c \in Conns : TakeMsg(c)
             \/ \E c \in Conns : Disconnect(c)
             \/ \E k \in Keys : DisconnectKey(k)
             \/ \E c \in Conns : Unregister(c)
             \/ \E k \in Keys, p \in Keys : NotifyGone(k, p)
SpecFused  == Init /\ [][NextFused]_vars
SpecAdmin  == Init /\ [][NextAdmin]_vars
SpecRegistry == Init /\ [][NextRegistry]_vars
SpecFaults == Init /\ [][NextFaults]_vars
SpecSplit  == Init /\ [][NextSplit]_vars
LiveFused  == SpecFused /\ Fair
=============================================================================
