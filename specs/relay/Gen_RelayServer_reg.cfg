\* behaviour generator, instance "reg"; caps, Classes, Ops, MaxSteps, MaxFrames are chosen by the check
SPECIFICATION GSpec
INVARIANT Emit
CHECK_DEADLOCK FALSE
CONSTANTS
  Conns <- Reg_Conns
  KeyOf <- Reg_KeyOf
  Pre <- Reg_Pre
  NoConn = "none"
  LateCancel = FALSE
  InqCap = 1
  FixRevoke = FALSE
