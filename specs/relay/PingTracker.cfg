SPECIFICATION Spec
INVARIANT DeadOnlyByLatestUnanswered DeadlineRule TimeoutBounds Emit
PROPERTY FiresOnlyPastDeadline StalePongNoEffect OnlyLatestAnswered
CHECK_DEADLOCK FALSE
CONSTANTS
  MinT = 5
  MaxPings = 3
