--------------------------- MODULE MC_RelayDial ---------------------------
(* Model-checking constants for RelayDial that a .cfg file cannot express (sets of records).
   The .cfg files substitute `Behs <- MC_Behs`; `BehSel` selects the set. *)
EXTENDS RelayDial
CONSTANTS BehSel, UrlSel
\* minimal set for smoke runs: quick success, quick failure
MC_Behs2 == {[ok |-> TRUE, d |-> 3], [ok |-> FALSE, d |-> 4]}
\* quick tier: ... and hang (-> per-attempt timeout)
MC_Behs3 == MC_Behs2 \cup {[ok |-> FALSE, d |-> DT]}
\* ... and slow success (longer than CAD: the next attempt starts while it is in flight)
MC_Behs4 == MC_Behs3 \cup {[ok |-> TRUE, d |-> 14]}
\* ... and failure exactly when the next attempt is due (tie with the timer), success slower than two attempt delays
MC_Behs6 == MC_Behs4 \cup {[ok |-> FALSE, d |-> CAD], [ok |-> TRUE, d |-> 23]}
MC_Behs == CASE BehSel = 2 -> MC_Behs2 [] BehSel = 3 -> MC_Behs3 [] BehSel = 4 -> MC_Behs4 [] OTHER -> MC_Behs6
\* URL shapes besides the default http://<domain>:4242: default ports per scheme, an unknown scheme, literal addresses
MC_UrlsAll == {[scheme |-> "http",  port |-> 0, host |-> "domain"], [scheme |-> "ws",    port |-> 0, host |-> "domain"],
               [scheme |-> "https", port |-> 0, host |-> "domain"], [scheme |-> "wss",   port |-> 0, host |-> "domain"],
               [scheme |-> "relay", port |-> 0, host |-> "domain"], [scheme |-> "relay", port |-> 7, host |-> "domain"],
               [scheme |-> "http",  port |-> 4242, host |-> "ip4"], [scheme |-> "http",  port |-> 4242, host |-> "ip6"],
               [scheme |-> "https", port |-> 0, host |-> "ip4"]}
MC_Urls == IF UrlSel = 0 THEN {} ELSE MC_UrlsAll
=============================================================================
