SPECIFICATION Spec
INVARIANT UpgradeOnlyIfOffered UpgradeIfOffered PicksNewestOffered RefusalIsClean
INVARIANT ClientAcceptsOnlySupported ClientRejectsOthers Agreement Emit
CHECK_DEADLOCK FALSE
