\* design "snapshot" (never two locks): holds for any number of threads
SPECIFICATION SpecSnapshot
INVARIANT TypeOK LocksConsistent LocksFreeWhenIdle NeverBlocksForever ClonesAgree Emit
PROPERTY InsertIsMapInsert RemoveIsMapRemove TokenSetsAllPresent ExtendIsUnion EqChangesNothing
CHECK_DEADLOCK FALSE
CONSTANTS
  Handles = {"a", "a2", "b"}
  ObjOf <- MC_ObjOf
  Urls = {"u1", "u2"}
  Tokens = {7}
  ExtendDesign = "snapshot"
