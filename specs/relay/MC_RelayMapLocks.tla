------------------------- MODULE MC_RelayMapLocks -------------------------
(* Model constants for RelayMapLocks: three handles, `a2` is a clone of `a`, `b` is independent. *)
EXTENDS RelayMapLocks
MC_ObjOf == ("a" :> 1) @@ ("a2" :> 1) @@ ("b" :> 2)
=============================================================================
