----------------------------- MODULE RelayDial -----------------------------
(* C15 — dial_happy_eyeballs (iroh-relay/src/client/tls.rs) together with the address stream it
   consumes, DnsResolver::resolve_host_all (iroh-dns/src/dns.rs), with integer time.

   One time unit = 25 ms: RESOLUTION_DELAY = 2, CONNECTION_ATTEMPT_DELAY = 10,
   DIAL_ENDPOINT_TIMEOUT = 60, DNS_TIMEOUT = 120 (iroh-relay/src/defaults.rs).

   The environment is chosen in Init and never changes:
     look[f] = [t, ok, n]   the lookup of family f completes at time t, with n addresses if ok,
                            with an error otherwise (t = DnsT /\ ~ok: the lookup hangs and
                            DnsResolver's per-lookup timeout fires)
     beh[a]  = [ok, d]      a connect to address a = <<f, i>> completes after d; d = DT means it hangs
                            and the per-attempt timeout fires
     preferV6               the caller's family preference
     url = [scheme, port, host]
                            port 0 = no explicit port (url_port falls back to the scheme's default, and fails
                            with InvalidTargetPort for a scheme it does not know); host "ip4" / "ip6" = the URL
                            names an address literally: resolve_host_all then yields exactly that address and
                            ends, which is the same stream as a v4 (v6) lookup answering one address at once
                            and the other family answering none

   State of the code                                        variable
     resolve_host_all: v4_fut / v6_fut still pending         ~lookDone[f]
                       queue, yielded, closed                sq, yielded, closed
     dial loop:        resolve_stream_finished               streamEnd
                       queue, next_prefer_v6, started        queue, nextV6, started
                       dials (FuturesUnordered)              dials = set of [a, start]
                       next_dial_delayed_until               timer (Inf = MaybeFuture::None)
                       last_err                              lastErr
   Actions
     ResolvePort before the loop: url_port(url), InvalidTargetPort if there is none
     GiveUp      top of the loop: nothing left to resolve, attempt or wait for -> Err(last_err)
     StartDial   top of the loop: timer unset and an address queued -> pop_family, push the dial,
                 started = true, timer = now + CAD
     SelDial     select arm 1: a dial completed (Ok -> return it; Err -> remember, and if no dial is
                 left unset the timer: fail fast)
     SelAbsorb   inside resolve_stream.next(): a finished lookup is taken over into the stream's queue
                 (v4 before v6 when both are ready: the stream's select is biased)
     SelYield    select arm 2, Some(Ok(ip)): queue it; before the first dial a preferred-family address
                 unsets the timer, another one arms it with RD unless it is armed
     SelStreamErr select arm 2, Some(Err(e)): both lookups failed, or nothing was yielded
     SelStreamEnd select arm 2, None: resolve_stream_finished; before the first dial unset the timer
     SelTimer    select arm 3: the timer fired (MaybeFuture resets itself to None)
     Tick        nothing is ready: virtual time jumps to the next instant at which something is
   The select is `biased`: with Biased = TRUE an arm is only taken when no earlier arm is ready (the
   code as written); with Biased = FALSE any ready arm may be taken — the properties must hold for
   both, so that they do not depend on the order of the arms; the conformance run accepts, for an
   environment in which several things happen at the same instant, any outcome the Biased = FALSE
   model allows, and exactly the single outcome otherwise. *)
EXTENDS Naturals, Sequences, FiniteSets, TLC, Json
CONSTANTS RD, CAD, DT, DnsT,   \* RESOLUTION_DELAY, CONNECTION_ATTEMPT_DELAY, DIAL_ENDPOINT_TIMEOUT, DNS_TIMEOUT
          Times,               \* completion times of lookups
          MaxAddrs,            \* addresses per family
          Behs,                \* connect behaviours [ok, d]
          Urls,                \* additional URL shapes [scheme, port, host]: DefaultUrl is combined with every
                               \* environment, each of these with one simple environment
          Biased,              \* TRUE: arm priorities as in the code
          FixedToggle          \* TRUE: the code (pop_family flips next_is_v6 on every pop)
V4 == "v4"  V6 == "v6"
Inf == 9999
NoAddr == <<"-", 0>>
VARIABLES now, preferV6, look, beh, url,
          port,         \* 0 until url_port ran
          lookDone, sq, yielded, closed,
          streamEnd, queue, nextV6, dials, started, timer, lastErr, result,
          attempts,     \* ghost: <<[a, t, both, p]>> — address, start instant, were both families queued when it was popped, port
          firstYield,   \* ghost: instant of the first address the stream yielded
          doneAt        \* ghost: instant at which the function returned
vars == <<now, preferV6, look, beh, url, port, lookDone, sq, yielded, closed, streamEnd, queue, nextV6, dials, started, timer,
          lastErr, result, attempts, firstYield, doneAt>>
env == <<preferV6, look, beh, url>>
Fams == {V4, V6}
Addrs == {<<f, i>> : f \in Fams, i \in 1..MaxAddrs}
IsV6(a) == a[1] = V6
Hangs(a) == beh[a].d >= DT
Succeeds(a) == beh[a].ok /\ ~Hangs(a)

ResolvedOf(l) == {a \in Addrs : l[a[1]].ok /\ a[2] <= l[a[1]].n}
DefaultBeh == CHOOSE b \in Behs : TRUE
\* a lookup either answers (n addresses) at one of Times, fails at one of Times, or hangs until DnsResolver's timeout
LookChoices == [t : Times, ok : {TRUE}, n : 0..MaxAddrs] \cup [t : Times \cup {DnsT}, ok : {FALSE}, n : {0}]
DefaultUrl == [scheme |-> "http", port |-> 4242, host |-> "domain"]
\* what the address stream of a literal-address URL is equivalent to
LiteralLook(h) == [f \in Fams |-> [t |-> 0, ok |-> TRUE, n |-> IF (h = "ip4" /\ f = V4) \/ (h = "ip6" /\ f = V6) THEN 1 ELSE 0]]
SimpleLook == [f \in Fams |-> [t |-> 0, ok |-> TRUE, n |-> 1]]
Init == /\ now = 0 /\ preferV6 \in BOOLEAN /\ port = 0
        /\ url \in Urls \cup {DefaultUrl}
        /\ look \in [Fams -> LookChoices]
        /\ url.host # "domain" => look = LiteralLook(url.host)
        /\ (url.host = "domain" /\ url # DefaultUrl) => look = SimpleLook
        \* only the behaviour of resolved addresses matters: the others get a fixed one
        /\ \E b \in [ResolvedOf(look) -> Behs] : beh = [a \in Addrs |-> IF a \in DOMAIN b THEN b[a] ELSE DefaultBeh]
        /\ url # DefaultUrl => \A a \in ResolvedOf(look) : beh[a] = (CHOOSE b \in Behs : b.ok /\ b.d < DT)
        /\ lookDone = [f \in Fams |-> FALSE] /\ sq = <<>> /\ yielded = FALSE /\ closed = FALSE /\ streamEnd = FALSE
        /\ queue = <<>> /\ nextV6 = preferV6 /\ dials = {} /\ started = FALSE /\ timer = Inf
        /\ lastErr = "none" /\ result = [st |-> "none", a |-> NoAddr, err |-> "none"] /\ attempts = <<>>
        /\ firstYield = Inf /\ doneAt = Inf

---------------------------------------------------------------------------
(* readiness at the instant `now` *)
LookReady(f) == ~lookDone[f] /\ look[f].t <= now
StreamReady == ~streamEnd /\ (sq # <<>> \/ LookReady(V4) \/ LookReady(V6) \/ (lookDone[V4] /\ lookDone[V6]))
DoneAt(d) == d.start + (IF Hangs(d.a) THEN DT ELSE beh[d.a].d)
DialReady == \E d \in dials : DoneAt(d) <= now
TimerReady == timer <= now

Running  == result.st = "none" /\ port # 0
\* url_port: explicit port, else the scheme's default
UrlPort == IF url.port # 0 THEN url.port
           ELSE IF url.scheme \in {"http", "ws"} THEN 80
           ELSE IF url.scheme \in {"https", "wss"} THEN 443
           ELSE 0
CanGiveUp == streamEnd /\ queue = <<>> /\ dials = {}
CanStart == timer = Inf /\ queue # <<>>
InSelect == Running /\ ~CanGiveUp /\ ~CanStart
\* arm guards: under `biased` an arm runs only if no earlier arm is ready
Arm1 == InSelect /\ DialReady
Arm2 == InSelect /\ StreamReady /\ (Biased => ~DialReady)
Arm3 == InSelect /\ TimerReady /\ (Biased => ~DialReady /\ ~StreamReady)

\* pop_family: first queued address of the wanted family, else the head
PopIdx == IF \E i \in 1..Len(queue) : IsV6(queue[i]) = nextV6
          THEN CHOOSE i \in 1..Len(queue) : IsV6(queue[i]) = nextV6 /\ \A j \in 1..(i-1) : IsV6(queue[j]) # nextV6
          ELSE 1
Remove(s, i) == SubSeq(s, 1, i-1) \o SubSeq(s, i+1, Len(s))
BothQueued == (\E i \in 1..Len(queue) : IsV6(queue[i])) /\ (\E i \in 1..Len(queue) : ~IsV6(queue[i]))

ResolvePort == /\ result.st = "none" /\ port = 0
               /\ IF UrlPort = 0
                     THEN /\ result' = [st |-> "err", a |-> NoAddr, err |-> "port"] /\ doneAt' = now /\ UNCHANGED port
                     ELSE /\ port' = UrlPort /\ UNCHANGED <<result, doneAt>>
               /\ UNCHANGED <<now, env, lookDone, sq, yielded, closed, streamEnd, queue, nextV6, dials, started, timer, lastErr,
                              attempts, firstYield>>

GiveUp == /\ Running /\ CanGiveUp
          /\ result' = [st |-> "err", a |-> NoAddr, err |-> IF lastErr = "none" THEN "dns" ELSE lastErr]
          /\ doneAt' = now
          /\ UNCHANGED <<now, env, port, lookDone, sq, yielded, closed, streamEnd, queue, nextV6, dials, started, timer, lastErr,
                         attempts, firstYield>>

StartDial == /\ Running /\ ~CanGiveUp /\ CanStart
             /\ LET i == PopIdx  a == queue[i] IN
                /\ queue' = Remove(queue, i)
                /\ nextV6' = IF FixedToggle THEN ~nextV6 ELSE nextV6
                /\ dials' = dials \cup {[a |-> a, start |-> now]}
                /\ attempts' = Append(attempts, [a |-> a, t |-> now, both |-> BothQueued, p |-> port])
             /\ started' = TRUE /\ timer' = now + CAD
             /\ UNCHANGED <<now, env, port, lookDone, sq, yielded, closed, streamEnd, lastErr, result, firstYield, doneAt>>

SelDial == /\ Arm1
           /\ \E d \in dials :
                /\ DoneAt(d) <= now
                /\ \A e \in dials : DoneAt(e) >= DoneAt(d)          \* FuturesUnordered yields in completion order
                /\ dials' = dials \ {d}
                /\ IF Succeeds(d.a)
                      THEN /\ result' = [st |-> "ok", a |-> d.a, err |-> "none"] /\ doneAt' = now
                           /\ UNCHANGED <<lastErr, timer>>
                      ELSE /\ lastErr' = IF Hangs(d.a) THEN "timeout" ELSE "io"
                           /\ timer' = IF dials' = {} THEN Inf ELSE timer
                           /\ UNCHANGED <<result, doneAt>>
           /\ UNCHANGED <<now, env, port, lookDone, sq, yielded, closed, streamEnd, queue, nextV6, started, attempts, firstYield>>

SelAbsorb == /\ Arm2 /\ ~closed /\ sq = <<>> /\ (LookReady(V4) \/ LookReady(V6))
             /\ LET f == IF LookReady(V4) THEN V4 ELSE V6 IN
                /\ lookDone' = [lookDone EXCEPT ![f] = TRUE]
                /\ sq' = IF look[f].ok THEN [i \in 1..look[f].n |-> <<f, i>>] ELSE <<>>
             /\ UNCHANGED <<now, env, port, yielded, closed, streamEnd, queue, nextV6, dials, started, timer, lastErr, result,
                            attempts, firstYield, doneAt>>

SelYield == /\ Arm2 /\ ~closed /\ sq # <<>>
            /\ LET ip == Head(sq) IN
               /\ sq' = Tail(sq) /\ yielded' = TRUE /\ queue' = Append(queue, ip)
               /\ firstYield' = IF firstYield = Inf THEN now ELSE firstYield
               /\ timer' = IF started THEN timer
                           ELSE IF preferV6 = IsV6(ip) THEN Inf
                           ELSE IF timer = Inf THEN now + RD ELSE timer
            /\ UNCHANGED <<now, env, port, lookDone, closed, streamEnd, nextV6, dials, started, lastErr, result, attempts, doneAt>>

BothLookupsDone == lookDone[V4] /\ lookDone[V6]
StreamErrs == (~look[V4].ok /\ ~look[V6].ok) \/ ~yielded
SelStreamErr == /\ Arm2 /\ ~closed /\ sq = <<>> /\ BothLookupsDone /\ StreamErrs
                /\ closed' = TRUE /\ lastErr' = "dns"
                /\ UNCHANGED <<now, env, port, lookDone, sq, yielded, streamEnd, queue, nextV6, dials, started, timer, result,
                               attempts, firstYield, doneAt>>

SelStreamEnd == /\ Arm2 /\ sq = <<>> /\ BothLookupsDone /\ (closed \/ ~StreamErrs)
                /\ closed' = TRUE /\ streamEnd' = TRUE
                /\ timer' = IF ~started THEN Inf ELSE timer
                /\ UNCHANGED <<now, env, port, lookDone, sq, yielded, queue, nextV6, dials, started, lastErr, result, attempts,
                               firstYield, doneAt>>

SelTimer == /\ Arm3
            /\ timer' = Inf
            /\ UNCHANGED <<now, env, port, lookDone, sq, yielded, closed, streamEnd, queue, nextV6, dials, started, lastErr, result,
                           attempts, firstYield, doneAt>>

NextInstants == {DoneAt(d) : d \in dials} \cup {look[f].t : f \in {g \in Fams : ~lookDone[g]}}
                \cup (IF timer = Inf THEN {} ELSE {timer})
Tick == /\ InSelect /\ ~DialReady /\ ~StreamReady /\ ~TimerReady
        /\ NextInstants # {}
        /\ now' = CHOOSE t \in NextInstants : \A u \in NextInstants : t <= u
        /\ UNCHANGED <<env, port, lookDone, sq, yielded, closed, streamEnd, queue, nextV6, dials, started, timer, lastErr, result,
                       attempts, firstYield, doneAt>>

Next == ResolvePort \/ GiveUp \/ StartDial \/ SelDial \/ SelAbsorb \/ SelYield \/ SelStreamErr \/ SelStreamEnd \/ SelTimer \/ Tick
Spec == Init /\ [][Next]_vars
FairSpec == Spec /\ WF_vars(Next)

---------------------------------------------------------------------------
(* C15 *)
Resolved == ResolvedOf(look)
Attempted == {attempts[i].a : i \in 1..Len(attempts)}
PrefFam == IF preferV6 THEN V6 ELSE V4

\* never stuck before a result: dialing always terminates (every behaviour is finite: see Termination)
NoWedge == result.st = "none" => ENABLED Next
\* fails only after resolution has finished and every attempt has failed — and every resolved address was attempted
FailOnlyWhenExhausted == result.st = "err" /\ result.err # "port" => /\ streamEnd /\ dials = {} /\ queue = <<>>
                                              /\ Attempted = Resolved
                                              /\ \A a \in Resolved : ~Succeeds(a)
\* every resolved address is attempted unless a connection has already succeeded (at the end: all of them, or success)
AllTriedUnlessSuccess == result.st # "none" => (result.st = "ok" \/ Attempted = Resolved \/ result.err = "port")
\* a success is a real one, it is the first in completion order, and it is returned the instant it completes
SuccessIsFirst == result.st = "ok" =>
                    /\ Succeeds(result.a) /\ result.a \in Attempted
                    /\ \E i \in 1..Len(attempts) : /\ attempts[i].a = result.a
                                                   /\ doneAt = attempts[i].t + beh[result.a].d
                                                   /\ \A j \in 1..Len(attempts) :
                                                        Succeeds(attempts[j].a) => attempts[j].t + beh[attempts[j].a].d >= doneAt
\* the first attempt uses the preferred family whenever such an address resolved within RD of the first yield
PreferredFirst == (Len(attempts) >= 1 /\ look[PrefFam].ok /\ look[PrefFam].n > 0 /\ look[PrefFam].t < firstYield + RD)
                     => attempts[1].a[1] = PrefFam
\* ... and the head start is bounded: the first attempt starts no later than RD after the first yield
FirstAttemptPrompt == Len(attempts) >= 1 => attempts[1].t <= firstYield + RD
\* later attempts alternate families while both have untried addresses (weak reading: both attempts of the pair were
\* started while addresses of both families were queued)
Alternates == \A i \in 1..(Len(attempts) - 1) :
                 attempts[i].both /\ attempts[i+1].both => attempts[i].a[1] # attempts[i+1].a[1]
\* strict reading (refuted by TLC for the code's toggle: a fallback pop also flips the wanted family)
AlternatesStrict == \A i \in 1..(Len(attempts) - 1) : attempts[i+1].both => attempts[i].a[1] # attempts[i+1].a[1]
\* attempts are paced: never more than one new attempt per CAD unless the previous ones have all failed
Paced == \A i \in 1..(Len(attempts) - 1) :
            \/ attempts[i+1].t >= attempts[i].t + CAD
            \/ \A j \in 1..i : ~Succeeds(attempts[j].a) /\ attempts[j].t + (IF Hangs(attempts[j].a) THEN DT ELSE beh[attempts[j].a].d) <= attempts[i+1].t
\* every attempt goes to the URL's port (explicit, or the scheme's default); no port, no attempt
RightPort == /\ \A i \in 1..Len(attempts) : attempts[i].p = UrlPort /\ UrlPort # 0
             /\ (result.st = "err" /\ result.err = "port") <=> (UrlPort = 0 /\ result.st # "none")
\* no address is attempted twice
NoDuplicateAttempts == \A i, j \in 1..Len(attempts) : i # j => attempts[i].a # attempts[j].a
\* dialing ends
Termination == <>(result.st # "none")

Terminal == result.st # "none"
Emit == Terminal => PrintT(<<"REPLAY", ToJson([pref6 |-> preferV6, url |-> url, v4 |-> look[V4], v6 |-> look[V6],
                                               beh |-> {[f |-> a[1], i |-> a[2], ok |-> beh[a].ok, d |-> beh[a].d] : a \in Resolved},
                                               attempts |-> attempts, result |-> result, doneAt |-> doneAt])>>)
=============================================================================
