---------------------------- MODULE CaptivePortal ----------------------------
(* C13 — the relay's captive-portal probe (iroh-relay/src/server.rs).

   Code modelled
     Server::spawn                 two deployments of the same handler:
                                   "portal": relay served over TLS, the probe has its own
                                             plain-HTTP listener (run_captive_portal_service /
                                             CaptivePortalService::call);
                                   "relay" : relay served without TLS, the probe is a request
                                             handler of the relay HTTP server
                                             (RelayServiceWithNotify::call -> handlers).
     serve_no_content_handler      204, plus `X-Iroh-Response: response <challenge>` iff the
                                   first `X-Iroh-Challenge` header passes `check`.
     is_challenge_char             ASCII letters, digits, '.', '-', '_'.

   A request is an abstract case: listener, method, path, how the challenge header occurs
   (absent / once / twice / other spelling of the name) and the challenge bytes described by
   character *classes*: `len` bytes of the good class `fill` with at most one byte of class
   `bad` at position `pos`.  The check module turns classes into concrete bytes.

   One action per stage of the request's way through the server:
     Parse    HTTP/1.1 request head parsing (hyper/httparse): bytes that are not allowed in a
              field value abort with 400; the field value is the raw value without leading
              and trailing optional whitespace (RFC 9110 §5.5) — that value *is* the challenge.
     Route    (method, path) dispatch of the listener: only GET /generate_204 reaches the
              handler, everything else is 404.
     Handle   serve_no_content_handler.
   One initial state per case, so TLC enumerates the decision table; `Emit` prints the
   expected response of every case for the conformance run (harness vh_relaynet c13). *)
EXTENDS Naturals, Sequences, FiniteSets, TLC, Json

CONSTANTS Lens,        \* challenge lengths on the wire (bytes between "Name:" OWS and CRLF, before trimming)
          Fills,       \* subset of GoodClasses \cup {"mixed"}
          Bads,        \* subset of BadClasses \cup CtlClasses (the one deviating byte, if any)
          Listeners,   \* subset of {"portal", "relay"}
          Limit        \* 64: `c.len() < 64`

GoodClasses == {"lower", "upper", "digit", "dot", "dash", "underscore"}
\* allowed in a field value but not a challenge character; the named single characters are the
\* ASCII neighbours of the good ranges ('@' 'A'..'Z' '[', '`' 'a'..'z' '{', '/' '0'..'9' ':', ',' '-' '.' '/')
BadClasses  == {"space", "tab", "at", "lbracket", "backtick", "lbrace", "slash", "colon", "comma", "plus",
                "tilde", "bang", "high80", "highff",
                "punct",      \* any other printable ASCII character that is not a challenge character
                "high"}       \* any byte 0x81..0xFE
CtlClasses  == {"ctl01", "del7f"}          \* not allowed in a field value at all
Ows         == {"space", "tab"}
MixedSeq    == <<"lower", "digit", "upper", "dot", "dash", "underscore">>

VARIABLES req,      \* the abstract case (constant during a behaviour)
          raw,      \* its challenge bytes as a sequence of classes
          stage, value, present, resp
vars == <<req, raw, stage, value, present, resp>>

NoResp == [status |-> 0, echo |-> FALSE, from |-> 0, to |-> 0]

---------------------------------------------------------------------------
(* the challenge bytes of a case, as a sequence of classes *)
BadIdx(c) == CASE c.pos = "first" -> 1
               [] c.pos = "mid"   -> (c.len + 1) \div 2
               [] c.pos = "last"  -> c.len
               [] OTHER           -> 0
FillAt(f, i) == IF f = "mixed" THEN MixedSeq[(i % 6) + 1] ELSE f
Raw(c) == [i \in 1..c.len |-> IF c.bad # "none" /\ i = BadIdx(c) THEN c.bad ELSE FillAt(c.fill, i)]

\* positions of the field value inside the raw bytes after trimming optional whitespace
RECURSIVE FirstNonOws(_, _), LastNonOws(_, _)
FirstNonOws(s, i) == IF i > Len(s) \/ s[i] \notin Ows THEN i ELSE FirstNonOws(s, i + 1)
LastNonOws(s, i)  == IF i = 0 \/ s[i] \notin Ows THEN i ELSE LastNonOws(s, i - 1)
From(s) == FirstNonOws(s, 1)          \* Len(s) + 1 when everything is whitespace
To(s)   == LastNonOws(s, Len(s))      \* 0 when everything is whitespace
Trim(s) == SubSeq(s, From(s), To(s))

\* server.rs: is_challenge_char / the `check` closure of serve_no_content_handler
IsChallengeChar(k) == k \in {"lower", "upper", "digit"} \/ k = "dot" \/ k = "dash" \/ k = "underscore"
Check(v) == Len(v) # 0 /\ Len(v) < Limit /\ \A i \in 1..Len(v) : IsChallengeChar(v[i])

---------------------------------------------------------------------------
(* the cases *)
PosOk(c) == IF c.bad = "none" THEN c.pos = "none"
            ELSE \/ c.pos = "first" /\ c.len >= 1
                 \/ c.pos = "last"  /\ c.len >= 2
                 \/ c.pos = "mid"   /\ c.len >= 3
ChallengeCases ==
  {c \in [listener : Listeners, method : {"GET"}, path : {"/generate_204"}, hdr : {"once"},
          len : Lens, fill : Fills, bad : Bads \cup {"none"}, pos : {"none", "first", "mid", "last"}] : PosOk(c)}
\* routing and header-occurrence variants, each with a well-formed, an over-long and a malformed challenge
Shapes == {[len |-> 8, fill |-> "mixed", bad |-> "none", pos |-> "none"],
           [len |-> Limit, fill |-> "mixed", bad |-> "none", pos |-> "none"],
           [len |-> 8, fill |-> "mixed", bad |-> "slash", pos |-> "mid"]}
VariantCases ==
  {[listener |-> l, method |-> m, path |-> p, hdr |-> h, len |-> s.len, fill |-> s.fill, bad |-> s.bad, pos |-> s.pos] :
      l \in Listeners, m \in {"GET", "POST", "HEAD"}, p \in {"/generate_204", "/generate_204/", "/nope"},
      h \in {"once", "absent", "twice", "lowername", "uppername"}, s \in Shapes}
Cases == ChallengeCases \cup VariantCases

Init == /\ req \in Cases /\ raw = Raw(req) /\ stage = "parse" /\ value = <<>> /\ present = FALSE /\ resp = NoResp

\* hyper's request-head parser: control bytes end the exchange with 400 before any routing
Parse == /\ stage = "parse"
         /\ IF req.hdr # "absent" /\ \E i \in 1..Len(raw) : raw[i] \in CtlClasses
               THEN /\ resp' = [NoResp EXCEPT !.status = 400] /\ stage' = "done" /\ UNCHANGED <<value, present>>
               ELSE /\ present' = (req.hdr # "absent")
                    \* `headers().get(name)`: the first value; header names are case-insensitive
                    /\ value' = IF req.hdr = "absent" THEN <<>> ELSE Trim(raw)
                    /\ stage' = "route" /\ UNCHANGED resp
         /\ UNCHANGED <<req, raw>>

\* CaptivePortalService::call / RelayServiceWithNotify::call: exact (method, path) match
Route == /\ stage = "route"
         /\ IF req.method = "GET" /\ req.path = "/generate_204"
               THEN stage' = "handle" /\ UNCHANGED resp
               ELSE stage' = "done" /\ resp' = [NoResp EXCEPT !.status = 404]
         /\ UNCHANGED <<req, raw, value, present>>

\* serve_no_content_handler
Handle == /\ stage = "handle"
          /\ resp' = IF present /\ Check(value)
                        THEN [status |-> 204, echo |-> TRUE, from |-> From(raw), to |-> To(raw)]
                        ELSE [NoResp EXCEPT !.status = 204]
          /\ stage' = "done" /\ UNCHANGED <<req, raw, value, present>>

Next == Parse \/ Route \/ Handle
Spec == Init /\ [][Next]_vars

---------------------------------------------------------------------------
(* C13 *)
Done == stage = "done"
Probed == req.method = "GET" /\ req.path = "/generate_204"
WellFormed(v) == /\ Len(v) \in 1..63
                 /\ \A i \in 1..Len(v) : v[i] \in GoodClasses
Challenge == IF req.hdr = "absent" THEN <<>> ELSE Trim(raw)
HasCtl == req.hdr # "absent" /\ \E i \in 1..Len(raw) : raw[i] \in CtlClasses

\* the probe answers 204 ...
ProbeAnswers204 == Done /\ Probed /\ ~HasCtl => resp.status = 204
\* ... and echoes exactly the well-formed challenges
EchoIffWellFormed == Done => (resp.echo <=> (Probed /\ req.hdr # "absent" /\ ~HasCtl /\ WellFormed(Challenge)))
\* what is echoed is the challenge itself
EchoIsChallenge == Done /\ resp.echo => SubSeq(raw, resp.from, resp.to) = Challenge /\ resp.status = 204
\* nothing but the probe echoes
OnlyProbeEchoes == Done /\ ~Probed => ~resp.echo /\ resp.status = 404

Emit == Done => PrintT(<<"REPLAY", ToJson([req |-> req, raw |-> raw, exp |-> resp])>>)
=============================================================================
