\* anti-vacuity: with GuardLate = TRUE (guard constructed after the confirmation write) TLC must refute ExactlyOnceAtEnd
SPECIFICATION Spec
VIEW View
INVARIANT ExactlyOnceAtEnd
CHECK_DEADLOCK FALSE
CONSTANTS
  Keys = {"A", "B"}
  KeyOf <- MC_KeyOf
  Causes = {"close", "disc_id", "disc_key", "shutdown", "displaced", "pong_timeout"}
  QuiescentEnv = FALSE
  Helper = TRUE
