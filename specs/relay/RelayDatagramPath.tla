-------------------------- MODULE RelayDatagramPath --------------------------
(* Growth beyond C10 / C16: one datagram batch travelling the whole relayed path,

     sending client:  Conn::start_send (size / emptiness check)  ->  ClientToRelayMsg::write_to
     relay:           ClientToRelayMsg::from_bytes  ->  forwards the same Datagrams as
                      RelayToClientMsg::Datagrams through RelayedStream::start_send -> write_to
     receiving client: RelayToClientMsg::from_bytes  ->  Datagrams::take_segments(n) until empty
                      (iroh's relay transport hands the pieces to the QUIC receive buffers)

   composing the frame-length model of RelayFrames.tla with the batch model of RelayWire.tla (the
   operators are repeated here because both modules declare their own variables).
   A batch is [len, seg, ecn] with seg = 0 for "no segment size"; its meaning is the sequence of its
   datagram lengths Segs(b).  origin = "client" goes through the sending client's sink; origin =
   "raw" is a peer that writes the frame itself (no sink check).

   Properties: what the sending client's sink accepts arrives, as exactly the same datagrams, with
   the same ECN marking (EndToEnd, HonestNeverDropped); nothing else is ever delivered (OnlySent).
   Stated non-property (C05, owned by RelayServer.tla): RawNeverDropped — a raw frame the relay's
   decoder accepts can be refused by the relay's own forwarding sink (empty contents, or contents
   one or two bytes beyond what a sink accepts). *)
EXTENDS Naturals, Sequences, FiniteSets, TLC, Json
CONSTANTS MAX, Lens, SegSizes, Takes
VARIABLES origin, batch, n, pc, inflight, rest, pieces
vars == <<origin, batch, n, pc, inflight, rest, pieces>>

KEY == 32
Min(a, b) == IF a < b THEN a ELSE b
Batch(l, s, e) == [len |-> l, seg |-> s, ecn |-> e]
NumSegs(b) == IF b.len = 0 THEN 0 ELSE IF b.seg = 0 THEN 1 ELSE (b.len + b.seg - 1) \div b.seg
Segs(b) == [i \in 1..NumSegs(b) |-> IF b.seg = 0 THEN b.len
                                    ELSE IF i * b.seg <= b.len THEN b.seg ELSE b.len - (i - 1) * b.seg]
\* 1 tag byte + key + ecn byte (+ 2 bytes segment size) + contents: the same for both frame directions
EncodedLen(b) == 1 + KEY + 1 + (IF b.seg # 0 THEN 2 ELSE 0) + b.len
SinkAccepts(b) == EncodedLen(b) <= MAX /\ b.len > 0
DecoderAccepts(b) == EncodedLen(b) - 1 <= MAX
TakeSegments(b, k) ==
  IF b.seg = 0 THEN [piece |-> Batch(b.len, 0, b.ecn), rest |-> Batch(0, 0, b.ecn)]
  ELSE LET taken == Min(k * b.seg, b.len)
           left  == b.len - taken
       IN [piece |-> Batch(taken, IF k > 1 /\ b.seg < taken THEN b.seg ELSE 0, b.ecn),
           rest  |-> Batch(left, IF left <= b.seg THEN 0 ELSE b.seg, b.ecn)]

Empty == Batch(0, 0, 0)
Init == /\ origin \in {"client", "raw"}
        /\ batch \in {Batch(l, s, e) : l \in Lens, s \in SegSizes, e \in {0, 3}}
        /\ n \in Takes
        /\ pc = (IF origin = "client" THEN "client_sink" ELSE "c2r_wire")
        /\ inflight = batch /\ rest = Empty /\ pieces = <<>>

Stay == UNCHANGED <<origin, batch, n, inflight, rest, pieces>>
ClientSinkAccept == pc = "client_sink" /\ SinkAccepts(inflight) /\ pc' = "c2r_wire" /\ Stay
ClientSinkReject == pc = "client_sink" /\ ~SinkAccepts(inflight) /\ pc' = "refused_by_sender" /\ Stay
RelayDecodeOk == pc = "c2r_wire" /\ DecoderAccepts(inflight) /\ pc' = "relay_sink" /\ Stay
RelayDecodeErr == pc = "c2r_wire" /\ ~DecoderAccepts(inflight) /\ pc' = "rejected_by_relay" /\ Stay
RelaySinkAccept == pc = "relay_sink" /\ SinkAccepts(inflight) /\ pc' = "r2c_wire" /\ Stay
RelaySinkReject == pc = "relay_sink" /\ ~SinkAccepts(inflight) /\ pc' = "dropped_at_relay" /\ Stay
ClientDecodeOk == /\ pc = "r2c_wire" /\ DecoderAccepts(inflight) /\ pc' = "taking"
                  /\ rest' = inflight /\ UNCHANGED <<origin, batch, n, inflight, pieces>>
ClientDecodeErr == pc = "r2c_wire" /\ ~DecoderAccepts(inflight) /\ pc' = "rejected_by_receiver" /\ Stay
Take == /\ pc = "taking"
        /\ LET r == TakeSegments(rest, n) IN
           /\ rest' = r.rest
           /\ pieces' = Append(pieces, [len |-> r.piece.len, seg |-> r.piece.seg, ecn |-> r.piece.ecn])
           /\ pc' = (IF r.rest.len = 0 THEN "delivered" ELSE "taking")
        /\ UNCHANGED <<origin, batch, n, inflight>>
\* ClientDecodeErr is left out of Next on purpose: it is never enabled (ReceiverDecodesWhatRelaySends below is the
\* reason), and an action that can never fire would only blur TLC's coverage report.
Next == ClientSinkAccept \/ ClientSinkReject \/ RelayDecodeOk \/ RelayDecodeErr \/ RelaySinkAccept \/ RelaySinkReject
        \/ ClientDecodeOk \/ Take
Spec == Init /\ [][Next]_vars

---------------------------------------------------------------------------
RECURSIVE Concat(_)
Concat(ss) == IF ss = <<>> THEN <<>> ELSE Head(ss) \o Concat(Tail(ss))
Delivered == Concat([i \in 1..Len(pieces) |-> Segs(pieces[i])])
Terminal == pc \in {"delivered", "refused_by_sender", "rejected_by_relay", "dropped_at_relay", "rejected_by_receiver"}
\* the datagrams handed to the receiver are exactly the datagrams of the batch, in order, with its ECN marking
EndToEnd == pc = "delivered" => /\ Delivered = Segs(batch)
                                /\ \A i \in 1..Len(pieces) : pieces[i].ecn = batch.ecn /\ NumSegs(pieces[i]) <= n
\* while taking, nothing is lost or invented either
OnlySent == pc = "taking" => Delivered \o Segs(rest) = Segs(batch)
\* whatever the sending client's sink accepted is delivered: no later stage refuses it
HonestNeverDropped == (origin = "client" /\ Terminal) => pc \in {"delivered", "refused_by_sender"}
\* the sender's sink refuses exactly the empty and the oversized batches
RefusedOnlyIfUnsendable == pc = "refused_by_sender" => batch.len = 0 \/ EncodedLen(batch) > MAX
\* whatever the relay's sink lets through, the receiving client's decoder accepts
ReceiverDecodesWhatRelaySends == pc = "r2c_wire" => DecoderAccepts(inflight)
\* NOT an invariant (C05): a raw frame that the relay decoded is forwarded
RawNeverDropped == pc # "dropped_at_relay"

Emit == Terminal => PrintT(<<"REPLAY", ToJson([origin |-> origin, len |-> batch.len, seg |-> batch.seg, ecn |-> batch.ecn,
                                                n |-> n, fate |-> pc, pieces |-> pieces])>>)
=============================================================================
