\* scenario generator: one connection, every fault point x decision x cause
SPECIFICATION Spec
INVARIANT OnConnectOnce AtMostOneDisconnect DisconnectOnlyAfterAllow GuardConservation DeniedNeverRegistered
INVARIANT RegistryOnlyLive IdsDistinct ExactlyOnceAtEnd Emit
CHECK_DEADLOCK FALSE
CONSTANTS
  Conns = {"c1"}
  Keys = {"A", "B"}
  KeyOf <- MC_KeyOf
  Script = "full"
  Causes = {"close", "disc_id", "disc_key", "shutdown", "displaced", "pong_timeout"}
  QuiescentEnv = TRUE
  Paths = {"km", "challenge"}
  Proofs = {TRUE, FALSE}
  Helper = TRUE
  GuardLate = FALSE
  Panics = TRUE
  SilentUnwind = FALSE
