SPECIFICATION Spec
INVARIANT TypeOK PartitionsExactly AtMostN SegSizeOnlyIfMultiple RestSegSizeOnlyIfMultiple EcnKept Emit
PROPERTY Progress
CHECK_DEADLOCK FALSE
