------------------------ MODULE Trace_RelayServer ------------------------
(* Trace validation of RelayServer against event logs of the real relay registry driven by a seeded
   random workload on a multi-thread runtime (harness/src/bin/vh_relayreg.rs, `random`; mode B).

   Events (one JSON object per line, fields ev, c, k, cls, id, t, src, ret; "none"/0 when unused),
   each logged at its linearization point, under the mutex of the in-memory stream it concerns:
     reset                a new run starts: everything back to Init
     push   c k cls id    the client of c wrote a frame of class cls (datagrams: to key k) into its stream
     eof    c             the client of c closed its stream
     stall / unstall c    the client of c stopped / resumed reading
     call   op c|k        the driver is about to call Clients::register / disconnect(key, Some(id)) /
                          disconnect(key, None); the call takes effect at some point before `ret`
     ret    ret           the call returned (`true` / `false` for disconnect, `na` for register)
     read   c t           the actor of c took the next frame (t = "frame") or the end of the stream
                          (t = "eof") out of its stream; what it does with it follows as a hidden step
                          (or as the recv of the pong) before the actor does anything else
     recv   c t src id cls   the sink of c accepted a relay -> client frame (datagram: sender id, frame
                          id and class recovered by comparing the bytes with what was pushed)
     drop   c             the relay dropped its half of c's stream (the actor task ended)
   Everything else the relay does on its own is a hidden step: handling the frame read, the queue takes (here split into
   "take into hold" and "write", because a freed queue slot can be refilled before the write is
   logged), flushes, Unregister, NotifyGone, and the point at which a pending call takes effect.
   A hidden step never changes `wire`; a recv event is exactly one write.

   The trace is accepted iff some interleaving of hidden steps explains every event (POSTCONDITION
   Accepted; register 1 holds the furthest event index reached).  All property invariants of
   RelayServer are evaluated on every state of every explaining run. *)
EXTENDS RelayServer, Json, IOUtils, TLCExt
Rec == ndJsonDeserialize(IOEnv.TRACE)
VARIABLES l,        \* index of the next event
          pend,     \* the driver call in progress
          dropped,  \* connections whose stream half was dropped
          cur       \* [Conns -> frame]: the frame an actor has taken from its stream and is handling
tvars == <<vars, l, pend, dropped, cur>>
NoFrame == Frame("none", "none", "none", 0)
Trace_Conns == {"a1", "a2", "a3", "b1", "b2"}
Trace_KeyOf == [c \in Trace_Conns |-> IF c \in {"b1", "b2"} THEN "B" ELSE "A"]
NoPend == [op |-> "none", c |-> "none", k |-> "none", ret |-> "none"]
E == Rec[l]
IsEvent(e) == l <= Len(Rec) /\ Rec[l].ev = e /\ l' = l + 1
Hidden == l <= Len(Rec) /\ UNCHANGED <<l, dropped>> /\ wire' = wire
InSelect(c) == cur[c] = NoFrame

TInit == Init /\ l = 1 /\ pend = NoPend /\ dropped = {} /\ cur = [c \in Conns |-> NoFrame] /\ TLCSet(1, 1)

TReset == /\ IsEvent("reset") /\ pend' = NoPend /\ dropped' = {} /\ cur' = [c \in Conns |-> NoFrame]
          /\ cstate' = [c \in Conns |-> "new"] /\ regSeq' = [c \in Conns |-> 0] /\ nextSeq' = 1
          /\ active' = [k \in Keys |-> NoConn] /\ inactive' = [k \in Keys |-> <<>>]
          /\ inq' = [c \in Conns |-> <<>>] /\ pktq' = [c \in Conns |-> <<>>] /\ msgq' = [c \in Conns |-> <<>>]
          /\ hold' = [c \in Conns |-> NoItem] /\ wire' = [c \in Conns |-> <<>>]
          /\ stalled' = {} /\ broken' = {} /\ sentTo' = [k \in Keys |-> {}] /\ pendGone' = {} /\ revoked' = {}
          /\ nextId' = 1 /\ sent' = <<>> /\ killedBy' = [c \in Conns |-> NoCause]

\* ---- environment events
TPush == /\ IsEvent("push") /\ E.id = nextId /\ UNCHANGED <<pend, dropped, cur>>
         /\ sent' = Append(sent, [from |-> E.c, dst |-> E.k, cls |-> E.cls]) /\ nextId' = nextId + 1
         /\ inq' = IF Live(E.c) /\ ~EofPushed(E.c)
                      THEN [inq EXCEPT ![E.c] = Append(@, Frame(IF E.cls \in DgClasses THEN "dg" ELSE E.cls, E.k, E.cls, E.id))]
                      ELSE inq                   \* written into a stream nobody reads any more
         /\ UNCHANGED <<cstate, regSeq, nextSeq, active, inactive, pktq, msgq, hold, wire, stalled, broken,
                        sentTo, pendGone, revoked, killedBy>>
TEof == /\ IsEvent("eof") /\ UNCHANGED <<pend, dropped, cur>>
        /\ inq' = IF Live(E.c) /\ ~EofPushed(E.c) THEN [inq EXCEPT ![E.c] = Append(@, Frame("eof", KeyOf[E.c], "none", 0))] ELSE inq
        /\ UNCHANGED <<cstate, regSeq, nextSeq, active, inactive, pktq, msgq, hold, wire, stalled, broken,
                       sentTo, pendGone, revoked, nextId, sent, killedBy>>
\* the actor of c takes the next frame out of its stream (select arm stream.next())
TRead == /\ IsEvent("read") /\ UNCHANGED <<pend, dropped>>
         /\ Serving(E.c) /\ Idle(E.c) /\ InSelect(E.c) /\ inq[E.c] # <<>>
         /\ (E.t = "eof") <=> (Head(inq[E.c]).t = "eof")
         /\ cur' = [cur EXCEPT ![E.c] = Head(inq[E.c])] /\ inq' = [inq EXCEPT ![E.c] = Tail(@)]
         /\ UNCHANGED <<cstate, regSeq, nextSeq, active, inactive, pktq, msgq, hold, wire, stalled, broken,
                        sentTo, pendGone, revoked, nextId, sent, killedBy>>
TStall == /\ IsEvent("stall") /\ UNCHANGED <<pend, dropped, cur>>
          /\ IF Live(E.c) /\ E.c \notin stalled THEN Stall(E.c) ELSE UNCHANGED vars
TUnstall == /\ IsEvent("unstall") /\ UNCHANGED <<pend, dropped, cur>>
            /\ IF E.c \in stalled THEN Unstall(E.c) ELSE UNCHANGED vars

\* ---- driver calls: invocation, effect (hidden), return
TCall == /\ IsEvent("call") /\ pend = NoPend /\ UNCHANGED <<dropped, cur>>
         /\ pend' = [op |-> E.t, c |-> E.c, k |-> E.k, ret |-> "none"]
         /\ IF E.t = "register" THEN Admit(E.c) ELSE UNCHANGED vars
HRegister == /\ Hidden /\ pend.op = "register" /\ Register(pend.c) /\ UNCHANGED cur
             /\ pend' = [pend EXCEPT !.op = "done", !.ret = "na"]
HDisconnect == /\ Hidden /\ pend.op = "disconnect" /\ UNCHANGED cur
               /\ IF cstate[pend.c] = "registered" /\ pend.c \notin revoked THEN Disconnect(pend.c) ELSE UNCHANGED vars
               /\ pend' = [pend EXCEPT !.op = "done", !.ret = IF Live(pend.c) THEN "true" ELSE "false"]
HDisconnectKey == /\ Hidden /\ pend.op = "disconnectkey" /\ UNCHANGED cur
                  /\ IF \E c \in Conns : KeyOf[c] = pend.k /\ Live(c) /\ c \notin revoked
                        THEN DisconnectKey(pend.k) ELSE UNCHANGED vars
                  /\ pend' = [pend EXCEPT !.op = "done", !.ret = IF active[pend.k] # NoConn THEN "true" ELSE "false"]
TRet == /\ IsEvent("ret") /\ pend.op = "done" /\ pend.ret = E.ret /\ pend' = NoPend /\ UNCHANGED <<vars, dropped, cur>>

\* ---- what clients observe
Matches(m) == m.t = E.t /\ m.src = E.src /\ m.id = E.id /\ m.cls = E.cls
TRecv == /\ IsEvent("recv") /\ UNCHANGED <<pend, dropped>>
         /\ \/ InSelect(E.c) /\ (TakePacket(E.c) \/ TakeMsg(E.c) \/ FinishWrite(E.c)) /\ UNCHANGED cur
            \/ /\ ~InSelect(E.c) /\ Handle(E.c, cur[E.c], "fwd") /\ UNCHANGED <<inq, nextId, sent>>     \* the pong
               /\ cur' = [cur EXCEPT ![E.c] = NoFrame]
         /\ Len(wire'[E.c]) = Len(wire[E.c]) + 1 /\ Matches(wire'[E.c][Len(wire'[E.c])])
TDrop == /\ IsEvent("drop") /\ cstate[E.c] = "gone" /\ E.c \notin dropped
         /\ dropped' = dropped \cup {E.c} /\ UNCHANGED <<vars, pend, cur>>

\* ---- the relay's own steps
HHandle(c, mode) == /\ Hidden /\ ~InSelect(c) /\ Handle(c, cur[c], mode) /\ UNCHANGED <<inq, nextId, sent, pend>>
                    /\ cur' = [cur EXCEPT ![c] = NoFrame]
HHoldPacket(c)  == /\ Hidden /\ Serving(c) /\ Idle(c) /\ InSelect(c) /\ pktq[c] # <<>> /\ UNCHANGED <<pend, cur>>
                   /\ hold' = [hold EXCEPT ![c] = Head(pktq[c])] /\ pktq' = [pktq EXCEPT ![c] = Tail(@)]
                   /\ UNCHANGED <<cstate, regSeq, nextSeq, active, inactive, inq, msgq, stalled, broken,
                                  sentTo, pendGone, revoked, nextId, sent, killedBy>>
HHoldMsg(c)     == /\ Hidden /\ Serving(c) /\ Idle(c) /\ InSelect(c) /\ msgq[c] # <<>> /\ UNCHANGED <<pend, cur>>
                   /\ hold' = [hold EXCEPT ![c] = Head(msgq[c])] /\ msgq' = [msgq EXCEPT ![c] = Tail(@)]
                   /\ UNCHANGED <<cstate, regSeq, nextSeq, active, inactive, inq, pktq, stalled, broken,
                                  sentTo, pendGone, revoked, nextId, sent, killedBy>>
HTakePacket(c)  == Hidden /\ InSelect(c) /\ TakePacket(c) /\ UNCHANGED <<pend, cur>>       \* dropped at egress, or into hold when stalled
HFinish(c)      == Hidden /\ FinishWrite(c) /\ UNCHANGED <<pend, cur>>      \* flush, egress drop, broken transport
HUnregister(c)  == Hidden /\ InSelect(c) /\ Unregister(c) /\ UNCHANGED <<pend, cur>>
HNotifyGone(k, p) == Hidden /\ NotifyGone(k, p) /\ UNCHANGED <<pend, cur>>

TNext == \/ TReset \/ TPush \/ TEof \/ TRead \/ TStall \/ TUnstall \/ TCall \/ TRet \/ TRecv \/ TDrop
         \/ HRegister \/ HDisconnect \/ HDisconnectKey
         \/ \E c \in Conns, g \in Modes : HHandle(c, g)
         \/ \E c \in Conns : HHoldPacket(c)
         \/ \E c \in Conns : HHoldMsg(c)
         \/ \E c \in Conns : HTakePacket(c)
         \/ \E c \in Conns : HFinish(c)
         \/ \E c \in Conns : HUnregister(c)
         \/ \E k \in Keys, p \in Keys : HNotifyGone(k, p)
TSpec == TInit /\ [][TNext]_tvars

\* furthest event reached (single worker)
Track == TLCSet(1, IF TLCGet(1) < l THEN l ELSE TLCGet(1))
Accepted == LET m == TLCGet(1) IN
            IF m = Len(Rec) + 1 THEN TRUE
            ELSE Print(<<"TRACE-REJECTED at event", m, Rec[m]>>, FALSE)
=============================================================================
