SPECIFICATION Spec
INVARIANT AlternatesStrict
CHECK_DEADLOCK FALSE
CONSTANTS
  RD = 2
  CAD = 10
  DT = 60
  DnsT = 120
  Behs <- MC_Behs
  Urls <- MC_Urls
