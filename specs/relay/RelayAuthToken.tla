--------------------------- MODULE RelayAuthToken ---------------------------
(* C12 — iroh_relay::server::ClientRequest::auth_token (iroh-relay/src/server.rs:264).

   Input: the sequence of `Authorization` header values of the upgrade request (in order)
   and the URI query.  A header value is abstracted to what `value.split_once(' ')` sees:
     [scheme  the text before the first space (the whole value if there is none),
      lname   its ASCII-lower-cased form (given by the alphabet, not computed),
      hasRest whether there is a first space at all,
      rest    the text after the first space (may be empty, may start with a space),
      text    "ascii"  visible ASCII only            (HeaderValue::to_str succeeds)
              "binary" contains bytes that are not valid UTF-8   (malformed, non-text)
              "utf8"   contains non-ASCII bytes that are valid UTF-8]
   A query is absent or a sequence of parameters [raw, name, val]: `raw` as written in the
   URI, `name`/`val` its form-decoded meaning (percent-decoding, '+' = space; the relation
   raw -> (name, val) is part of the alphabet in MC_RelayAuthToken).

   The loop of the function, one action per iteration / statement:
     ScanText     header i is text: `split_once(' ')`, scheme.eq_ignore_ascii_case("Bearer")
                  -> return Some(rest), else next header
     ScanNonText  header i is not text: `value.to_str().ok()?` -> return None
     ScanEnd      headers exhausted -> fall through to the query
     QueryLookup  `query_pairs().find(|(name, _)| name == "token")` -> Some(val) / None
   A "utf8" header may be taken by either ScanText or ScanNonText: the documentation says
   "not valid UTF-8", the property says "malformed (non-text)", http's to_str says "not visible
   ASCII"; both outcomes are accepted for that class (weak reading), everything else is exact.

   The documented rules are stated independently (Documented) and TLC checks that the loop
   computes exactly them on every input (invariant LoopMatchesDocumentation), plus the
   clauses of the property one by one. *)
EXTENDS Naturals, Sequences, FiniteSets, TLC, Json
CONSTANTS HeaderAlphabet,   \* set of header records
          ParamAlphabet,    \* set of parameter records
          MaxH, MaxQ,
          StrictCase,       \* FALSE = as required (case-insensitive scheme); TRUE = a case-sensitive slip (anti-vacuity)
          QueryAfterNonText \* FALSE = as required; TRUE = slip: a non-text header falls through to the query (anti-vacuity)
VARIABLES headers, query, pc, i, result
vars == <<headers, query, pc, i, result>>

None == [some |-> FALSE, val |-> "", from |-> "none", idx |-> 0]
Some(v, from, k) == [some |-> TRUE, val |-> v, from |-> from, idx |-> k]

SeqsUpTo(S, n) == UNION {[1..m -> S] : m \in 0..n}
NoQuery == [present |-> FALSE, params |-> <<>>]

Init == /\ headers \in SeqsUpTo(HeaderAlphabet, MaxH)
        /\ query \in {NoQuery} \cup {[present |-> TRUE, params |-> ps] : ps \in SeqsUpTo(ParamAlphabet, MaxQ)}
        /\ pc = "scan" /\ i = 1 /\ result = None

IsBearer(h) == h.hasRest /\ (IF StrictCase THEN h.scheme = "Bearer" ELSE h.lname = "bearer")

ScanText == /\ pc = "scan" /\ i <= Len(headers) /\ headers[i].text \in {"ascii", "utf8"}
            /\ IF IsBearer(headers[i])
                  THEN result' = Some(headers[i].rest, "header", i) /\ pc' = "done" /\ i' = i
                  ELSE result' = result /\ pc' = "scan" /\ i' = i + 1
            /\ UNCHANGED <<headers, query>>
ScanNonText == /\ pc = "scan" /\ i <= Len(headers) /\ headers[i].text \in {"binary", "utf8"}
               /\ IF QueryAfterNonText THEN pc' = "query" ELSE pc' = "done"
               /\ result' = None
               /\ UNCHANGED <<headers, query, i>>
ScanEnd == /\ pc = "scan" /\ i > Len(headers) /\ pc' = "query" /\ UNCHANGED <<headers, query, i, result>>

TokenParams == {k \in 1..Len(query.params) : query.params[k].name = "token"}
Least(S) == CHOOSE k \in S : \A m \in S : k <= m
QueryResult == IF TokenParams = {} THEN None
               ELSE Some(query.params[Least(TokenParams)].val, "query", Least(TokenParams))
QueryLookup == /\ pc = "query" /\ result' = QueryResult /\ pc' = "done" /\ UNCHANGED <<headers, query, i>>

Next == ScanText \/ ScanNonText \/ ScanEnd \/ QueryLookup
Spec == Init /\ [][Next]_vars

---------------------------------------------------------------------------
(* C12: the documented rules, stated without the loop.  `nt` is the reading of the "utf8" class:
   the set of header indexes regarded as non-text. *)
Idx == 1..Len(headers)
Binary == {k \in Idx : headers[k].text = "binary"}
Utf8 == {k \in Idx : headers[k].text = "utf8"}
DocumentedFor(nt) ==
    LET bearers == {k \in Idx \ nt : headers[k].hasRest /\ headers[k].lname = "bearer"}
        stop    == IF nt = {} THEN Len(headers) + 1 ELSE Least(nt)          \* the first non-text header
        early   == {k \in bearers : k < stop}
    IN IF early # {} THEN Some(headers[Least(early)].rest, "header", Least(early))    \* first Bearer header wins
       ELSE IF nt # {} THEN None                                                      \* malformed value ends the search
       ELSE QueryResult                                                               \* first `token` parameter, decoded
Documented == {DocumentedFor(Binary \cup u) : u \in SUBSET Utf8}

LoopMatchesDocumentation == pc = "done" => result \in Documented
\* the clauses, one by one (all inputs without the ambiguous class)
Unambiguous == Utf8 = {}
FirstBearerWins == (pc = "done" /\ Unambiguous /\ result.from = "header") =>
                      /\ IsBearer(headers[result.idx]) /\ headers[result.idx].text = "ascii"
                      /\ \A k \in 1..(result.idx - 1) : ~IsBearer(headers[k]) /\ headers[k].text = "ascii"
                      /\ result.val = headers[result.idx].rest
CaseInsensitive == (pc = "done" /\ Unambiguous /\ Binary = {}) =>
                      ((\E k \in Idx : headers[k].hasRest /\ headers[k].lname = "bearer") <=> result.from = "header")
NonTextEndsSearch == (pc = "done" /\ Unambiguous /\ Binary # {}) =>
                      \/ result.from = "header" /\ result.idx < Least(Binary)
                      \/ result = None
QueryOnlyAsFallback == (pc = "done" /\ result.from = "query") =>
                      /\ \A k \in Idx : ~IsBearer(headers[k]) /\ headers[k].text # "binary"
                      /\ query.params[result.idx].name = "token"
                      /\ \A k \in 1..(result.idx - 1) : query.params[k].name # "token"
                      /\ result.val = query.params[result.idx].val
NoneMeansNone == (pc = "done" /\ Unambiguous /\ ~result.some) =>
                      \/ Binary # {}
                      \/ (\A k \in Idx : ~IsBearer(headers[k])) /\ TokenParams = {}
Terminates == [][pc = "scan" => (pc' # "scan" \/ i' = i + 1)]_vars
TypeOK == pc \in {"scan", "query", "done"} /\ i \in 1..(MaxH + 1)

\* decision-table generator: one REPLAY line per (input, accepted outcome)
Emit == pc = "done" => PrintT(<<"REPLAY", ToJson([headers |-> headers, query |-> query, result |-> result])>>)
=============================================================================
