\* C04 / C05: forwarding instance; client frames of every class given, closes, queue-full drops
SPECIFICATION SpecFused
INVARIANT TypeOK RegistryShape NewestWins PacketsWellAddressed AtMostOnce FifoPerSender WireClean Isolation
PROPERTY GoneOnlyOnEntryRemoval DisplacedIsTold PromotedIsTold StatusToTheRightOne AcceptedByActiveOnly ReadTouchesOnlySelf LeavesOnlyForOwnReasons
CHECK_DEADLOCK FALSE
CONSTANTS
  Conns <- Tiny_Conns
  KeyOf <- Tiny_KeyOf
  Keys = {"A", "B"}
  NoConn = "none"
  LateCancel = FALSE
  InqCap = 1
  FixRevoke = TRUE
