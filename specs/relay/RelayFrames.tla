----------------------------- MODULE RelayFrames -----------------------------
(* Relay wire format, part 2: frames, their lengths, limits and versions (C10).
   Part 1 (datagram batches, take_segments, C16) is RelayWire.tla.

   Code modelled (iroh-relay):
     protos/common.rs   FrameType::{write_to, encoded_len, from_bytes}   QUIC varint type tag
     protos/relay.rs    ClientToRelayMsg / RelayToClientMsg ::{typ, write_to, encoded_len, from_bytes},
                        Datagrams::{write_to, encoded_len, from_bytes}, Status::{write_to, from_bytes}
     client/conn.rs     <Conn as Sink<ClientToRelayMsg>>::start_send          sender-side checks (client)
     server/streams.rs  <RelayedStream as Sink<RelayToClientMsg>>::start_send sender-side checks (relay)

   A frame travels   sender: message --SinkCheck--> Encode --> wire bytes --Decode--> receiver: message.
   Lengths are real byte counts (MAX = MAX_PACKET_SIZE = 65536); contents are abstracted to their
   length and to the few classes the decoder looks at:

     message  [kind, n, hasSeg, ecn, st]
        kind    "dgram" | "gone" | "ping" | "pong" | "health" | "restarting" | "status"
        n       dgram: length of the datagram contents; health: length of the (UTF-8) problem text
        hasSeg  dgram: a segment size is set (batch frame types 5 / 7)
        ecn     0..3   the ECN codepoint bits (0 = None)
        st      status: the status byte
     wire     [tag, vlen, trunc, body, keyOk, utf8Ok, segZero, ecnByte, st]
        tag     the type tag value;  vlen its varint length in bytes (1 minimal for all real tags;
                2, 4, 8 = non-minimal encodings, which the varint decoder accepts)
        trunc   fewer bytes than the first byte's length prefix announces (includes the empty input)
        body    number of bytes after the tag
        keyOk   bytes 0..32 of the body are a valid Ed25519 point     (meaningful when body >= 32)
        utf8Ok  the body is valid UTF-8                                (Health)
        segZero the two segment-size bytes are zero                    (batch frames, body >= 35)
        ecnByte the byte after the key; the codepoint is its two low bits

   Actions:
     SinkAccept / SinkReject   start_send of the sender's sink: `encoded_len() <= MAX` and, for
                               datagrams, non-empty contents  (same rule in both sinks)
     Encode                    write_to: minimal varint tag + payload
     Decode                    from_bytes of the receiving side under the connection's version
   An adversarial sender starts directly with arbitrary wire shapes (origin = "adversary").

   SinkCmp = "le" is the code as written and as required; "lt" is the slip of DESIGN §12 (boundary
   frame rejected).  StatusInV1 = TRUE is the slip "Status accepted in V1".  BatchGuard is the
   minimal length Datagrams::from_bytes requires of a batch (3 as written; 1 = slip: get_u16 past
   the end = panic).  TLC must refute the matching invariant for each slip (anti-vacuity).

   Stated non-property (C05's defect, owned by RelayServer.tla): the decoder accepts frames that the
   *forwarding* sink then rejects (empty datagram; contents of MAX-34 bytes re-encoded with the
   same overhead).  DecoderNoLaxerThanSink is therefore NOT an invariant; see the bottom. *)
EXTENDS Naturals, Sequences, FiniteSets, TLC, Json
CONSTANTS MAX, Lens, AdvLens, AdvTags, SinkCmp, StatusInV1, BatchGuard
VARIABLES origin, dir, ver, msg, sink, wire, pc, out
vars == <<origin, dir, ver, msg, sink, wire, pc, out>>

KEY == 32
Dirs == {"c2r", "r2c"}
Vers == {1, 2}
KindsOf(d) == IF d = "c2r" THEN {"dgram", "ping", "pong"}
              ELSE {"dgram", "gone", "ping", "pong", "health", "restarting", "status"}

Msg(k, n, s, e, st) == [kind |-> k, n |-> n, hasSeg |-> s, ecn |-> e, st |-> st]
NoMsg == Msg("none", 0, FALSE, 0, 0)
Wire(t, v, tr, b, k, u, z, e, st) ==
    [tag |-> t, vlen |-> v, trunc |-> tr, body |-> b, keyOk |-> k, utf8Ok |-> u, segZero |-> z, ecnByte |-> e, st |-> st]
NoWire == Wire(0, 0, FALSE, 0, TRUE, TRUE, FALSE, 0, 0)
Result(ok, err, m) == [ok |-> ok, err |-> err, msg |-> m]
NoResult == Result(FALSE, "none", NoMsg)

(* ---- sender side ---- *)
TagOf(d, m) == CASE m.kind = "dgram" -> (IF d = "c2r" THEN 4 ELSE 6) + (IF m.hasSeg THEN 1 ELSE 0)
                 [] m.kind = "gone" -> 8
                 [] m.kind = "ping" -> 9
                 [] m.kind = "pong" -> 10
                 [] m.kind = "health" -> 11
                 [] m.kind = "restarting" -> 12
                 [] m.kind = "status" -> 13
DatagramsLen(m) == 1 + (IF m.hasSeg THEN 2 ELSE 0) + m.n          \* Datagrams::encoded_len
PayloadLen(m) == CASE m.kind = "dgram" -> KEY + DatagramsLen(m)
                   [] m.kind = "gone" -> KEY
                   [] m.kind \in {"ping", "pong"} -> 8
                   [] m.kind = "health" -> m.n
                   [] m.kind = "restarting" -> 8
                   [] m.kind = "status" -> 1
EncodedLen(m) == 1 + PayloadLen(m)                                 \* all real tags are < 64: one varint byte
SizeOk(m) == IF SinkCmp = "lt" THEN EncodedLen(m) < MAX ELSE EncodedLen(m) <= MAX
SinkAccepts(m) == SizeOk(m) /\ (m.kind = "dgram" => m.n > 0)
EncodeOf(d, m) == Wire(TagOf(d, m), 1, FALSE, PayloadLen(m), TRUE, TRUE, FALSE, m.ecn, m.st)

(* ---- receiver side: from_bytes, check by check in the order of the code ---- *)
KnownTag(t) == t \in 0..13
DecodeDatagrams(len, isBatch, w) ==                                \* Datagrams::from_bytes on `len` bytes
    IF isBatch /\ len < BatchGuard THEN Result(FALSE, "invalid_frame", NoMsg)
    ELSE IF ~isBatch /\ len < 1 THEN Result(FALSE, "invalid_frame", NoMsg)
    ELSE IF isBatch /\ len < 3 THEN Result(FALSE, "PANIC", NoMsg)                  \* get_u8 + get_u16 past the end
    ELSE Result(TRUE, "", Msg("dgram", len - (IF isBatch THEN 3 ELSE 1), isBatch /\ ~w.segZero, w.ecnByte % 4, 0))
DecodeOf(d, v, w) ==
    IF w.trunc THEN Result(FALSE, "frame_type", NoMsg)                             \* VarInt::decode: UnexpectedEnd
    ELSE IF ~KnownTag(w.tag) THEN Result(FALSE, "frame_type", NoMsg)               \* UnknownFrameType (also tags > u32)
    ELSE IF w.body > MAX THEN Result(FALSE, "too_large", NoMsg)
    ELSE IF (d = "c2r" /\ w.tag \in {4, 5}) \/ (d = "r2c" /\ w.tag \in {6, 7}) THEN
        IF w.body < KEY THEN Result(FALSE, "invalid_frame", NoMsg)
        ELSE IF ~w.keyOk THEN Result(FALSE, "invalid_key", NoMsg)
        ELSE DecodeDatagrams(w.body - KEY, w.tag \in {5, 7}, w)
    ELSE IF d = "r2c" /\ w.tag = 8 THEN
        IF w.body # KEY THEN Result(FALSE, "invalid_frame", NoMsg)
        ELSE IF ~w.keyOk THEN Result(FALSE, "invalid_key", NoMsg)
        ELSE Result(TRUE, "", Msg("gone", 0, FALSE, 0, 0))
    ELSE IF w.tag \in {9, 10} THEN
        IF w.body # 8 THEN Result(FALSE, "invalid_frame", NoMsg)
        ELSE Result(TRUE, "", Msg(IF w.tag = 9 THEN "ping" ELSE "pong", 0, FALSE, 0, 0))
    ELSE IF d = "r2c" /\ w.tag = 11 THEN
        IF v # 1 THEN Result(FALSE, "not_in_version", NoMsg)
        ELSE IF ~w.utf8Ok THEN Result(FALSE, "utf8", NoMsg)
        ELSE Result(TRUE, "", Msg("health", w.body, FALSE, 0, 0))
    ELSE IF d = "r2c" /\ w.tag = 12 THEN
        IF w.body # 8 THEN Result(FALSE, "invalid_frame", NoMsg)
        ELSE Result(TRUE, "", Msg("restarting", 0, FALSE, 0, 0))
    ELSE IF d = "r2c" /\ w.tag = 13 THEN
        IF v < 2 /\ ~StatusInV1 THEN Result(FALSE, "not_in_version", NoMsg)
        ELSE IF w.body < 1 THEN Result(FALSE, "invalid_frame", NoMsg)
        ELSE Result(TRUE, "", Msg("status", 0, FALSE, 0, w.st))                    \* bytes after the first are ignored
    ELSE Result(FALSE, "invalid_frame_type", NoMsg)                                \* a known tag of the other direction / handshake

(* ---- state machine ---- *)
SenderMsgs(d) ==
    {Msg("dgram", n, s, e, 0) : n \in Lens, s \in BOOLEAN, e \in {0, 2}}
    \cup (IF d = "r2c" THEN {Msg("health", n, FALSE, 0, 0) : n \in Lens} ELSE {})
    \cup {Msg(k, 0, FALSE, 0, 0) : k \in KindsOf(d) \ {"dgram", "health", "status"}}
    \cup (IF d = "r2c" THEN {Msg("status", 0, FALSE, 0, st) : st \in {0, 1, 2, 200}} ELSE {})
MinVlen(t) == IF t < 64 THEN 1 ELSE IF t < 16384 THEN 2 ELSE IF t < 1073741824 THEN 4 ELSE 8     \* QUIC varint
\* adversarial wire shapes; fields the decoder never looks at for that tag/length are kept canonical
AdvWires ==
    {Wire(0, 1, TRUE, 0, TRUE, TRUE, FALSE, 0, 0)}
    \cup {w \in {Wire(t, v, FALSE, b, TRUE, TRUE, FALSE, 0, 0) : t \in AdvTags, v \in {1, 2, 8}, b \in AdvLens} : w.vlen >= MinVlen(w.tag)}
    \cup {Wire(t, 1, FALSE, b, FALSE, TRUE, FALSE, 0, 0) : t \in {4, 5, 6, 7, 8}, b \in {x \in AdvLens : x >= KEY}}
    \cup {Wire(11, 1, FALSE, b, TRUE, FALSE, FALSE, 0, 0) : b \in {x \in AdvLens : x >= 1}}
    \cup {Wire(t, 1, FALSE, b, TRUE, TRUE, TRUE, e, 0) : t \in {5, 7}, b \in {x \in AdvLens : x >= KEY + 3}, e \in {0, 6, 253}}
    \cup {Wire(13, 1, FALSE, b, TRUE, TRUE, FALSE, 0, st) : b \in {1, 2, 9}, st \in {0, 2, 3, 255}}

Init == /\ dir \in Dirs /\ ver \in Vers
        /\ \/ /\ origin = "sender" /\ msg \in SenderMsgs(dir) /\ wire = NoWire /\ pc = "built"
           \/ /\ origin = "adversary" /\ msg = NoMsg /\ wire \in AdvWires /\ pc = "wire"
        /\ sink = "n/a" /\ out = NoResult

SinkAccept == /\ pc = "built" /\ SinkAccepts(msg) /\ sink' = "accepted" /\ pc' = "checked"
              /\ UNCHANGED <<origin, dir, ver, msg, wire, out>>
SinkReject == /\ pc = "built" /\ ~SinkAccepts(msg) /\ pc' = "checked"
              /\ sink' = (IF ~SizeOk(msg) THEN "too_large" ELSE "empty")
              /\ UNCHANGED <<origin, dir, ver, msg, wire, out>>
\* the encoder is also run for messages the sink refuses (to_bytes is a separate function): lengths and
\* round trip are properties of the codec, limit agreement of sink + decoder
Encode == /\ pc = "checked" /\ wire' = EncodeOf(dir, msg) /\ pc' = "wire"
          /\ UNCHANGED <<origin, dir, ver, msg, sink, out>>
Decode == /\ pc = "wire" /\ out' = DecodeOf(dir, ver, wire) /\ pc' = "done"
          /\ UNCHANGED <<origin, dir, ver, msg, sink, wire>>
Next == SinkAccept \/ SinkReject \/ Encode \/ Decode
Spec == Init /\ [][Next]_vars

---------------------------------------------------------------------------
(* C10 *)
Honest == origin = "sender" /\ pc = "done"
VersionAllows(m, v) == (m.kind = "health" => v = 1) /\ (m.kind = "status" => v >= 2)
\* the predicted encoded length is the length on the wire (tag + body)
EncodedLenExact == Honest => EncodedLen(msg) = wire.vlen + wire.body
\* any message the sender's size checks accept (and that belongs to the version) is accepted by the decoder
LimitAgreement == (Honest /\ sink = "accepted" /\ VersionAllows(msg, ver)) => out.ok
\* the sender may use the whole limit: exactly the non-empty messages of at most MAX encoded bytes pass the sink
SinkAcceptsUpToMax == Honest => (sink = "accepted" <=> (EncodedLen(msg) <= MAX /\ (msg.kind = "dgram" => msg.n > 0)))
\* whatever decodes, decodes back to itself (fields within the wire format's ranges)
RoundTrip == (Honest /\ out.ok) => out.msg = msg
\* and every in-range message does decode, whatever the sink thinks of its size, up to the decoder's own limit
DecodesIfWithinDecoderLimit == (Honest /\ VersionAllows(msg, ver) /\ PayloadLen(msg) <= MAX) => out.ok
\* frames that exist only in the other protocol version are rejected
CrossVersionRejected == (pc = "done" /\ ~wire.trunc /\ ((wire.tag = 11 /\ ver = 2) \/ (wire.tag = 13 /\ ver = 1))) => ~out.ok
\* frames of the other direction and handshake frames are rejected
OtherDirectionRejected == (pc = "done" /\ ~wire.trunc /\ KnownTag(wire.tag) /\
                           ((dir = "c2r" /\ wire.tag \notin {4, 5, 9, 10}) \/ (dir = "r2c" /\ wire.tag \in 0..5))) => ~out.ok
\* decoding is total: every wire shape gets a result, never a panic (an access outside the received bytes)
DecodingTotal == pc = "done" => out.err # "PANIC" /\ (out.ok <=> out.err = "")
\* the decoder never reads past its own limit
DecoderLimit == (pc = "done" /\ out.ok) => wire.body <= MAX
TypeOK == pc \in {"built", "checked", "wire", "done"} /\ sink \in {"n/a", "accepted", "too_large", "empty"}

\* NOT an invariant (C05): what the decoder accepts, the next sink (forwarding the same datagrams) accepts
DecoderNoLaxerThanSink == (pc = "done" /\ out.ok /\ out.msg.kind = "dgram") => SinkAccepts(out.msg)

\* decision-table generator: one REPLAY line per finished case
Emit == pc = "done" => PrintT(<<"REPLAY", ToJson([origin |-> origin, dir |-> dir, ver |-> ver, msg |-> msg, sink |-> sink,
                                                    wire |-> wire, enclen |-> (IF origin = "sender" THEN EncodedLen(msg) ELSE 0),
                                                    out |-> out])>>)
=============================================================================
