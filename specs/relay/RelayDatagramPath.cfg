SPECIFICATION Spec
INVARIANT EndToEnd OnlySent HonestNeverDropped RefusedOnlyIfUnsendable ReceiverDecodesWhatRelaySends Emit
CHECK_DEADLOCK FALSE
CONSTANTS
  MAX = 65536
  Lens <- MC_Lens
  SegSizes = {0, 1200, 1201, 32768, 65535}
  Takes = {1, 2, 10, 100}
