------------------------- MODULE Gen_RelayServer -------------------------
(* Behaviour generator for the mode-A binding of RelayServer (C04, C05, C06).

   The driver (harness/src/bin/vh_relayreg.rs, `replay`) performs one call at a time on the real
   Clients registry / in-memory client streams and lets the actors run until nothing moves
   ("quiescence") before the next call.  The same discipline here: a driver step (the G actions) is taken
   only in a quiescent state; otherwise the relay's own steps (the I actions) run, in any order.  `hist`
   records the driver steps with what every client had observed *before* the step (`pre`:
   number of frames received, stream closed by the relay); Emit prints every quiescent state
   as one REPLAY line: the steps, the final marks and the complete received frame sequences.
   Behaviours with the same driver steps are grouped by the check: the real observation must
   be one of the outcomes TLC found for those steps (the order of the relay's own steps is
   not determined, e.g. which of two cancelled actors unregisters first).

   Pre: a scripted prefix of connects (keeps the depth for what follows).
   Disconnect of an admitted, not yet registered connection is C08's subject and not generated
   here: connect = Admit followed at once by Register. *)
EXTENDS RelayServer, Json
CONSTANTS MaxSteps, Ops, Pre, FrameDsts
VARIABLE hist
gvars == <<vars, hist>>

CanInternal(c) ==
  \/ cstate[c] = "admitted"
  \/ cstate[c] = "registered" /\ Idle(c) /\ (pktq[c] # <<>> \/ msgq[c] # <<>>)
  \/ Live(c) /\ ~Idle(c) /\ CanWrite(c)
  \/ Idle(c) /\ (cstate[c] = "exiting" \/ (cstate[c] = "cancelled" /\ CanWrite(c)))
Quiescent == pendGone = {} /\ \A c \in Conns : ~CanInternal(c)

Marks == [c \in Conns |-> [n |-> Len(wire[c]), gone |-> cstate[c] = "gone"]]
Log(op, c, dst, cls, id, ret) ==
  hist' = Append(hist, [op |-> op, c |-> c, dst |-> dst, cls |-> cls, id |-> id, ret |-> ret, pre |-> Marks])
Step(op) == /\ Quiescent /\ Len(hist) < MaxSteps /\ op \in Ops
            /\ (Len(hist) < Len(Pre) => op = "connect")

GInit == Init /\ hist = <<>>

\* ---- driver steps
GConnect(c) == /\ Step("connect") /\ (Len(hist) < Len(Pre) => c = Pre[Len(hist) + 1])
               /\ Admit(c) /\ Log("connect", c, "none", "none", 0, "na")
GFrame(c, dst, cls, g) == /\ Step("frame") /\ dst \in FrameDsts
                          /\ ClientFrame(c, dst, cls, g) /\ Log("frame", c, dst, cls, nextId, "na")
GClose(c) == Step("close") /\ Close(c) /\ Log("close", c, "none", "none", 0, "na")
\* Clients::disconnect(key, Some(id)) on any connection that was ever registered; returns whether it was found
GDisconnect(c) == /\ Step("disconnect") /\ cstate[c] \notin {"new", "admitted"}
                  /\ IF cstate[c] = "registered" /\ c \notin revoked THEN Disconnect(c) ELSE UNCHANGED vars
                  /\ Log("disconnect", c, "none", "none", 0, IF Live(c) THEN "true" ELSE "false")
GDisconnectKey(k) == /\ Step("disconnectkey")
                     /\ IF \E c \in Conns : KeyOf[c] = k /\ Live(c) /\ c \notin revoked THEN DisconnectKey(k) ELSE UNCHANGED vars
                     /\ Log("disconnectkey", "none", k, "none", 0, IF active[k] # NoConn THEN "true" ELSE "false")
GStall(c)   == Step("stall") /\ Stall(c) /\ Log("stall", c, "none", "none", 0, "na")
GUnstall(c) == Step("stall") /\ Unstall(c) /\ Log("unstall", c, "none", "none", 0, "na")
GBreak(c)   == Step("break") /\ BreakSink(c) /\ Log("break", c, "none", "none", 0, "na")

\* ---- the relay's own steps
IRegister(c)    == Register(c) /\ UNCHANGED hist
ITakePacket(c)  == TakePacket(c) /\ UNCHANGED hist
ITakeMsg(c)     == TakeMsg(c) /\ UNCHANGED hist
IFinishWrite(c) == FinishWrite(c) /\ UNCHANGED hist
IUnregister(c)  == Unregister(c) /\ UNCHANGED hist
INotifyGone(k, p) == NotifyGone(k, p) /\ UNCHANGED hist

GNext == \/ \E c \in Conns : GConnect(c)
         \/ \E c \in Conns, d \in Keys, cls \in Classes, g \in Modes : GFrame(c, d, cls, g)
         \/ \E c \in Conns : GClose(c)
         \/ \E c \in Conns : GDisconnect(c)
         \/ \E k \in Keys : GDisconnectKey(k)
         \/ \E c \in Conns : GStall(c)
         \/ \E c \in Conns : GUnstall(c)
         \/ \E c \in Conns : GBreak(c)
         \/ \E c \in Conns : IRegister(c)
         \/ \E c \in Conns : ITakePacket(c)
         \/ \E c \in Conns : ITakeMsg(c)
         \/ \E c \in Conns : IFinishWrite(c)
         \/ \E c \in Conns : IUnregister(c)
         \/ \E k \in Keys, p \in Keys : INotifyGone(k, p)
GSpec == GInit /\ [][GNext]_gvars

Emit == (Quiescent /\ Len(hist) > 0) =>
          PrintT(<<"REPLAY", ToJson([steps |-> hist, final |-> Marks, wire |-> wire])>>)
=============================================================================
