--------------------------- MODULE RelayServer ---------------------------
(* Relay server: connection registry + per-connection actors.
   C04 forwarding, C05 isolation, C06 registry (C07/C08 build on it in RelayAdmission.tla).

   Code modelled (iroh-relay/src/server):
     clients.rs  Clients::{register, unregister, disconnect, send_packet}
                 state: clients : DashMap<EndpointId, ClientState{active, inactive: Vec}>,
                        sent_to : DashMap<EndpointId, HashSet<EndpointId>>
     client.rs   Client::{new, start_shutdown, try_send_packet, try_send_health, try_send_peer_gone}
                 Actor::{run, run_inner (biased select loop), handle_frame,
                         handle_frame_send_packet, send_packet, write_frame}
     streams.rs  RelayedStream: Stream (ClientToRelayMsg::from_bytes) and
                 Sink::start_send (size <= MAX_PACKET_SIZE, datagram contents non-empty)

   One action per critical section / select arm:

     Admit(c)           http_server Inner::accept: handshake + access control done, the
                        connection id exists, Clients::register not yet called
     Register(c)        Clients::register: one DashMap entry critical section: replace
                        active, push the old one to inactive, try_send_health(SameEndpointIdConnected)
     Push(c,dst,cls)    environment: the client of c writes one frame into its stream
     Leave(c)           environment: the client of c closes its stream (EOF after what it pushed)
     ReadFrame(c,mode)  select arm `stream.next()` -> handle_frame:
                          datagram  -> Clients::send_packet(dst): no entry -> drop;
                                       try_send Ok -> enqueue + sent_to; Full -> drop
                          ping      -> write_frame(Pong) (direct write, not through a queue)
                          pong      -> ping tracker only
                          eof / frame the decoder rejects -> run_inner returns Err: own exit
     TakePacket(c)      select arm `packet_send_queue.recv()`
     TakeMsg(c)         select arm `message_send_queue.recv()`
     FinishWrite(c)     write_frame: the sink accepts (or refuses) the frame taken before;
                        RelayedStream::start_send refuses empty / over-long datagram frames
     Disconnect(c)      Clients::disconnect(key, Some(connection_id)) -> start_shutdown
     DisconnectKey(k)   Clients::disconnect(key, None)
     Unregister(c)      actor exit: (final flush if cancelled) + Clients::unregister
                        (remove_if_mut critical section: promote last inactive + Healthy,
                         or retain, or remove the entry and take sent_to)
     NotifyGone(k,p)    the loop after the critical section: clients.get(p).active
                        .try_send_peer_gone(k)  (HashSet order: any order)
     Stall/Unstall/BreakSink(c)   environment: the client stops / resumes reading, or its
                        transport fails for writes
     ClientFrame(c,..) / Close(c)   Push / Leave fused with the ReadFrame that consumes them
                        (a sound reduction used by the small model-checking and generator
                        instances; see the comment at ClientFrame)

   Switches (the property's design vs the pinned code):
     FixUndeliverable  TRUE : a datagram the relay cannot forward is dropped (either when it
                              is read or when it is about to be written) -- what C05 requires
                       FALSE: as written: Actor::send_packet's error ends the *receiver's* actor
     FixRevoke         TRUE : a disconnect of an admitted, not yet registered connection is
                              remembered (C08);  FALSE: as written, it is lost

   Not modelled: keep-alive pings from the server and their timeout, the write timeout,
   rate limiting, Clients::shutdown.  The mpsc `Closed` case of send_packet cannot occur
   while an actor is in the registry (its receiver lives until after unregister); it needs a
   panicked actor and is left out. *)
EXTENDS Naturals, Sequences, FiniteSets, TLC

CONSTANTS Conns,        \* connection names
          Keys,         \* endpoint ids (may include ids without any connection)
          KeyOf,        \* [Conns -> Keys]
          NoConn,       \* sentinel, not in Conns
          PktCap, MsgCap,   \* channel_capacity of packet / message queue
          MaxFrames,    \* bound on frames pushed by clients
          InqCap,       \* bound on unread frames per connection (the client waits)
          Classes,      \* frame classes clients may push (see below)
          LateCancel,   \* TRUE: an actor may complete further select arms between the cancellation of its token
                        \* and noticing it (multi-thread timing of the biased select); FALSE: it notices at once
          FixUndeliverable, FixRevoke

(* Frame classes.  Datagram classes the server's decoder accepts:
     normal  single datagram, small            batch   type 5, several segments
     ecn     single datagram with ECN bits     maxm1   single, 65 502 bytes (largest forwardable)
     bmaxm1  batch, 65 500 bytes               empty   single, no contents
     ebatch  batch, no contents                maxlen  single, 65 503 bytes (decoder limit)
     bmax    batch, 65 501 bytes
   Other frames: ping, pong, reject (any frame ClientToRelayMsg::from_bytes refuses:
   over the size limit, unknown or server-only type, truncated). *)
DgClasses   == {"normal", "batch", "ecn", "maxm1", "bmaxm1", "empty", "ebatch", "maxlen", "bmax"}
Undeliverable == {"empty", "ebatch", "maxlen", "bmax"}
Deliverable(cls) == cls \notin Undeliverable

VARIABLES cstate,    \* [Conns -> {"new","admitted","registered","cancelled","exiting","gone"}]
          regSeq, nextSeq,
          active,    \* [Keys -> Conns \cup {NoConn}]
          inactive,  \* [Keys -> Seq(Conns)]
          inq,       \* [Conns -> Seq(frame)]  client -> relay, not yet read by the actor
          pktq, msgq,\* [Conns -> Seq(item)]   the two mpsc queues of the Client handle
          hold,      \* [Conns -> item]        frame the actor is writing right now (NoItem: in select)
          wire,      \* [Conns -> Seq(item)]   relay -> client, what the client has received
          stalled, broken,  \* SUBSET Conns     client not reading / transport failing
          sentTo,    \* [Keys -> SUBSET Keys]
          pendGone,  \* set of <<goneKey, peerKey>> still to notify
          revoked,   \* SUBSET Conns : disconnect requested (C08)
          nextId,    \* next datagram id; ids 1..nextId-1 were pushed
          sent,      \* ghost: Seq of [from, dst, cls], index = frame id
          killedBy   \* ghost: [Conns -> cause] why the connection left "registered"
vars == <<cstate, regSeq, nextSeq, active, inactive, inq, pktq, msgq, hold, wire, stalled, broken,
          sentTo, pendGone, revoked, nextId, sent, killedBy>>

\* one shape for everything that travels relay -> client
Item(t, src, from, id, cls) == [t |-> t, src |-> src, from |-> from, id |-> id, cls |-> cls]
NoItem    == Item("none", "none", NoConn, 0, "none")
StatusSame    == Item("same", "none", NoConn, 0, "none")
StatusHealthy == Item("healthy", "none", NoConn, 0, "none")
GoneMsg(k)    == Item("gone", k, NoConn, 0, "none")
PongMsg(id)   == Item("pong", "none", NoConn, id, "none")
FlushItem     == Item("flush", "none", NoConn, 0, "none")   \* not a frame: the flush that ends every loop iteration
\* one shape for client -> relay frames
Frame(t, dst, cls, id) == [t |-> t, dst |-> dst, cls |-> cls, id |-> id]

NoCause == "none"
Live(c)      == cstate[c] \in {"registered", "cancelled", "exiting"}   \* has a Client in the registry
QueueOpen(c) == Live(c)                     \* the receivers live until the actor task ends
Idle(c)      == hold[c] = NoItem            \* the actor is in its select, not inside a write
Serving(c)   == cstate[c] = "registered" \/ (LateCancel /\ cstate[c] = "cancelled")   \* the actor takes select arms

EofPushed(c) == IF inq[c] = <<>> THEN FALSE ELSE inq[c][Len(inq[c])].t = "eof"

Init == /\ cstate = [c \in Conns |-> "new"] /\ regSeq = [c \in Conns |-> 0] /\ nextSeq = 1
        /\ active = [k \in Keys |-> NoConn] /\ inactive = [k \in Keys |-> <<>>]
        /\ inq = [c \in Conns |-> <<>>]
        /\ pktq = [c \in Conns |-> <<>>] /\ msgq = [c \in Conns |-> <<>>]
        /\ hold = [c \in Conns |-> NoItem] /\ wire = [c \in Conns |-> <<>>]
        /\ stalled = {} /\ broken = {}
        /\ sentTo = [k \in Keys |-> {}] /\ pendGone = {} /\ revoked = {}
        /\ nextId = 1 /\ sent = <<>> /\ killedBy = [c \in Conns |-> NoCause]

\* mpsc try_send on a message queue: Full and Closed are ignored by all callers
TrySendMsg(q, c, m) == IF Len(q[c]) < MsgCap /\ QueueOpen(c) THEN [q EXCEPT ![c] = Append(@, m)] ELSE q

\* the connection leaves "registered"; the first cause is remembered
Exit(c, st, cause) ==
  /\ cstate' = [cstate EXCEPT ![c] = IF st = "exiting" THEN "exiting" ELSE IF @ = "registered" THEN st ELSE @]
  /\ killedBy' = [killedBy EXCEPT ![c] = IF @ = NoCause THEN cause ELSE @]

--------------------------------------------------------------------------
Admit(c) == /\ cstate[c] = "new" /\ cstate' = [cstate EXCEPT ![c] = "admitted"]
            /\ UNCHANGED <<regSeq, nextSeq, active, inactive, inq, pktq, msgq, hold, wire, stalled, broken,
                           sentTo, pendGone, revoked, nextId, sent, killedBy>>

Register(c) ==
  LET k == KeyOf[c]  old == active[k] IN
  /\ cstate[c] = "admitted"
  /\ regSeq' = [regSeq EXCEPT ![c] = nextSeq] /\ nextSeq' = nextSeq + 1
  /\ active' = [active EXCEPT ![k] = c]
  /\ inactive' = IF old = NoConn THEN inactive ELSE [inactive EXCEPT ![k] = Append(@, old)]
  /\ msgq' = IF old = NoConn THEN msgq ELSE TrySendMsg(msgq, old, StatusSame)
  /\ IF FixRevoke /\ c \in revoked
        THEN cstate' = [cstate EXCEPT ![c] = "cancelled"] /\ killedBy' = [killedBy EXCEPT ![c] = "disconnect"]
        ELSE cstate' = [cstate EXCEPT ![c] = "registered"] /\ UNCHANGED killedBy
  /\ UNCHANGED <<inq, pktq, hold, wire, stalled, broken, sentTo, pendGone, revoked, nextId, sent>>

\* environment: client of c sends a frame of class cls (datagrams: addressed to key dst)
Push(c, dst, cls) ==
  /\ cstate[c] = "registered" /\ nextId <= MaxFrames /\ Len(inq[c]) < InqCap
  /\ ~EofPushed(c)
  /\ cls \in Classes
  /\ (cls \notin DgClasses => dst = KeyOf[c])        \* dst is meaningless for non-datagram frames
  /\ inq' = [inq EXCEPT ![c] = Append(@, Frame(IF cls \in DgClasses THEN "dg" ELSE cls, dst, cls, nextId))]
  /\ sent' = Append(sent, [from |-> c, dst |-> dst, cls |-> cls])
  /\ nextId' = nextId + 1
  /\ UNCHANGED <<cstate, regSeq, nextSeq, active, inactive, pktq, msgq, hold, wire, stalled, broken,
                 sentTo, pendGone, revoked, killedBy>>

\* environment: client of c closes its stream
Leave(c) ==
  /\ cstate[c] = "registered"
  /\ ~EofPushed(c)
  /\ inq' = [inq EXCEPT ![c] = Append(@, Frame("eof", KeyOf[c], "none", 0))]
  /\ UNCHANGED <<cstate, regSeq, nextSeq, active, inactive, pktq, msgq, hold, wire, stalled, broken,
                 sentTo, pendGone, revoked, nextId, sent, killedBy>>

CanWrite(c) == c \notin stalled \/ c \in broken     \* the sink answers (Ok or Err) instead of Pending
\* The effect of write_frame(m) on connection c once the sink takes (or refuses) the frame:
\* RelayedStream::start_send refuses empty / over-long datagram frames.
WriteEffect(c, m) ==
  IF c \in broken
     THEN Exit(c, "exiting", "self") /\ UNCHANGED wire                    \* transport error on the own stream
     ELSE IF m.t = "dg" /\ ~Deliverable(m.cls)
          THEN IF FixUndeliverable
                  THEN UNCHANGED <<cstate, killedBy, wire>>               \* dropped at egress
                  ELSE Exit(c, "exiting", "frame-of") /\ UNCHANGED wire   \* as written: RunError::PacketSend
          ELSE /\ wire' = IF m.t = "flush" THEN wire ELSE [wire EXCEPT ![c] = Append(@, m)]
               /\ UNCHANGED <<cstate, killedBy>>
\* every iteration of the actor loop ends with stream.flush(): the actor is back in its select only
\* when the client reads (or the transport fails, which ends the actor)
EndOfArm(c) == IF CanWrite(c) THEN WriteEffect(c, FlushItem) /\ UNCHANGED hold
                             ELSE hold' = [hold EXCEPT ![c] = FlushItem] /\ UNCHANGED <<cstate, killedBy, wire>>

\* handle_frame(f) by the actor of c.  Leaves inq alone.  `mode`:
\*   "fwd"   the frame takes the normal path
\*   "drop"  an undeliverable datagram is dropped here, at the sender's side   } only under
\*   "quit"  an undeliverable datagram ends the *sender's own* connection       } FixUndeliverable
\* (C05 allows the relay to drop what it cannot forward -- when it is read or when it is about to
\* be written -- or to end the sender's connection; never the receiver's.)
Modes == {"fwd", "drop", "quit"}
Handle(c, f, mode) ==
  LET t == active[f.dst]  ingress == mode = "drop" IN
  /\ (mode # "fwd" => FixUndeliverable /\ f.t = "dg" /\ ~Deliverable(f.cls))
  /\ CASE mode = "quit" -> Exit(c, "exiting", "self") /\ UNCHANGED <<pktq, sentTo, hold, wire>>
       [] mode # "quit" /\ f.t = "dg" ->
            /\ IF t = NoConn \/ ingress THEN UNCHANGED <<pktq, sentTo>>
               ELSE IF QueueOpen(t) /\ Len(pktq[t]) < PktCap
                    THEN /\ pktq' = [pktq EXCEPT ![t] = Append(@, Item("dg", KeyOf[c], c, f.id, f.cls))]
                         /\ sentTo' = [sentTo EXCEPT ![KeyOf[c]] = @ \cup {f.dst}]
                    ELSE UNCHANGED <<pktq, sentTo>>          \* Full: dropped
            /\ EndOfArm(c)
       [] mode # "quit" /\ f.t = "ping" -> /\ IF CanWrite(c) THEN WriteEffect(c, PongMsg(f.id)) /\ UNCHANGED hold
                                            ELSE hold' = [hold EXCEPT ![c] = PongMsg(f.id)] /\ UNCHANGED <<cstate, killedBy, wire>>
                          /\ UNCHANGED <<pktq, sentTo>>
       [] mode # "quit" /\ f.t = "pong" -> EndOfArm(c) /\ UNCHANGED <<pktq, sentTo>>
       [] OTHER -> Exit(c, "exiting", "self") /\ UNCHANGED <<pktq, sentTo, hold, wire>>   \* eof, reject
  /\ UNCHANGED <<regSeq, nextSeq, active, inactive, msgq, stalled, broken, pendGone, revoked>>

\* select arm stream.next(): the actor of c reads the next frame
ReadFrame(c, mode) ==
  /\ Serving(c) /\ Idle(c) /\ inq[c] # <<>>
  /\ inq' = [inq EXCEPT ![c] = Tail(@)]
  /\ Handle(c, Head(inq[c]), mode)
  /\ UNCHANGED <<nextId, sent>>

\* Push immediately followed by ReadFrame, as one step.  This loses no
\* behaviour: inq[c] is read by c's actor only, so a Push commutes with every other step up
\* to the ReadFrame that consumes it.
ClientFrame(c, dst, cls, mode) ==
  /\ cstate[c] = "registered" /\ Idle(c) /\ nextId <= MaxFrames
  /\ cls \in Classes /\ (cls \notin DgClasses => dst = KeyOf[c])
  /\ sent' = Append(sent, [from |-> c, dst |-> dst, cls |-> cls])
  /\ nextId' = nextId + 1
  /\ Handle(c, Frame(IF cls \in DgClasses THEN "dg" ELSE cls, dst, cls, nextId), mode)
  /\ UNCHANGED inq
\* Leave immediately followed by the ReadFrame of the EOF
Close(c) ==
  /\ cstate[c] = "registered" /\ Idle(c)
  /\ Handle(c, Frame("eof", KeyOf[c], "none", 0), "fwd")
  /\ UNCHANGED <<inq, nextId, sent>>

\* select arm packet_send_queue.recv() -> send_packet -> write_frame.  If the client does not read,
\* the actor stays inside the write holding the frame (FinishWrite completes it later).
TakePacket(c) ==
  /\ Serving(c) /\ Idle(c) /\ pktq[c] # <<>>
  /\ pktq' = [pktq EXCEPT ![c] = Tail(@)]
  /\ IF CanWrite(c) THEN WriteEffect(c, Head(pktq[c])) /\ UNCHANGED hold
                    ELSE hold' = [hold EXCEPT ![c] = Head(pktq[c])] /\ UNCHANGED <<cstate, killedBy, wire>>
  /\ UNCHANGED <<regSeq, nextSeq, active, inactive, inq, msgq, stalled, broken,
                 sentTo, pendGone, revoked, nextId, sent>>

\* select arm message_send_queue.recv() -> write_frame
TakeMsg(c) ==
  /\ Serving(c) /\ Idle(c) /\ msgq[c] # <<>>
  /\ msgq' = [msgq EXCEPT ![c] = Tail(@)]
  /\ IF CanWrite(c) THEN WriteEffect(c, Head(msgq[c])) /\ UNCHANGED hold
                    ELSE hold' = [hold EXCEPT ![c] = Head(msgq[c])] /\ UNCHANGED <<cstate, killedBy, wire>>
  /\ UNCHANGED <<regSeq, nextSeq, active, inactive, inq, pktq, stalled, broken,
                 sentTo, pendGone, revoked, nextId, sent>>

\* a write that was blocked completes (or fails) once the client reads again / the transport fails
FinishWrite(c) ==
  /\ Live(c) /\ ~Idle(c) /\ CanWrite(c)
  /\ hold' = [hold EXCEPT ![c] = NoItem]
  /\ WriteEffect(c, hold[c])
  /\ UNCHANGED <<regSeq, nextSeq, active, inactive, inq, pktq, msgq, stalled, broken,
                 sentTo, pendGone, revoked, nextId, sent>>

\* Clients::disconnect(k, Some(id))
Disconnect(c) ==
  /\ c \notin revoked /\ cstate[c] \in {"admitted", "registered"}
  /\ revoked' = revoked \cup {c}
  /\ IF cstate[c] = "registered" THEN Exit(c, "cancelled", "disconnect") ELSE UNCHANGED <<cstate, killedBy>>
  /\ UNCHANGED <<regSeq, nextSeq, active, inactive, inq, pktq, msgq, hold, wire, stalled, broken,
                 sentTo, pendGone, nextId, sent>>

\* Clients::disconnect(k, None): every connection in k's entry
DisconnectKey(k) ==
  LET S == {c \in Conns : KeyOf[c] = k /\ Live(c)} IN
  /\ S # {} /\ ~(S \subseteq revoked)
  /\ revoked' = revoked \cup S
  /\ cstate' = [c \in Conns |-> IF c \in S /\ cstate[c] = "registered" THEN "cancelled" ELSE cstate[c]]
  /\ killedBy' = [c \in Conns |-> IF c \in S /\ cstate[c] = "registered" /\ killedBy[c] = NoCause THEN "disconnect" ELSE killedBy[c]]
  /\ UNCHANGED <<regSeq, nextSeq, active, inactive, inq, pktq, msgq, hold, wire, stalled, broken,
                 sentTo, pendGone, nextId, sent>>

RemoveFrom(s, c) == SelectSeq(s, LAMBDA x : x # c)

\* actor exit.  After a cancel the actor does a final flush first (needs a client that reads,
\* or a transport that fails); after an error it unregisters at once.
Unregister(c) ==
  LET k == KeyOf[c] IN
  /\ Idle(c)
  /\ \/ cstate[c] = "exiting"
     \/ cstate[c] = "cancelled" /\ CanWrite(c)
  /\ cstate' = [cstate EXCEPT ![c] = "gone"]
  /\ pktq' = [pktq EXCEPT ![c] = <<>>]
  /\ inq' = [inq EXCEPT ![c] = <<>>]
  /\ IF active[k] = c
        THEN IF inactive[k] # <<>>
                THEN LET p == inactive[k][Len(inactive[k])] IN
                     /\ active' = [active EXCEPT ![k] = p]
                     /\ inactive' = [inactive EXCEPT ![k] = SubSeq(@, 1, Len(@) - 1)]
                     /\ msgq' = [TrySendMsg(msgq, p, StatusHealthy) EXCEPT ![c] = <<>>]
                     /\ UNCHANGED <<sentTo, pendGone>>
                ELSE /\ active' = [active EXCEPT ![k] = NoConn] /\ UNCHANGED inactive
                     /\ pendGone' = pendGone \cup {<<k, p>> : p \in sentTo[k]}
                     /\ sentTo' = [sentTo EXCEPT ![k] = {}]
                     /\ msgq' = [msgq EXCEPT ![c] = <<>>]
        ELSE /\ inactive' = [inactive EXCEPT ![k] = RemoveFrom(@, c)]
             /\ msgq' = [msgq EXCEPT ![c] = <<>>]
             /\ UNCHANGED <<active, sentTo, pendGone>>
  /\ UNCHANGED <<regSeq, nextSeq, hold, wire, stalled, broken, revoked, nextId, sent, killedBy>>

NotifyGone(k, p) ==
  /\ <<k, p>> \in pendGone /\ pendGone' = pendGone \ {<<k, p>>}
  /\ msgq' = IF active[p] = NoConn THEN msgq ELSE TrySendMsg(msgq, active[p], GoneMsg(k))
  /\ UNCHANGED <<cstate, regSeq, nextSeq, active, inactive, inq, pktq, hold, wire, stalled, broken,
                 sentTo, revoked, nextId, sent, killedBy>>

\* environment faults on a connection's transport
Stall(c)     == /\ Live(c) /\ c \notin stalled /\ stalled' = stalled \cup {c}
                /\ UNCHANGED <<cstate, regSeq, nextSeq, active, inactive, inq, pktq, msgq, hold, wire, broken,
                               sentTo, pendGone, revoked, nextId, sent, killedBy>>
Unstall(c)   == /\ c \in stalled /\ stalled' = stalled \ {c}
                /\ UNCHANGED <<cstate, regSeq, nextSeq, active, inactive, inq, pktq, msgq, hold, wire, broken,
                               sentTo, pendGone, revoked, nextId, sent, killedBy>>
BreakSink(c) == /\ Live(c) /\ c \notin broken /\ broken' = broken \cup {c}
                /\ UNCHANGED <<cstate, regSeq, nextSeq, active, inactive, inq, pktq, msgq, hold, wire, stalled,
                               sentTo, pendGone, revoked, nextId, sent, killedBy>>

Next == \/ \E c \in Conns : Admit(c)
        \/ \E c \in Conns : Register(c)
        \/ \E c \in Conns, d \in Keys, cls \in Classes : Push(c, d, cls)
        \/ \E c \in Conns : Leave(c)
        \/ \E c \in Conns, g \in Modes : ReadFrame(c, g)
        \/ \E c \in Conns, d \in Keys, cls \in Classes, g \in Modes : ClientFrame(c, d, cls, g)
        \/ \E c \in Conns : Close(c)
        \/ \E c \in Conns : TakePacket(c)
        \/ \E c \in Conns : TakeMsg(c)
        \/ \E c \in Conns : FinishWrite(c)
        \/ \E c \in Conns : Disconnect(c)
        \/ \E k \in Keys : DisconnectKey(k)
        \/ \E c \in Conns : Unregister(c)
        \/ \E k \in Keys, p \in Keys : NotifyGone(k, p)
        \/ \E c \in Conns : Stall(c)
        \/ \E c \in Conns : Unstall(c)
        \/ \E c \in Conns : BreakSink(c)

Fair == /\ \A c \in Conns : WF_vars(Unregister(c)) /\ WF_vars(FinishWrite(c))
        /\ WF_vars(\E k \in Keys, p \in Keys : NotifyGone(k, p))
Spec == Init /\ [][Next]_vars
LiveSpec == Spec /\ Fair

--------------------------------------------------------------------------
(* Properties *)
InReg(c) == LET k == KeyOf[c] IN active[k] = c \/ \E i \in 1..Len(inactive[k]) : inactive[k][i] = c

TypeOK == /\ \A c \in Conns : cstate[c] \in {"new", "admitted", "registered", "cancelled", "exiting", "gone"}
          /\ \A k \in Keys : active[k] \in Conns \cup {NoConn}
          /\ \A c \in Conns : Len(pktq[c]) <= PktCap /\ Len(msgq[c]) <= MsgCap

\* ---- C06: registry
RegistryShape == \A k \in Keys :
   /\ (active[k] = NoConn) => inactive[k] = <<>>
   /\ active[k] # NoConn => KeyOf[active[k]] = k
   /\ \A c \in Conns : (KeyOf[c] = k) => (InReg(c) <=> Live(c))
   /\ \A i, j \in 1..Len(inactive[k]) : i < j => regSeq[inactive[k][i]] < regSeq[inactive[k][j]]
   /\ \A i \in 1..Len(inactive[k]) : KeyOf[inactive[k][i]] = k /\ regSeq[inactive[k][i]] < regSeq[active[k]]
\* traffic for k goes to the most recently registered connection that is still in the registry
NewestWins == \A k \in Keys : active[k] # NoConn =>
   \A c \in Conns : (KeyOf[c] = k /\ Live(c)) => regSeq[c] <= regSeq[active[k]]
\* an entry disappears only with its last connection; peer-gone only from the Unregister that
\* removed the entry, and only for keys the endpoint had sent to
GoneOnlyOnEntryRemoval ==
  [][ \A pr \in pendGone' \ pendGone :
        \E c \in Conns : /\ cstate[c] \in {"cancelled", "exiting"} /\ cstate'[c] = "gone" /\ KeyOf[c] = pr[1]
                         /\ active[pr[1]] = c /\ inactive[pr[1]] = <<>> /\ active'[pr[1]] = NoConn
                         /\ pr[2] \in sentTo[pr[1]] ]_vars
\* a displaced connection is told so and a promoted one is told it is healthy, when its queue has room
DisplacedIsTold ==
  [][ \A k \in Keys : (nextSeq' # nextSeq /\ active[k] # NoConn /\ active'[k] # active[k])     \* a Register on k
        => LET old == active[k] IN
           /\ InReg(old)' /\ active'[k] # old
           /\ (Len(msgq[old]) < MsgCap => msgq'[old] = Append(msgq[old], StatusSame)) ]_vars
PromotedIsTold ==
  [][ \A c \in Conns : (cstate[c] \in {"cancelled", "exiting"} /\ cstate'[c] = "gone" /\ active[KeyOf[c]] = c /\ inactive[KeyOf[c]] # <<>>)
        => LET k == KeyOf[c]  p == inactive[k][Len(inactive[k])] IN
           /\ active'[k] = p
           /\ (Len(msgq[p]) < MsgCap => msgq'[p] = Append(msgq[p], StatusHealthy)) ]_vars
\* status messages are only ever queued for connections of the registry: "same" for an inactive one,
\* "healthy" for the active one (at the moment they are queued)
StatusToTheRightOne ==
  [][ \A c \in Conns : (Len(msgq'[c]) > Len(msgq[c])) =>
        LET m == msgq'[c][Len(msgq'[c])] IN
        /\ m.t \in {"same", "healthy", "gone"}
        /\ m.t = "same"    => (active'[KeyOf[c]] # c /\ InReg(c)')
        /\ m.t = "healthy" => active'[KeyOf[c]] = c
        /\ m.t = "gone"    => active[KeyOf[c]] = c ]_vars

\* ---- C04: forwarding
AllItems(c) == wire[c] \o (IF hold[c] = NoItem THEN <<>> ELSE <<hold[c]>>) \o pktq[c]
Dgs(s) == SelectSeq(s, LAMBDA m : m.t = "dg")
\* sender attribution, addressing and contents: every datagram anywhere on its way to c was pushed by
\* the connection it names, addressed to c's key, and carries the sender's key and the pushed contents
PacketsWellAddressed == \A c \in Conns : \A i \in 1..Len(AllItems(c)) :
   LET m == AllItems(c)[i] IN
   m.t = "dg" => /\ m.id \in 1..Len(sent)
                 /\ sent[m.id].from = m.from /\ sent[m.id].dst = KeyOf[c] /\ sent[m.id].cls = m.cls
                 /\ m.src = KeyOf[m.from]
\* at most once, anywhere
AtMostOnce == \A c, d \in Conns : \A i \in 1..Len(Dgs(AllItems(c))) : \A j \in 1..Len(Dgs(AllItems(d))) :
   (Dgs(AllItems(c))[i].id = Dgs(AllItems(d))[j].id) => (c = d /\ i = j)
\* order per sending connection (ids are issued in push order)
FifoPerSender == \A c \in Conns : \A i, j \in 1..Len(Dgs(AllItems(c))) :
   (i < j /\ Dgs(AllItems(c))[i].from = Dgs(AllItems(c))[j].from) => Dgs(AllItems(c))[i].id < Dgs(AllItems(c))[j].id
\* accepted only by the connection that is the destination's active one at that moment
AcceptedByActiveOnly ==
  [][ \A c \in Conns : Len(pktq'[c]) > Len(pktq[c]) => active[KeyOf[c]] = c /\ Live(c) ]_vars
\* only forwardable frames are ever written, and nothing is written that is not a datagram, a status,
\* a peer-gone or a pong
WireClean == \A c \in Conns : \A i \in 1..Len(wire[c]) :
   /\ wire[c][i].t \in {"dg", "same", "healthy", "gone", "pong"}
   /\ wire[c][i].t = "dg" => Deliverable(wire[c][i].cls)

\* ---- C05: nobody is taken down by another client's frame
Isolation == \A c \in Conns : killedBy[c] \in {NoCause, "self", "disconnect"}
\* reading a frame of c changes the life cycle of no other connection
ReadTouchesOnlySelf ==
  [][ \A c \in Conns : (inq'[c] # inq[c] /\ Len(inq'[c]) < Len(inq[c]) /\ cstate'[c] # "gone")
        => \A d \in Conns \ {c} : cstate'[d] = cstate[d] ]_vars
\* a connection leaves "registered" only through its own stream, its own transport, or a disconnect request
LeavesOnlyForOwnReasons ==
  [][ \A c \in Conns : (cstate[c] = "registered" /\ cstate'[c] # "registered") =>
        \/ c \in revoked'                                              \* Disconnect / DisconnectKey
        \/ (inq[c] # <<>> /\ inq'[c] = Tail(inq[c]) /\ killedBy'[c] = "self")   \* reading a frame of its own (eof, rejected, unforwardable)
        \/ (inq'[c] = inq[c] /\ killedBy'[c] = "self" /\ \A d \in Conns \ {c} : pktq'[d] = pktq[d] /\ wire'[d] = wire[d])
        \/ c \in broken ]_vars                                         \* own transport failed

\* ---- C08 (used by RelayAdmission): a revoked connection is not served
RevokedNotServed == \A c \in revoked : cstate[c] # "registered"

\* ---- liveness: every connection that left "registered" is eventually unregistered,
\* provided its client reads or its transport fails (no eternal stall)
EventuallyGone == \A c \in Conns : (cstate[c] \in {"cancelled", "exiting"}) ~> (cstate[c] = "gone" \/ c \in stalled)
=============================================================================
