------------------------- MODULE MC_RelayAdmission -------------------------
(* Instances of RelayAdmission: c1, c2 are connections of endpoint A (they displace each other),
   c3 is a connection of endpoint B. *)
EXTENDS RelayAdmission
MC_KeyOf == [c \in Conns |-> IF c = "c3" THEN "B" ELSE "A"]
=============================================================================
