\* anti-vacuity: the deliberately weakened servers (Weak # "none") must violate one of these
SPECIFICATION Spec
INVARIANT NoImpersonation HonestOutcome
CHECK_DEADLOCK FALSE
CONSTANTS
  Victim = "k1"
  AdvKey = "k2"
  Materials = {"m1", "m2"}
  NoMat = "nomat"
  Policies = {"allow", "deny", "deny_reason"}
