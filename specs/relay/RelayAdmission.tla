--------------------------- MODULE RelayAdmission ---------------------------
(* C07 — access control sees exactly one disconnect per admitted relay connection.

   Models one relay connection from the upgraded stream to the end of its actor, with explicit
   ownership of the OnDisconnectGuard and a fault point at every stream operation:

     Inner::accept (iroh-relay/src/server/http_server.rs) = handshake::serverside,
     ClientRequest::new, SuccessfulAuthentication::authorize_with (protos/handshake.rs),
     Config::new, Clients::register (server/clients.rs); then Actor::run / run_inner
     (server/client.rs), Clients::unregister, Drop for OnDisconnectGuard (server.rs).

   Stream operations.  write_frame() in handshake.rs is `io.send(bytes)` (poll_ready, start_send,
   poll_flush) followed by `io.flush()`: four operations WF4 = ready, write, flush, flush.  The actor's
   write_frame() is `stream.send(frame)`: WF3 = ready, write, flush, and every loop iteration ends
   with one more `stream.flush()`.  A read is one operation.  IoStep(c) performs the next operation
   of the frame in progress, IoFail(c) makes it fail (while faults < MaxFaults): during admission the
   `?` unwinds accept() (Unwind: a guard owned by the unwinding frames is dropped), in the actor
   run_inner() returns Err and the actor unregisters.

   Actions (one per statement / await point):
     Start(c)        serverside(): key-material header accepted (no I/O) or challenge written
     ReadAuth, Verify(c)   read ClientAuth; bad signature -> ServerDeniesAuth written, Err
     NewRequest(c)   ClientRequest::new: ConnectionId::next()
     OnConnect(c)    AccessControl::on_connect -> Allow | Deny (Deny: ServerDeniesAuth written, Err)
     MakeGuard(c)    OnDisconnectGuard::for_access_control, *before* the confirmation is written
     RetGuard(c)     authorize_with returns the guard to accept()
     BuildConfig(c)  Config::new(guard, ..)
     Register(c)     Clients::register -> Client::new moves the guard into the spawned actor
     SvcPing / SvcDeliver / ActorMsg / LoopFlush     actor select arms (client ping -> pong; packet
                     from the queue; status message after being displaced; per-iteration flush)
     SvcTick / SvcPongBack / PongTimeout             keep-alive: the server's Ping is written when the
                     ping interval fires, the client's Pong is read, or PingTracker::timeout ends the actor
     Displace(c)     another connection of the same endpoint registers (not tracked further)
     Close(c)        the client closes: the actor reads end-of-stream
     Disconnect(c)   Clients::disconnect(endpoint, Some(id) | None) -> start_shutdown()
     Shutdown        Clients::shutdown(): entries removed, all actors cancelled
     CancelObserved(c)  `done.cancelled()` arm: final flush, break
     Exit(c)         Clients::unregister(self.guard, ..): registry update; the guard moves in
     DropGuard(c)    the guard is dropped at the end of unregister(): on_disconnect

   Second fault class (Panics): instead of returning an error the stream adapter may panic inside any
   stream operation (IoPanic).  The panic unwinds the task that polled the stream - the task running
   accept() during admission, the connection actor's task afterwards (tokio catches it at the task
   boundary).  TaskUnwind(c): every local of the unwinding frames is dropped, among them the guard
   wherever it currently lives (authorize_with / accept / Config / the Actor struct), so the policy
   still sees exactly one disconnect.  Clients::unregister is *not* run by a panicking actor: the
   registry keeps a stale entry for the dead connection ("crashed") until the endpoint's entry is
   replaced, promoted over or shut down - that is the code's behaviour, not part of C07.
   SilentUnwind = TRUE models a Drop that stays silent while `std::thread::panicking()`; TLC must
   refute ExactlyOnceAtEnd for it.

   GuardLate = TRUE is the mutation "guard constructed after the confirmation write" (anti-vacuity):
   TLC must refute ExactlyOnceAtEnd for it.

   The access-control log is kept as per-connection counters (nconn, ndisc, the ids reported), not as
   one global sequence: the property is per connection and the order across connections is not
   determined by the code. *)
EXTENDS Naturals, Sequences, FiniteSets, TLC, Json
CONSTANTS Conns, Keys, KeyOf,
          MaxFaults,          \* stream operations that may fail in one behaviour
          Script,             \* what each client does once served: "none" | "ping" | "full" (see SvcScript)
          Causes,             \* how a served connection ends: "close" "disc_id" "disc_key" "shutdown" "displaced"
          Helper,             \* TRUE: Displace(c) models an untracked newer connection of the same endpoint
          QuiescentEnv,       \* TRUE: the environment acts only while every connection is at rest (what a harness can force)
          Paths, Proofs,      \* subsets of {"km", "challenge"} / BOOLEAN explored by Start / Verify
          GuardLate,
          Panics,             \* TRUE: a stream operation may also *panic* (bug in the embedder's stream adapter)
          SilentUnwind        \* TRUE: the guard's Drop does nothing while the thread is unwinding (anti-vacuity)

None == "none"
SvcScript == IF Script = "full" THEN <<"ping", "deliver", "tick", "pongback", "tick">>
             ELSE IF Script = "ping" THEN <<"ping">> ELSE <<>>
WF4 == <<"ready", "write", "flush", "flush">>
WF3 == <<"ready", "write", "flush">>
RD  == <<"read">>
FL  == <<"flush">>

VARIABLES pc, cont, frame, io, opn,  \* control: state, continuation / frame / remaining ops / ops done of the I/O in progress
          owner,      \* who owns the guard: "none" "authorize" "accept" "config" "actor" "unregister" "dropped"
          id, nextId, \* ConnectionId (0 = not assigned)
          nconn, allowed, ndisc, discId,     \* what the access control saw
          reg,        \* connection reached Clients::register
          active, inactive,                  \* registry
          cancelled, msgq, svc, cause, displaced, pinged,
          shut, faults, faultAt, ownerAtFault,
          hist,       \* per connection: the steps taken (scenario for the harness)
          order       \* global order of the environment's steps: <<connection, event>>
cvars == <<pc, cont, frame, io, opn>>
vars == <<pc, cont, frame, io, opn, owner, id, nextId, nconn, allowed, ndisc, discId, reg, active, inactive,
          cancelled, msgq, svc, cause, displaced, pinged, shut, faults, faultAt, ownerAtFault, hist, order>>

Init ==
  /\ pc = [c \in Conns |-> "idle"] /\ cont = [c \in Conns |-> "-"] /\ frame = [c \in Conns |-> "-"]
  /\ io = [c \in Conns |-> <<>>] /\ opn = [c \in Conns |-> 0]
  /\ owner = [c \in Conns |-> "none"] /\ id = [c \in Conns |-> 0] /\ nextId = 1
  /\ nconn = [c \in Conns |-> 0] /\ allowed = [c \in Conns |-> "-"] /\ ndisc = [c \in Conns |-> 0]
  /\ discId = [c \in Conns |-> 0] /\ reg = [c \in Conns |-> FALSE]
  /\ active = [k \in Keys |-> None] /\ inactive = [k \in Keys |-> <<>>]
  /\ cancelled = [c \in Conns |-> FALSE] /\ msgq = [c \in Conns |-> 0] /\ svc = [c \in Conns |-> 0]
  /\ cause = [c \in Conns |-> "-"] /\ displaced = [c \in Conns |-> FALSE] /\ pinged = [c \in Conns |-> FALSE]
  /\ shut = FALSE /\ faults = 0 /\ faultAt = [c \in Conns |-> "-"] /\ ownerAtFault = [c \in Conns |-> "-"]
  /\ hist = [c \in Conns |-> <<>>] /\ order = <<>>

Log(c, l) == hist' = [hist EXCEPT ![c] = Append(@, l)] /\ UNCHANGED order
\* a step of the environment: logged per connection and in the global order
Env(c, e, f) == /\ hist' = [hist EXCEPT ![c] = Append(@, [ev |-> e, f |-> f, op |-> "-", ok |-> TRUE])]
                /\ order' = Append(order, <<c, e>>)
AtRest == \A c \in Conns : /\ pc[c] \in {"idle", "rejected", "gone", "crashed", "serve"}
                           /\ pc[c] = "serve" => (msgq[c] = 0 /\ ~cancelled[c])
EnvOk == QuiescentEnv => AtRest
Goto(c, p) == pc' = [pc EXCEPT ![c] = p] /\ UNCHANGED <<cont, frame, io, opn>>
BeginIo(c, f, ops, k) == /\ pc' = [pc EXCEPT ![c] = "io"] /\ cont' = [cont EXCEPT ![c] = k]
                         /\ frame' = [frame EXCEPT ![c] = f] /\ io' = [io EXCEPT ![c] = ops]
                         /\ opn' = [opn EXCEPT ![c] = 0]
InService(c) == owner[c] = "actor"
InRegistry(c) == LET k == KeyOf[c] IN active[k] = c \/ \E i \in 1..Len(inactive[k]) : inactive[k][i] = c
OpLabel(c) == [f |-> frame[c], op |-> Head(io[c]), n |-> opn[c] + 1]

\* ---------------- stream operations ----------------
IoStep(c) ==
  /\ pc[c] = "io" /\ io[c] # <<>>
  /\ io' = [io EXCEPT ![c] = Tail(@)] /\ opn' = [opn EXCEPT ![c] = @ + 1]
  /\ pc' = [pc EXCEPT ![c] = IF Tail(io[c]) = <<>> THEN cont[c] ELSE "io"]
  /\ Log(c, [ev |-> "io", f |-> frame[c], op |-> Head(io[c]), ok |-> TRUE])
  /\ UNCHANGED <<cont, frame, owner, id, nextId, nconn, allowed, ndisc, discId, reg, active, inactive,
                 cancelled, msgq, svc, cause, displaced, pinged, shut, faults, faultAt, ownerAtFault>>

IoFail(c) ==
  /\ pc[c] = "io" /\ io[c] # <<>> /\ faults < MaxFaults
  /\ faults' = faults + 1
  /\ faultAt' = [faultAt EXCEPT ![c] = frame[c]] /\ ownerAtFault' = [ownerAtFault EXCEPT ![c] = owner[c]]
  /\ io' = [io EXCEPT ![c] = <<>>] /\ UNCHANGED <<cont, frame, opn>>
  /\ pc' = [pc EXCEPT ![c] = IF InService(c) THEN "exit" ELSE "unwind"]
  /\ Log(c, [ev |-> "io", f |-> frame[c], op |-> Head(io[c]), ok |-> FALSE])
  /\ UNCHANGED <<owner, id, nextId, nconn, allowed, ndisc, discId, reg, active, inactive,
                 cancelled, msgq, svc, cause, displaced, pinged, shut>>

\* the stream adapter panics inside the operation: the polling task unwinds
IoPanic(c) ==
  /\ Panics /\ pc[c] = "io" /\ io[c] # <<>> /\ faults < MaxFaults
  /\ faults' = faults + 1
  /\ faultAt' = [faultAt EXCEPT ![c] = frame[c]] /\ ownerAtFault' = [ownerAtFault EXCEPT ![c] = owner[c]]
  /\ io' = [io EXCEPT ![c] = <<>>] /\ UNCHANGED <<cont, frame, opn>>
  /\ pc' = [pc EXCEPT ![c] = "panicking"]
  /\ Log(c, [ev |-> "panic", f |-> frame[c], op |-> Head(io[c]), ok |-> FALSE])
  /\ UNCHANGED <<owner, id, nextId, nconn, allowed, ndisc, discId, reg, active, inactive,
                 cancelled, msgq, svc, cause, displaced, pinged, shut>>

\* unwinding drops the frames' locals / the Actor struct and with them the guard; no unregister
TaskUnwind(c) ==
  /\ pc[c] = "panicking"
  /\ Goto(c, IF owner[c] = "actor" THEN "crashed" ELSE "rejected")
  /\ IF owner[c] \in {"authorize", "accept", "config", "actor"}
        THEN /\ owner' = [owner EXCEPT ![c] = "dropped"]
             /\ IF SilentUnwind THEN UNCHANGED <<ndisc, discId>>
                ELSE ndisc' = [ndisc EXCEPT ![c] = @ + 1] /\ discId' = [discId EXCEPT ![c] = id[c]]
        ELSE UNCHANGED <<owner, ndisc, discId>>
  /\ UNCHANGED <<id, nextId, nconn, allowed, reg, active, inactive, cancelled, msgq, svc, cause, displaced, pinged, shut,
                 faults, faultAt, ownerAtFault, hist, order>>

\* ---------------- admission: Inner::accept ----------------
Rest == <<owner, id, nextId, nconn, allowed, ndisc, discId, reg, active, inactive, cancelled, msgq, svc, cause,
          displaced, pinged, shut, faults, faultAt, ownerAtFault>>

Start(c) ==
  /\ pc[c] = "idle" /\ ~shut /\ EnvOk
  /\ \E path \in {"km", "challenge"} :
       /\ path \in Paths
       /\ IF path = "km" THEN Goto(c, "new_request") ELSE BeginIo(c, "challenge", WF4, "read_auth")
       /\ Env(c, "start", path)
  /\ UNCHANGED Rest

ReadAuth(c) == /\ pc[c] = "read_auth" /\ BeginIo(c, "auth", RD, "verify")
               /\ UNCHANGED <<hist, order>> /\ UNCHANGED Rest

Verify(c) ==
  /\ pc[c] = "verify"
  /\ \E good \in BOOLEAN :
       /\ good \in Proofs
       /\ IF good THEN Goto(c, "new_request") ELSE BeginIo(c, "deny_sig", WF4, "unwind")
       /\ Log(c, [ev |-> "verify", f |-> "-", op |-> "-", ok |-> good])
  /\ UNCHANGED Rest

NewRequest(c) ==
  /\ pc[c] = "new_request" /\ Goto(c, "on_connect")
  /\ id' = [id EXCEPT ![c] = nextId] /\ nextId' = nextId + 1
  /\ UNCHANGED <<owner, nconn, allowed, ndisc, discId, reg, active, inactive, cancelled, msgq, svc, cause,
                 displaced, pinged, shut, faults, faultAt, ownerAtFault, hist, order>>

OnConnect(c) ==
  /\ pc[c] = "on_connect"
  /\ nconn' = [nconn EXCEPT ![c] = @ + 1]
  /\ \E d \in {"allow", "deny"} :
       /\ allowed' = [allowed EXCEPT ![c] = d]
       /\ IF d = "deny" THEN BeginIo(c, "deny", WF4, "unwind")
          ELSE IF GuardLate THEN BeginIo(c, "confirm", WF4, "make_guard")
          ELSE Goto(c, "make_guard")
       /\ Log(c, [ev |-> "on_connect", f |-> d, op |-> "-", ok |-> TRUE])
  /\ UNCHANGED <<owner, id, nextId, ndisc, discId, reg, active, inactive, cancelled, msgq, svc, cause,
                 displaced, pinged, shut, faults, faultAt, ownerAtFault>>

MakeGuard(c) ==
  /\ pc[c] = "make_guard" /\ owner' = [owner EXCEPT ![c] = "authorize"]
  /\ IF GuardLate THEN Goto(c, "ret_guard") ELSE BeginIo(c, "confirm", WF4, "ret_guard")
  /\ UNCHANGED <<id, nextId, nconn, allowed, ndisc, discId, reg, active, inactive, cancelled, msgq, svc, cause,
                 displaced, pinged, shut, faults, faultAt, ownerAtFault, hist, order>>

RetGuard(c) ==
  /\ pc[c] = "ret_guard" /\ owner' = [owner EXCEPT ![c] = "accept"] /\ Goto(c, "build_config")
  /\ UNCHANGED <<id, nextId, nconn, allowed, ndisc, discId, reg, active, inactive, cancelled, msgq, svc, cause,
                 displaced, pinged, shut, faults, faultAt, ownerAtFault, hist, order>>

BuildConfig(c) ==
  /\ pc[c] = "build_config" /\ owner' = [owner EXCEPT ![c] = "config"] /\ Goto(c, "register")
  /\ UNCHANGED <<id, nextId, nconn, allowed, ndisc, discId, reg, active, inactive, cancelled, msgq, svc, cause,
                 displaced, pinged, shut, faults, faultAt, ownerAtFault, hist, order>>

\* Clients::register: the guard moves into the spawned actor; an older connection is deactivated
Register(c) ==
  LET k == KeyOf[c]  old == active[k] IN
  /\ pc[c] = "register" /\ owner' = [owner EXCEPT ![c] = "actor"] /\ Goto(c, "serve")
  /\ reg' = [reg EXCEPT ![c] = TRUE]
  /\ active' = [active EXCEPT ![k] = c]
  /\ inactive' = IF old = None THEN inactive ELSE [inactive EXCEPT ![k] = Append(@, old)]
  /\ msgq' = IF old = None THEN msgq ELSE [msgq EXCEPT ![old] = @ + 1]      \* SameEndpointIdConnected
  /\ Log(c, [ev |-> "register", f |-> "-", op |-> "-", ok |-> TRUE])
  /\ UNCHANGED <<id, nextId, nconn, allowed, ndisc, discId, cancelled, svc, cause, displaced, pinged, shut, faults,
                 faultAt, ownerAtFault>>

\* the `?` leaves accept(): locals are dropped, among them a guard that was already created
Unwind(c) ==
  /\ pc[c] = "unwind" /\ Goto(c, "rejected")
  /\ IF owner[c] \in {"authorize", "accept", "config"}
        THEN /\ owner' = [owner EXCEPT ![c] = "dropped"]
             /\ ndisc' = [ndisc EXCEPT ![c] = @ + 1] /\ discId' = [discId EXCEPT ![c] = id[c]]
        ELSE UNCHANGED <<owner, ndisc, discId>>
  /\ UNCHANGED <<id, nextId, nconn, allowed, reg, active, inactive, cancelled, msgq, svc, cause, displaced, pinged, shut,
                 faults, faultAt, ownerAtFault, hist, order>>

\* ---------------- service: Actor::run_inner ----------------
Serving(c) == pc[c] = "serve" /\ ~cancelled[c]       \* `biased`: the cancellation arm comes first
SvcRest == <<owner, id, nextId, nconn, allowed, ndisc, discId, reg, active, inactive, cancelled, msgq, cause,
             displaced, pinged, shut, faults, faultAt, ownerAtFault>>

SvcPing(c) ==      \* stream.next() returns a client Ping; handle_frame writes the Pong
  /\ Serving(c) /\ svc[c] < Len(SvcScript) /\ SvcScript[svc[c] + 1] = "ping" /\ EnvOk
  /\ svc' = [svc EXCEPT ![c] = @ + 1] /\ BeginIo(c, "ping", RD, "do_pong")
  /\ Env(c, "ping", "-") /\ UNCHANGED SvcRest
DoPong(c) == /\ pc[c] = "do_pong" /\ BeginIo(c, "pong", WF3, "loop_flush")
             /\ UNCHANGED <<svc, hist, order>> /\ UNCHANGED SvcRest
SvcDeliver(c) ==   \* a packet from another client arrives in packet_send_queue
  /\ Serving(c) /\ svc[c] < Len(SvcScript) /\ SvcScript[svc[c] + 1] = "deliver" /\ EnvOk
  /\ svc' = [svc EXCEPT ![c] = @ + 1] /\ BeginIo(c, "packet", WF3, "loop_flush")
  /\ Env(c, "deliver", "-") /\ UNCHANGED SvcRest
SvcRest2 == <<owner, id, nextId, nconn, allowed, ndisc, discId, reg, active, inactive, cancelled, msgq, cause,
              displaced, shut, faults, faultAt, ownerAtFault>>
SvcTick(c) ==      \* ping_interval.tick(): the server's keep-alive Ping is written (PING_INTERVAL + jitter passed)
  /\ Serving(c) /\ svc[c] < Len(SvcScript) /\ SvcScript[svc[c] + 1] = "tick" /\ EnvOk
  /\ svc' = [svc EXCEPT ![c] = @ + 1] /\ BeginIo(c, "srvping", WF3, "loop_flush")
  /\ pinged' = [pinged EXCEPT ![c] = TRUE]
  /\ Env(c, "tick", "-") /\ UNCHANGED SvcRest2
SvcPongBack(c) ==  \* the client answers the keep-alive: stream.next() returns Pong, ping_tracker.pong_received
  /\ Serving(c) /\ svc[c] < Len(SvcScript) /\ SvcScript[svc[c] + 1] = "pongback" /\ EnvOk /\ pinged[c]
  /\ svc' = [svc EXCEPT ![c] = @ + 1] /\ BeginIo(c, "pongback", RD, "loop_flush")
  /\ pinged' = [pinged EXCEPT ![c] = FALSE]
  /\ Env(c, "pongback", "-") /\ UNCHANGED SvcRest2
ActorMsg(c) ==     \* message_send_queue: status after being displaced
  /\ Serving(c) /\ msgq[c] > 0
  /\ msgq' = [msgq EXCEPT ![c] = @ - 1] /\ BeginIo(c, "status", WF3, "loop_flush")
  /\ UNCHANGED <<owner, id, nextId, nconn, allowed, ndisc, discId, reg, active, inactive, cancelled, svc, cause,
                 displaced, pinged, shut, faults, faultAt, ownerAtFault, hist, order>>
LoopFlush(c) == /\ pc[c] = "loop_flush" /\ BeginIo(c, "loop", FL, "serve")
                /\ UNCHANGED <<svc, hist, order>> /\ UNCHANGED SvcRest

ScriptDone(c) == Serving(c) /\ svc[c] = Len(SvcScript) /\ msgq[c] = 0
PongTimeout(c) ==  \* ping_tracker.timeout(): no pong within PING_TIMEOUT: break, no final flush
  /\ ScriptDone(c) /\ pinged[c] /\ cause[c] = "-" /\ "pong_timeout" \in Causes /\ EnvOk
  /\ cause' = [cause EXCEPT ![c] = "pong_timeout"] /\ Goto(c, "exit")
  /\ Env(c, "pong_timeout", "-")
  /\ UNCHANGED <<owner, id, nextId, nconn, allowed, ndisc, discId, reg, active, inactive, cancelled, msgq, svc,
                 displaced, pinged, shut, faults, faultAt, ownerAtFault>>
\* another connection of the same endpoint registers (Helper: not tracked as a connection of its own)
Displace(c) ==
  /\ Helper /\ "displaced" \in Causes /\ ScriptDone(c) /\ cause[c] = "-" /\ active[KeyOf[c]] = c /\ EnvOk
  /\ cause' = [cause EXCEPT ![c] = "displaced"] /\ displaced' = [displaced EXCEPT ![c] = TRUE]
  /\ msgq' = [msgq EXCEPT ![c] = @ + 1]
  /\ Env(c, "displace", "-")
  /\ UNCHANGED <<owner, id, nextId, nconn, allowed, ndisc, discId, reg, active, inactive, cancelled, svc, pinged, shut,
                 faults, faultAt, ownerAtFault>> /\ UNCHANGED cvars
Close(c) ==
  /\ ScriptDone(c) /\ ((cause[c] = "-" /\ "close" \in Causes) \/ cause[c] = "displaced") /\ EnvOk
  /\ cause' = [cause EXCEPT ![c] = IF @ = "-" THEN "close" ELSE @]
  /\ BeginIo(c, "eof", RD, "exit")
  /\ Env(c, "close", "-")
  /\ UNCHANGED <<owner, id, nextId, nconn, allowed, ndisc, discId, reg, active, inactive, cancelled, msgq, svc,
                 displaced, pinged, shut, faults, faultAt, ownerAtFault>>
Disconnect(c, how) ==
  /\ ScriptDone(c) /\ cause[c] = "-" /\ how \in Causes /\ InRegistry(c) /\ EnvOk
  /\ cause' = [cause EXCEPT ![c] = how]
  /\ cancelled' = IF how = "disc_id" THEN [cancelled EXCEPT ![c] = TRUE]
                  ELSE [d \in Conns |-> cancelled[d] \/ (KeyOf[d] = KeyOf[c] /\ InRegistry(d))]
  /\ Env(c, how, "-")
  /\ UNCHANGED <<owner, id, nextId, nconn, allowed, ndisc, discId, reg, active, inactive, msgq, svc, displaced, pinged,
                 shut, faults, faultAt, ownerAtFault>> /\ UNCHANGED cvars
\* Clients::shutdown (the supervisor has stopped accepting: no connection is inside accept())
Shutdown ==
  /\ "shutdown" \in Causes /\ ~shut /\ shut' = TRUE
  /\ \A c \in Conns : pc[c] \in {"idle", "rejected", "gone", "crashed", "drop", "exit"} \/ InService(c)
  /\ EnvOk
  /\ \E c \in Conns : reg[c]
  /\ cancelled' = [c \in Conns |-> cancelled[c] \/ InRegistry(c)]
  /\ cause' = [c \in Conns |-> IF cause[c] = "-" /\ InRegistry(c) /\ pc[c] \notin {"exit", "drop", "crashed", "panicking"} THEN "shutdown" ELSE cause[c]]
  /\ active' = [k \in Keys |-> None] /\ inactive' = [k \in Keys |-> <<>>]
  /\ hist' = [c \in Conns |-> IF InRegistry(c) /\ pc[c] # "crashed" THEN Append(hist[c], [ev |-> "shutdown", f |-> "-", op |-> "-", ok |-> TRUE]) ELSE hist[c]]
  /\ order' = Append(order, <<"-", "shutdown">>)
  /\ UNCHANGED <<owner, id, nextId, nconn, allowed, ndisc, discId, reg, msgq, svc, displaced, pinged, faults, faultAt, ownerAtFault>>
  /\ UNCHANGED cvars

CancelObserved(c) ==
  /\ pc[c] = "serve" /\ cancelled[c] /\ BeginIo(c, "final", FL, "exit")
  /\ UNCHANGED <<svc, hist, order>> /\ UNCHANGED SvcRest

RemoveFrom(s, c) == SelectSeq(s, LAMBDA x : x # c)
\* Clients::unregister(self.guard, ..)
Exit(c) ==
  LET k == KeyOf[c] IN
  /\ pc[c] = "exit" /\ owner' = [owner EXCEPT ![c] = "unregister"] /\ Goto(c, "drop")
  /\ IF active[k] = c
        THEN IF inactive[k] # <<>>
                THEN /\ active' = [active EXCEPT ![k] = inactive[k][Len(inactive[k])]]
                     /\ inactive' = [inactive EXCEPT ![k] = SubSeq(@, 1, Len(@) - 1)]
                     /\ msgq' = [msgq EXCEPT ![inactive[k][Len(inactive[k])]] = @ + 1]     \* Healthy
                ELSE active' = [active EXCEPT ![k] = None] /\ UNCHANGED <<inactive, msgq>>
        ELSE inactive' = [inactive EXCEPT ![k] = RemoveFrom(@, c)] /\ UNCHANGED <<active, msgq>>
  /\ UNCHANGED <<id, nextId, nconn, allowed, ndisc, discId, reg, cancelled, svc, cause, displaced, pinged, shut, faults,
                 faultAt, ownerAtFault, hist, order>>
DropGuard(c) ==
  /\ pc[c] = "drop" /\ Goto(c, "gone") /\ owner' = [owner EXCEPT ![c] = "dropped"]
  /\ ndisc' = [ndisc EXCEPT ![c] = @ + 1] /\ discId' = [discId EXCEPT ![c] = id[c]]
  /\ UNCHANGED <<id, nextId, nconn, allowed, reg, active, inactive, cancelled, msgq, svc, cause, displaced, pinged, shut,
                 faults, faultAt, ownerAtFault, hist, order>>

Next == \/ \E c \in Conns : \/ IoStep(c) \/ IoFail(c) \/ IoPanic(c) \/ TaskUnwind(c) \/ Start(c) \/ ReadAuth(c) \/ Verify(c) \/ NewRequest(c)
                            \/ OnConnect(c) \/ MakeGuard(c) \/ RetGuard(c) \/ BuildConfig(c) \/ Register(c) \/ Unwind(c)
                            \/ SvcPing(c) \/ DoPong(c) \/ SvcDeliver(c) \/ SvcTick(c) \/ SvcPongBack(c) \/ PongTimeout(c)
                            \/ ActorMsg(c) \/ LoopFlush(c)
                            \/ Displace(c) \/ Close(c) \/ CancelObserved(c) \/ Exit(c) \/ DropGuard(c)
        \/ \E c \in Conns, how \in {"disc_id", "disc_key"} : Disconnect(c, how)
        \/ Shutdown
Spec == Init /\ [][Next]_vars
\* server steps are fair; a started connection's client eventually closes or the server shuts down
ServerStep(c) == IoStep(c) \/ TaskUnwind(c) \/ ReadAuth(c) \/ Verify(c) \/ NewRequest(c) \/ OnConnect(c) \/ MakeGuard(c) \/ RetGuard(c)
                 \/ BuildConfig(c) \/ Register(c) \/ Unwind(c) \/ SvcPing(c) \/ DoPong(c) \/ SvcDeliver(c) \/ SvcTick(c)
                 \/ SvcPongBack(c) \/ PongTimeout(c) \/ ActorMsg(c)
                 \/ LoopFlush(c) \/ CancelObserved(c) \/ Exit(c) \/ DropGuard(c)
FairSpec == Spec /\ \A c \in Conns : WF_vars(ServerStep(c)) /\ WF_vars(Close(c))

---------------------------------------------------------------------------
(* C07 *)
Done(c) == pc[c] \in {"rejected", "gone", "crashed"}
OnConnectOnce == \A c \in Conns : nconn[c] <= 1
AtMostOneDisconnect == \A c \in Conns : ndisc[c] <= 1
\* a disconnect is reported only for an admitted connection, with the id given at admission
DisconnectOnlyAfterAllow == \A c \in Conns : ndisc[c] = 1 => nconn[c] = 1 /\ allowed[c] = "allow" /\ discId[c] = id[c] /\ id[c] # 0
\* the guard exists exactly while a disconnect is owed (the instant between on_connect and the
\* construction of the guard excepted): this is what makes "exactly once" robust
GuardConservation == \A c \in Conns :
   (owner[c] \in {"authorize", "accept", "config", "actor", "unregister"})
      <=> (allowed[c] = "allow" /\ ndisc[c] = 0 /\ pc[c] # "make_guard")
\* a connection the policy denies (or that never got to the policy) is never registered
DeniedNeverRegistered == \A c \in Conns : reg[c] => (nconn[c] = 1 /\ allowed[c] = "allow")
\* the registry holds registered, unfinished connections - and stale entries of crashed actors
RegistryOnlyLive == \A c \in Conns : InRegistry(c) => (reg[c] /\ pc[c] \notin {"gone", "drop", "rejected"})
IdsDistinct == \A c, d \in Conns : (c # d /\ id[c] # 0) => id[c] # id[d]
\* when a connection is over, the policy has seen exactly one disconnect iff it admitted it
ExactlyOnceAtEnd == \A c \in Conns : Done(c) => ndisc[c] = (IF allowed[c] = "allow" THEN 1 ELSE 0)
\* ... and every admitted connection gets there
AdmittedEventuallyDisconnected == \A c \in Conns : (allowed[c] = "allow") ~> (ndisc[c] = 1)
Monotone == [][ \A c \in Conns : ndisc'[c] >= ndisc[c] /\ nconn'[c] >= nconn[c] /\ (id[c] # 0 => id'[c] = id[c]) ]_vars

\* exhaustive runs hide the step log
View == <<pc, cont, frame, io, opn, owner, id, nextId, nconn, allowed, ndisc, discId, reg, active, inactive,
          cancelled, msgq, svc, cause, displaced, pinged, shut, faults, faultAt, ownerAtFault>>

\* scenario generator (single connection): one REPLAY line per finished behaviour
AllDone == \A c \in Conns : Done(c)
Emit == AllDone => PrintT(<<"REPLAY", ToJson(
          [order |-> order, conns |-> [c \in Conns |->
             [steps |-> hist[c], cause |-> cause[c], fault |-> faultAt[c], owner_at_fault |-> ownerAtFault[c],
              nconn |-> nconn[c], allowed |-> allowed[c], ndisc |-> ndisc[c], registered |-> reg[c]]]])>>)
=============================================================================
