\* required design for operation sequences (one thread): alias check; behaviours are emitted (Record)
SPECIFICATION SpecLocks
INVARIANT TypeOK LocksConsistent LocksFreeWhenIdle NeverBlocksForever ClonesAgree Emit
PROPERTY InsertIsMapInsert RemoveIsMapRemove TokenSetsAllPresent ExtendIsUnion EqChangesNothing
CHECK_DEADLOCK FALSE
CONSTANTS
  Handles = {"a", "a2", "b"}
  ObjOf <- MC_ObjOf
  Urls = {"u1", "u2"}
  Tokens = {7}
