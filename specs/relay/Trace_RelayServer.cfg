SPECIFICATION TSpec
INVARIANT Track TypeOK RegistryShape NewestWins PacketsWellAddressed AtMostOnce FifoPerSender WireClean Isolation
PROPERTY GoneOnlyOnEntryRemoval StatusToTheRightOne AcceptedByActiveOnly
POSTCONDITION Accepted
CHECK_DEADLOCK FALSE
CONSTANTS
  Conns <- Trace_Conns
  KeyOf <- Trace_KeyOf
  Keys = {"A", "B", "Z"}
  NoConn = "none"
  LateCancel = TRUE
  PktCap = 2
  MsgCap = 2
  MaxFrames = 100000
  InqCap = 100000
  Classes = {"normal", "batch", "ecn", "maxm1", "bmaxm1", "empty", "ebatch", "maxlen", "bmax", "ping", "pong", "reject"}
  FixUndeliverable = TRUE
  FixRevoke = FALSE
