\* liveness of the required design under weak fairness of the server steps and of the return of blocked calls
SPECIFICATION FairSpec
INVARIANT RevokedNotServed
PROPERTY RevokedEventuallyGone BlockedCallsReturn
CHECK_DEADLOCK FALSE
CONSTANTS
  Conns = {"t", "t2", "b"}
  Keys = {"A", "B"}
  KeyOf <- MC_KeyOf
  ConnOrder <- MC_Order
  Targets = {"t", "t2"}
  InOrder = FALSE
  DiscAfterSetup = FALSE
  PromptRet = FALSE
