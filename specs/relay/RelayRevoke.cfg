\* exhaustive check of the design the property requires (FixRevoke = TRUE by default; overridden for the refutation run)
SPECIFICATION FairSpec
INVARIANT RevokedNotServed NoServiceAfterRevoke RegistryShape PendingOnlyAdmitted
PROPERTY OthersUnaffected RevokedEventuallyGone
CHECK_DEADLOCK FALSE
CONSTANTS
  Conns = {"t", "t2", "b"}
  Keys = {"A", "B"}
  KeyOf <- MC_KeyOf
  ConnOrder <- MC_Order
  Targets = {"t", "t2"}
