\* exhaustive safety check (fault enumeration), guard ownership as in the code unless GuardLate is overridden
SPECIFICATION Spec
VIEW View
INVARIANT OnConnectOnce AtMostOneDisconnect DisconnectOnlyAfterAllow GuardConservation DeniedNeverRegistered
INVARIANT RegistryOnlyLive IdsDistinct ExactlyOnceAtEnd
PROPERTY Monotone
CHECK_DEADLOCK FALSE
CONSTANTS
  Keys = {"A", "B"}
  KeyOf <- MC_KeyOf
  Causes = {"close", "disc_id", "disc_key", "shutdown", "displaced", "pong_timeout"}
  QuiescentEnv = FALSE
  Helper = TRUE
