\* exhaustive check, guard ownership as in the code (GuardLate = FALSE unless overridden)
SPECIFICATION FairSpec
VIEW View
INVARIANT OnConnectOnce AtMostOneDisconnect DisconnectOnlyAfterAllow GuardConservation DeniedNeverRegistered
INVARIANT RegistryOnlyLive IdsDistinct ExactlyOnceAtEnd
PROPERTY Monotone AdmittedEventuallyDisconnected
CHECK_DEADLOCK FALSE
CONSTANTS
  Keys = {"A", "B"}
  KeyOf <- MC_KeyOf
  Causes = {"close", "disc_id", "disc_key", "shutdown"}
  QuiescentEnv = FALSE
  Paths = {"km", "challenge"}
  Proofs = {TRUE, FALSE}
  Helper = FALSE
