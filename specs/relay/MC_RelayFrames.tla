--------------------------- MODULE MC_RelayFrames ---------------------------
(* Length candidates for RelayFrames: every per-type boundary +-1 and every size limit +-1
   (sender limit: contents of MAX-34 / MAX-36 bytes; decoder limit: MAX-33 / MAX-35). *)
EXTENDS RelayFrames
MC_Lens == {0, 1, 2, 3, 7, 8, 9, 31, 32, 33, 1199, 1200, 1201} \cup ((MAX - 40)..(MAX + 1))
MC_AdvLens == {0, 1, 2, 3, 7, 8, 9, 31, 32, 33, 34, 35, 36, 40, MAX - 1, MAX, MAX + 1}
MC_AdvTags == (0..14) \cup {63, 64, 16384, 1073741824}
=============================================================================
