-------------------------- MODULE RelayHandshake --------------------------
(* C03 — relay handshake admits an identity only with proof of its secret key.

   Models iroh-relay/src/protos/handshake.rs with symbolic (Dolev-Yao) cryptography:

     server process   serverside()  +  SuccessfulAuthentication::{authorize_if, authorize_with}
       SrvHeader         decode the client-auth header (base64url, postcard) and run
                         KeyMaterialClientAuth::verify: the server exports keying material bound
                         to the *claimed* key, compares the suffix, verifies the signature
       SrvSendChallenge  write_frame(ServerChallenge::new(rng))
       SrvReadAuth       read_frame(&[ClientAuth::TAG]) + deserialize_frame + ClientAuth::verify
       SrvSendDenySig    write_frame(ServerDeniesAuth{"signature invalid"}), Err(ServerDeniedAuth)
       SrvAuthorize(p)   authorize_*: Allow -> write ServerConfirmsAuth; Deny -> write ServerDeniesAuth
     honest client    clientside() (the header is KeyMaterialClientAuth::new, sent iff the client
                      can export keying material)
       CliRead           read_frame: challenge -> sign and send ClientAuth; confirm / deny -> finish;
                         end of stream -> error
     adversary        owns AdvKey, knows every term recorded from earlier honest sessions of Victim
                      (Recorded), can compose any frame from its knowledge; a signature over this
                      session's challenge can only be composed after the challenge was sent
       AdvSend           next frame of its script
       AdvClose          closes its sending half

   Terms.  Keys and materials are strings.  A message to sign is a record
        ChalMsg(n)   = blake3::derive_key(DOMAIN_SEP_CHALLENGE, challenge n)
        KmMsg(m, k)  = first half of export_keying_material(m, label, context = key k)
   and a signature is Sig(by, over): only the owner of `by` can create such a term (unforgeability is
   assumed), everybody can replay a term that was on the wire.  The suffix in the header is the
   second half of the export, i.e. the pair [m, ctx].

   One session per behaviour; the session's parameters are chosen in Init.  The REPLAY line printed
   at every terminal state is the session together with what the model says the server must do; the
   harness (vh_relayauth c03) concretises it with real Ed25519 keys / signatures and drives the real
   serverside()/authorize_*() over an in-memory stream.

   Weak selects deliberately broken servers for the anti-vacuity runs:
     "none" the code as written; "km_nosig" key-material path checks the suffix only;
     "chal_any" challenge path accepts a signature over any challenge (replay);
     "km_noctx" key material is not bound to the claimed key. *)
EXTENDS Naturals, Sequences, FiniteSets, TLC, Json
CONSTANTS Victim, AdvKey,      \* honest key under attack / key owned by the adversary
          Materials, NoMat,    \* TLS exporter secrets; NoMat = this end cannot export (plain http, proxy)
          MaxFrames,           \* length bound of adversary scripts
          RichExtra,           \* TRUE: frames after the first range over the whole universe
          Policies,            \* subset of {"allow", "deny", "deny_reason"}
          Weak

Keys == {Victim, AdvKey}
OldChal  == 3                  \* challenge of an earlier session of Victim
ThisChal == 7                  \* the fresh challenge of this session
ASSUME OldChal # ThisChal      \* freshness of rand::rng() is assumed

ChalMsg(n)  == [t |-> "chal", c |-> n, m |-> NoMat, ctx |-> "-"]
KmMsg(m, k) == [t |-> "km",   c |-> 0, m |-> m,     ctx |-> k]
Sig(k, msg) == [by |-> k, over |-> msg]
Junk        == Sig("nobody", ChalMsg(0))          \* 64 random bytes
Sfx(m, k)   == [m |-> m, ctx |-> k]
JunkSfx     == Sfx(NoMat, "-")                    \* 16 random bytes

\* ---------------- adversary knowledge ----------------
\* Recorded from earlier honest sessions of Victim.  Assumption made explicit: those sessions had other
\* challenges and other exporter secrets than this one (TLS exporter values are per session), and the
\* victim is not concurrently tricked into signing this session's challenge.
Recorded(ms) == {Sig(Victim, ChalMsg(OldChal))} \cup {Sig(Victim, KmMsg(m, Victim)) : m \in Materials \ {ms}}
OwnStatic    == {Sig(AdvKey, msg) : msg \in {ChalMsg(OldChal)} \cup {KmMsg(m, k) : m \in Materials, k \in Keys}}
OwnFresh     == {Sig(AdvKey, ChalMsg(ThisChal))}            \* composable only after the challenge arrived
HdrSigs(ms)   == Recorded(ms) \cup OwnStatic \cup {Junk}    \* the header precedes the challenge
FrameSigs(ms) == HdrSigs(ms) \cup OwnFresh
Suffixes      == {JunkSfx} \cup {Sfx(m, k) : m \in Materials, k \in Keys}

NoHdr   == [enc |-> "absent", pk |-> "-", sig |-> Junk, sfx |-> JunkSfx]
Headers(ms) == {NoHdr, [NoHdr EXCEPT !.enc = "bad_b64"], [NoHdr EXCEPT !.enc = "bad_postcard"]}
               \cup [enc : {"ok"}, pk : Keys, sig : HdrSigs(ms), sfx : Suffixes]

NoFrame == [kind |-> "none", pk |-> "-", sig |-> Junk]
Malformed == {[NoFrame EXCEPT !.kind = k] : k \in {"wrongtag", "unknowntag", "undecodable", "empty"}}
Frames(ms) == Malformed \cup [kind : {"auth", "auth_trailing"}, pk : Keys, sig : FrameSigs(ms)]
Extras(ms) == IF RichExtra THEN Frames(ms)
              ELSE {[NoFrame EXCEPT !.kind = "undecodable"],
                    [kind |-> "auth", pk |-> Victim, sig |-> Sig(Victim, ChalMsg(OldChal))],
                    [kind |-> "auth", pk |-> AdvKey, sig |-> Sig(AdvKey, ChalMsg(ThisChal))]}
Scripts(ms) == {<<>>} \cup (IF MaxFrames >= 1 THEN {<<f>> : f \in Frames(ms)} ELSE {})
               \cup (IF MaxFrames >= 2 THEN {<<f, e>> : f \in Frames(ms), e \in Extras(ms)} ELSE {})
               \cup (IF MaxFrames >= 3 THEN {<<f, e, g>> : f \in Frames(ms), e \in Extras(ms), g \in Extras(ms)} ELSE {})

VARIABLES mode, mClient, mServer, hdr, script,     \* the session (constant during a behaviour)
          c2s,       \* frames in flight client -> server
          s2c,       \* every frame the server wrote, in order
          cread,     \* how many of them the honest client has read
          cEof,      \* the client closed its sending half
          sEof,      \* the server dropped the stream
          spc, serr, \* server control state / error class when failed
          chalOut,   \* the challenge has been written
          consumed,  \* the frame read_frame returned (NoFrame: none)
          authed,    \* result of serverside(): [ok, pk, mech]
          policy,    \* decision of the access policy ("-" until asked)
          admitted,  \* authorize_* returned Ok
          cpc, cres, \* honest client control state / denial reason
          nsent      \* adversary: frames of the script sent
params == <<mode, mClient, mServer, hdr, script>>
vars == <<mode, mClient, mServer, hdr, script, c2s, s2c, cread, cEof, sEof, spc, serr, chalOut, consumed,
          authed, policy, admitted, cpc, cres, nsent>>

SFrame(k, r) == [kind |-> k, reason |-> r]
NotAuthed == [ok |-> FALSE, pk |-> "-", mech |-> "-"]

Init ==
  /\ mode \in {"honest", "adversary"}
  /\ mServer \in Materials \cup {NoMat}
  /\ IF mode = "honest"
        THEN /\ mClient \in Materials \cup {NoMat}
             /\ hdr = IF mClient = NoMat THEN NoHdr          \* KeyMaterialClientAuth::new returns None
                      ELSE [enc |-> "ok", pk |-> Victim, sig |-> Sig(Victim, KmMsg(mClient, Victim)),
                            sfx |-> Sfx(mClient, Victim)]
             /\ script = <<>>
        ELSE /\ mClient = NoMat
             /\ hdr \in Headers(mServer)
             /\ script \in Scripts(mServer)
  /\ c2s = <<>> /\ s2c = <<>> /\ cread = 0 /\ cEof = FALSE /\ sEof = FALSE
  /\ spc = "start" /\ serr = "-" /\ chalOut = FALSE /\ consumed = NoFrame
  /\ authed = NotAuthed /\ policy = "-" /\ admitted = FALSE
  /\ cpc = IF mode = "honest" THEN "wait1" ELSE "-"
  /\ cres = "-" /\ nsent = 0

\* ---------------- server: serverside() ----------------
Fail(e) == spc' = "failed" /\ serr' = e /\ sEof' = TRUE

\* KeyMaterialClientAuth::verify
KmVerify(h) ==
  LET ctx == IF Weak = "km_noctx" THEN "-" ELSE h.pk IN      \* export context = the claimed key
  IF mServer = NoMat THEN "no_material"
  ELSE IF h.sfx # Sfx(mServer, ctx) THEN "suffix"
  ELSE IF Weak = "km_nosig" THEN "ok"
  ELSE IF h.sig # Sig(h.pk, KmMsg(mServer, ctx)) THEN "sig"
  ELSE "ok"

SrvHeader ==
  /\ spc = "start"
  /\ IF hdr.enc = "absent" THEN spc' = "challenge" /\ UNCHANGED <<serr, sEof, authed>>
     ELSE IF hdr.enc # "ok" THEN Fail("hdr_invalid") /\ UNCHANGED authed
     ELSE IF KmVerify(hdr) = "ok"
          THEN spc' = "authenticated" /\ authed' = [ok |-> TRUE, pk |-> hdr.pk, mech |-> "km"] /\ UNCHANGED <<serr, sEof>>
          ELSE spc' = "challenge" /\ UNCHANGED <<serr, sEof, authed>>     \* falls back, silently
  /\ UNCHANGED <<params, c2s, s2c, cread, cEof, chalOut, consumed, policy, admitted, cpc, cres, nsent>>

SrvSendChallenge ==
  /\ spc = "challenge" /\ spc' = "wait_auth"
  /\ s2c' = Append(s2c, SFrame("challenge", "-")) /\ chalOut' = TRUE
  /\ UNCHANGED <<params, c2s, cread, cEof, sEof, serr, consumed, authed, policy, admitted, cpc, cres, nsent>>

ChalVerify(f) == IF Weak = "chal_any" THEN f.sig.by = f.pk /\ f.sig.over.t = "chal"
                 ELSE f.sig = Sig(f.pk, ChalMsg(ThisChal))

SrvReadAuth ==
  /\ spc = "wait_auth" /\ (c2s # <<>> \/ cEof)
  /\ IF c2s = <<>> THEN Fail("eof") /\ UNCHANGED <<c2s, consumed, authed>>
     ELSE LET f == Head(c2s) IN
          /\ c2s' = Tail(c2s) /\ consumed' = f
          /\ IF f.kind \in {"empty", "unknowntag"} THEN Fail("frame_type") /\ UNCHANGED authed
             ELSE IF f.kind = "wrongtag" THEN Fail("unexpected_type") /\ UNCHANGED authed
             ELSE IF f.kind = "undecodable" THEN Fail("deser") /\ UNCHANGED authed
             ELSE IF ChalVerify(f)          \* "auth" and "auth_trailing": postcard ignores trailing bytes
                  THEN spc' = "authenticated" /\ authed' = [ok |-> TRUE, pk |-> f.pk, mech |-> "challenge"]
                       /\ UNCHANGED <<serr, sEof>>
                  ELSE spc' = "deny_sig" /\ UNCHANGED <<serr, sEof, authed>>
  /\ UNCHANGED <<params, s2c, cread, cEof, chalOut, policy, admitted, cpc, cres, nsent>>

SrvSendDenySig ==
  /\ spc = "deny_sig" /\ s2c' = Append(s2c, SFrame("deny", "signature invalid")) /\ Fail("denied_sig")
  /\ UNCHANGED <<params, c2s, cread, cEof, chalOut, consumed, authed, policy, admitted, cpc, cres, nsent>>

\* authorize_if(access) / authorize_with(request, access_control): the policy is asked once
SrvAuthorize(p) ==
  /\ spc = "authenticated" /\ p \in Policies /\ policy' = p
  /\ IF p = "allow"
        THEN /\ s2c' = Append(s2c, SFrame("confirm", "-")) /\ admitted' = TRUE /\ spc' = "done"
             /\ UNCHANGED <<serr, sEof>>
        ELSE /\ s2c' = Append(s2c, SFrame("deny", IF p = "deny_reason" THEN "custom reason" ELSE "not authorized"))
             /\ Fail("denied_authz") /\ UNCHANGED admitted
  /\ UNCHANGED <<params, c2s, cread, cEof, chalOut, consumed, authed, cpc, cres, nsent>>

\* ---------------- honest client: clientside() ----------------
CliRead ==
  /\ mode = "honest" /\ cpc \in {"wait1", "wait2"} /\ (cread < Len(s2c) \/ sEof)
  /\ IF cread = Len(s2c)
        THEN cpc' = "err" /\ UNCHANGED <<c2s, cres, cread>>                  \* UnexpectedEnd: the server dropped the stream
        ELSE LET f == s2c[cread + 1] IN
             /\ cread' = cread + 1
             /\ IF f.kind = "challenge"
                   THEN IF cpc = "wait1"
                           THEN /\ c2s' = Append(c2s, [kind |-> "auth", pk |-> Victim, sig |-> Sig(Victim, ChalMsg(ThisChal))])
                                /\ cpc' = "wait2" /\ UNCHANGED cres
                           ELSE cpc' = "err" /\ UNCHANGED <<c2s, cres>>     \* UnexpectedFrameType
                   ELSE IF f.kind = "confirm" THEN cpc' = "ok" /\ UNCHANGED <<c2s, cres>>
                   ELSE cpc' = "denied" /\ cres' = f.reason /\ UNCHANGED c2s
  /\ UNCHANGED <<params, s2c, cEof, sEof, spc, serr, chalOut, consumed, authed, policy, admitted, nsent>>

\* ---------------- adversary ----------------
Composable(f) == f.sig \in OwnFresh => chalOut
CanSend == mode = "adversary" /\ ~cEof /\ nsent < Len(script) /\ Composable(script[nsent + 1])

AdvSend ==
  /\ CanSend
  /\ c2s' = Append(c2s, script[nsent + 1]) /\ nsent' = nsent + 1
  /\ UNCHANGED <<params, s2c, cread, cEof, sEof, spc, serr, chalOut, consumed, authed, policy, admitted, cpc, cres>>

\* gives up on frames it can never compose once the server is through
AdvClose ==
  /\ mode = "adversary" /\ ~cEof /\ ~CanSend
  /\ (nsent = Len(script) \/ spc \in {"done", "failed"})
  /\ cEof' = TRUE
  /\ UNCHANGED <<params, c2s, s2c, cread, sEof, spc, serr, chalOut, consumed, authed, policy, admitted, cpc, cres, nsent>>

Next == SrvHeader \/ SrvSendChallenge \/ SrvReadAuth \/ SrvSendDenySig
        \/ (\E p \in {"allow", "deny", "deny_reason"} : SrvAuthorize(p))
        \/ CliRead \/ AdvSend \/ AdvClose
Spec == Init /\ [][Next]_vars

Terminal == /\ spc \in {"done", "failed"}
            /\ IF mode = "honest" THEN cpc \notin {"wait1", "wait2"} ELSE cEof

---------------------------------------------------------------------------
(* C03 *)
\* the proof the property asks for: a signature by sk(k) over this session's challenge was read from the
\* client, or one over this session's key material bound to k was presented in the header
ProofPresented(k) ==
  \/ chalOut /\ consumed.kind \in {"auth", "auth_trailing"} /\ consumed.pk = k /\ consumed.sig = Sig(k, ChalMsg(ThisChal))
  \/ mServer # NoMat /\ hdr.enc = "ok" /\ hdr.pk = k /\ hdr.sig = Sig(k, KmMsg(mServer, k))
AuthenticatedOnlyWithProof == authed.ok => ProofPresented(authed.pk)
\* ... hence nobody without Victim's secret key is authenticated as Victim
NoImpersonation == (mode = "adversary" /\ authed.ok) => authed.pk = AdvKey
\* an honest client is always authenticated as itself: by key material iff both ends export the same
HonestOutcome == (mode = "honest" /\ authed.ok) =>
                    /\ authed.pk = Victim
                    /\ authed.mech = (IF mClient # NoMat /\ mClient = mServer THEN "km" ELSE "challenge")
HonestNeverRejected == mode = "honest" => serr \notin {"hdr_invalid", "eof", "frame_type", "unexpected_type", "deser", "denied_sig"}
HonestTerminal == (mode = "honest" /\ Terminal) =>
                    /\ authed.ok
                    /\ (cpc = "ok") <=> admitted
                    /\ (policy = "allow") <=> admitted
                    /\ policy = "deny" => cpc = "denied" /\ cres = "not authorized"
                    /\ policy = "deny_reason" => cpc = "denied" /\ cres = "custom reason"
\* an authorization denial is reported to the client and never yields an admitted connection
Confirms == {i \in 1..Len(s2c) : s2c[i].kind = "confirm"}
DenyReportedNotAdmitted == serr = "denied_authz" => /\ ~admitted /\ Confirms = {}
                                                     /\ s2c # <<>> /\ s2c[Len(s2c)].kind = "deny"
AdmittedOnlyAfterAuth == /\ admitted => authed.ok /\ policy = "allow"
                         /\ (Confirms # {}) <=> admitted
                         /\ Cardinality(Confirms) <= 1
\* the decision of serverside() is final; admission is never taken back
Stable == [][ (authed.ok => authed' = authed) /\ (admitted => admitted') /\ (policy # "-" => policy' = policy) ]_vars
\* term discipline: every signature of Victim on the wire in an adversary session was recorded earlier
OnlyRecordedVictimSigs == mode = "adversary" =>
     /\ hdr.sig.by = Victim => hdr.sig \in Recorded(mServer)
     /\ \A i \in 1..Len(script) : script[i].sig.by = Victim => script[i].sig \in Recorded(mServer)

\* generator: one REPLAY line per terminal state = per (session, policy decision)
Emit == Terminal => PrintT(<<"REPLAY", ToJson(
          [mode |-> mode, mClient |-> mClient, mServer |-> mServer, hdr |-> hdr, script |-> script,
           policy |-> policy,
           exp |-> [authed |-> authed, serr |-> serr, sent |-> s2c, admitted |-> admitted,
                    consumed |-> consumed.kind, cli |-> cpc, cres |-> cres, nsent |-> nsent]])>>)
=============================================================================
