SPECIFICATION SpecBucket
INVARIANT TypeOK RateBound DeadlineExact NoStall ThrottledIffEmpty NoPanic BucketSane Emit
PROPERTY LimitedCountsWaits
CHECK_DEADLOCK FALSE
CONSTANTS
  W = 16
