SPECIFICATION SpecBucket
INVARIANT TypeOK RateBound DeadlineExact NoStall ThrottledIffEmpty NoPanic BucketSane Emit
CHECK_DEADLOCK FALSE
CONSTANTS
  W = 16
