\* C06: registry instance, three connections of A and one of B; all interleavings of
\* admit / register / client frame / close / disconnect (by id, by key) / unregister / notify
SPECIFICATION SpecRegistry
INVARIANT TypeOK RegistryShape NewestWins PacketsWellAddressed AtMostOnce FifoPerSender WireClean Isolation
PROPERTY GoneOnlyOnEntryRemoval DisplacedIsTold PromotedIsTold StatusToTheRightOne AcceptedByActiveOnly ReadTouchesOnlySelf LeavesOnlyForOwnReasons
CHECK_DEADLOCK FALSE
CONSTANTS
  Conns <- Reg3_Conns
  KeyOf <- Reg3_KeyOf
  Keys = {"A", "B"}
  NoConn = "none"
  LateCancel = FALSE
  InqCap = 1
  Classes = {"normal"}
  FixUndeliverable = TRUE
  FixRevoke = TRUE
