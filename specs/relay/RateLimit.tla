------------------------------ MODULE RateLimit ------------------------------
(* C09 — the relay's per-client receive rate limiter (iroh-relay/src/server/streams.rs).

     Bucket::new / update_state / consume                     (public token bucket)
     RateLimited::from_watcher / <RateLimited as AsyncRead>::poll_read  (the limited reader)

   Integer time and integer bytes.  The code measures time in milliseconds and truncates two
   quantities to 32 bits (`as_millis() as u32`): the refill period (in `new`'s validity check and as
   the divisor in `update_state`) and the time since the last refill (`update_state`).  The model
   has a scaled word size W: the truncation is `x % W`.  One model time unit is 2^32/W ms, so that
   scaling by that factor makes the model *exact* for the real code:
   (x*S) mod 2^32 = (x mod W)*S and (a*S) div (b*S) = a div b.  Bytes are counted in the same unit
   (rate = k units of bytes per unit of time, i.e. refill = k * period per refill period).
   For the RateLimited layer the period is one unit (100 ms real) and nothing is near W.

   State: `now`; the bucket [fill, max, refill, period, lastFill] (present or not); the refill
   wait `sleepUntil` (0 = none; RateLimited::bucket_refilled, or for the bare bucket the deadline
   the caller was told to wait for); the watch channel's unseen value `pending`;
   accounting since the limit took effect (`t0`, `readSince`) for the property.

   Two layers share the state: SpecBucket (Advance, Consume) is the public Bucket used by a caller that
   honours deadlines; SpecReader (Advance, SetLimit, Poll) is the RateLimited reader.
   Actions (one per call / per statement group of poll_read):
     Advance(dt)     the clock moves
     Consume(n)      Bucket::consume(n) by a caller that honours the returned deadline
     SetLimit(c)     watch::Sender::send(cfg): valid limit, None (unlimited) or an invalid limit
     Poll(n)         one RateLimited::poll_read while the inner reader has n bytes ready (0 = Pending):
                     picks up a changed limit (new bucket starts full, refill wait dropped; an
                     invalid one is ignored), waits while the refill wait has not expired, otherwise
                     reads the n bytes and consumes them, possibly starting a refill wait.
   Trunc32 = TRUE is the code as written; FALSE is the required design (arithmetic wide enough /
   periods of 2^32 ms and more rejected: both are "exact arithmetic" on the accepted domain).
   With Trunc32 = TRUE TLC refutes RateBound:  period W+1 is accepted and then treated as 1. *)
EXTENDS Integers, Sequences, FiniteSets, TLC, Json
CONSTANTS W,            \* scaled word size (2^32 ms = W time units)
          Trunc32,
          Maxes, Rates, Periods,    \* configurations: max tokens, k = refill per time unit, period
          Dts, Chunks,  \* time steps and byte counts
          MaxSteps
VARIABLES now, has, b, sleepUntil, pending, t0, readSince, lastChunk, panicked,
          limited,      \* RateLimited::limited_tx: how often a read has been rate-limited (never reset)
          hist
vars == <<now, has, b, sleepUntil, pending, t0, readSince, lastChunk, panicked, limited, hist>>

Min(x, y) == IF x < y THEN x ELSE y
T(x) == IF Trunc32 THEN x % W ELSE x                 \* `as u32`
Cfg(m, k, p) == [kind |-> "limit", max |-> m, rate |-> k, period |-> p]
NoLimit == [kind |-> "none", max |-> 0, rate |-> 0, period |-> 1]
NoChange == [kind |-> "unchanged", max |-> 0, rate |-> 0, period |-> 1]
RefillOf(c) == c.rate * c.period                      \* bytes_per_second * period_ms / 1000
\* Bucket::new's validity check
Valid(c) == c.max > 0 /\ c.rate > 0 /\ T(c.period) > 0 /\ RefillOf(c) > 0
NewBucket(c, t) == [fill |-> c.max, max |-> c.max, refill |-> RefillOf(c), period |-> c.period, lastFill |-> t]
NoBucket == [fill |-> 0, max |-> 0, refill |-> 1, period |-> 1, lastFill |-> 0]
Configs == {Cfg(m, k, p) : m \in Maxes, k \in Rates, p \in Periods}

\* update_state at time t
Elapsed(bk, t) == IF t < bk.lastFill THEN 0 ELSE t - bk.lastFill      \* saturating_duration_since
Periods32(bk, t) == T(Elapsed(bk, t)) \div T(bk.period)
Updated(bk, t) == LET n == Periods32(bk, t) IN
                  IF n = 0 THEN bk
                  ELSE [bk EXCEPT !.fill = Min(bk.fill + n * bk.refill, bk.max), !.lastFill = bk.lastFill + n * bk.period]
\* consume(n) at time t: the new bucket and the result (deadline 0 = Ok)
Consumed(bk, n, t) == LET u == Updated(bk, t)
                          f == u.fill - n
                      IN [bucket |-> [u EXCEPT !.fill = f],
                          deadline |-> IF f > 0 THEN 0 ELSE u.lastFill + (((0 - f) \div u.refill) + 1) * u.period]

Log(op, arg, res, val) == hist' = Append(hist, [op |-> op, arg |-> arg, res |-> res, val |-> val, now |-> now', lim |-> limited'])
Bound == Len(hist) < MaxSteps /\ ~panicked

Init == /\ now = 0 /\ sleepUntil = 0 /\ pending = NoChange /\ t0 = 0 /\ readSince = 0 /\ lastChunk = 0
        /\ panicked = FALSE /\ limited = 0
        /\ \E c \in Configs : /\ Valid(c) /\ has = TRUE /\ b = NewBucket(c, 0)
                              /\ hist = <<[op |-> "new", arg |-> c.max, res |-> "ok", val |-> c.rate, now |-> c.period, lim |-> 0]>>

Advance(dt) == /\ Bound /\ now' = now + dt
               /\ UNCHANGED <<has, b, sleepUntil, pending, t0, readSince, lastChunk, panicked, limited>>
               /\ Log("advance", dt, "", 0)

\* a division by a truncated-to-zero period would be a panic; `new` excludes it (checked as NoPanic)
DivisorOk(bk) == T(bk.period) # 0

Consume(n) == /\ Bound /\ has /\ now >= sleepUntil
              /\ UNCHANGED <<now, has, pending, t0, limited>>
              /\ IF ~DivisorOk(b)
                   THEN panicked' = TRUE /\ UNCHANGED <<b, sleepUntil, readSince, lastChunk>> /\ Log("consume", n, "panic", 0)
                   ELSE LET r == Consumed(b, n, now) IN
                        /\ b' = r.bucket /\ sleepUntil' = r.deadline
                        /\ readSince' = readSince + n /\ lastChunk' = n /\ panicked' = FALSE
                        /\ Log("consume", n, IF r.deadline = 0 THEN "ok" ELSE "err", r.deadline)

SetLimit(c) == /\ Bound /\ pending' = c
               /\ UNCHANGED <<now, has, b, sleepUntil, t0, readSince, lastChunk, panicked, limited>>
               /\ Log("set", c.max, c.kind, c.rate)

\* the state after poll_read's first block (live limit change)
AfterChange == IF pending.kind = "unchanged" \/ (pending.kind = "limit" /\ ~Valid(pending))
                 THEN [has |-> has, b |-> b, sleep |-> sleepUntil, t0 |-> t0, read |-> readSince]
               ELSE IF pending.kind = "none"
                 THEN [has |-> FALSE, b |-> NoBucket, sleep |-> 0, t0 |-> now, read |-> 0]
               ELSE [has |-> TRUE, b |-> NewBucket(pending, now), sleep |-> 0, t0 |-> now, read |-> 0]
Poll(n) == /\ Bound /\ UNCHANGED now
           /\ LET a == AfterChange IN
              /\ pending' = NoChange /\ has' = a.has /\ t0' = a.t0 /\ panicked' = FALSE
              /\ IF ~a.has THEN                                   \* unlimited: straight to the inner reader
                    /\ b' = a.b /\ sleepUntil' = 0 /\ readSince' = a.read /\ lastChunk' = lastChunk /\ limited' = limited
                    /\ Log("poll", n, IF n = 0 THEN "pending" ELSE "ready", n)
                 ELSE IF a.sleep # 0 /\ now < a.sleep THEN        \* still waiting for the refill
                    /\ b' = a.b /\ sleepUntil' = a.sleep /\ readSince' = a.read /\ lastChunk' = lastChunk /\ limited' = limited
                    /\ Log("poll", n, "pending", 0)
                 ELSE IF n = 0 THEN                               \* inner reader has nothing: Pending, wait cleared
                    /\ b' = a.b /\ sleepUntil' = 0 /\ readSince' = a.read /\ lastChunk' = lastChunk /\ limited' = limited
                    /\ Log("poll", n, "pending", 0)
                 ELSE LET r == Consumed(a.b, n, now) IN
                    /\ b' = r.bucket /\ sleepUntil' = r.deadline /\ readSince' = a.read + n /\ lastChunk' = n
                    /\ limited' = (IF r.deadline = 0 THEN limited ELSE limited + 1)          \* record_rate_limited
                    /\ Log("poll", n, "ready", n)

\* two next-state relations (one per layer) so that TLC's per-action coverage lists only the layer's actions
NextBucket == \/ \E dt \in Dts : Advance(dt)
              \/ \E n \in Chunks : Consume(n)
NextReader == \/ \E dt \in Dts : Advance(dt)
              \/ \E c \in Configs \cup {NoLimit, Cfg(0, 0, 1), Cfg(1, 0, 1)} : SetLimit(c)
              \/ \E n \in Chunks : Poll(n)
SpecBucket == Init /\ [][NextBucket]_vars
SpecReader == Init /\ [][NextReader]_vars

---------------------------------------------------------------------------
(* C09 *)
MaxChunk == CHOOSE m \in Chunks : \A c \in Chunks : c <= m
\* (a) what has been read since the limit took effect never exceeds burst + accrued refill + one chunk
RateBound == has => readSince <= b.max + b.refill * ((now - t0) \div b.period) + lastChunk
\* exact (untruncated) fill at time t >= now if nothing is consumed in between
FillAt(t) == Min(b.fill + ((t - b.lastFill) \div b.period) * b.refill, b.max)
\* (b) a refill wait ends at the earliest instant at which the bucket is positive again, and it does end
DeadlineExact == (has /\ sleepUntil # 0 /\ sleepUntil > now) =>
                    /\ FillAt(sleepUntil) > 0
                    /\ \A t \in now..(sleepUntil - 1) : FillAt(t) <= 0
NoStall == (has /\ sleepUntil # 0) => sleepUntil <= now + (b.max + MaxChunk + 1) * b.period
\* throttled exactly when the bucket is exhausted
ThrottledIffEmpty == has => ((sleepUntil # 0) => b.fill <= 0)
\* the throttle counter counts exactly the reads that started a refill wait
LimitedCountsWaits == [][limited' # limited => (limited' = limited + 1 /\ sleepUntil' # 0)]_vars
\* (c) nothing undefined
NoPanic == ~panicked
\* the bucket never holds more than its maximum and refill epochs never run ahead of the clock
BucketSane == has => b.fill <= b.max /\ b.lastFill <= now
TypeOK == now \in Nat /\ sleepUntil \in Nat /\ readSince \in Nat

\* behaviour generator
Emit == (Len(hist) = MaxSteps) => PrintT(<<"REPLAY", ToJson([steps |-> hist])>>)
EmitAll == Len(hist) > 1 => PrintT(<<"REPLAY", ToJson([steps |-> hist])>>)
=============================================================================
