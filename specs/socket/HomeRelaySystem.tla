------------------------- MODULE HomeRelaySystem -------------------------
(* Growth of HomeRelay.tla (C26): the RelayActor and the ActiveRelayActors around the
   HomeRelayWatch, with the messages between them
   (iroh/src/socket/transports/relay/actor.rs).  set_status is atomic here (the design C26
   requires and the code now has).

     NetworkChange(p)   RelayActor::on_network_change(report.preferred_relay = p):
                        prev = my_relay.get(); same URL -> nothing; Some(p) -> my_relay.set(p, Connecting),
                        SetHomeRelay(u = p) to every existing ActiveRelayActor, and the actor of p is
                        started if it does not exist (it is told SetHomeRelay(true) right away);
                        None -> my_relay.clear() (no message: the actors keep their is_home_relay flag)
     Recv(u)            ActiveRelayActor(u) takes SetHomeRelay(b) from its inbox: is_home_relay = b; in
                        run_connected and b: my_relay.set_status(u, Connected) -- URL-guarded, so a
                        promotion handled late (another home relay was chosen meanwhile) publishes nothing
     Dialed(u)          run_once: dialing succeeded: set_status(u, Connected)
     Lost(u)            run: the connection failed: set_status(u, Disconnected{err}), then back-off
     Redial(u)          run_once starts again: set_status(u, Connecting)

   Named deviation PromotedSetsUrl = TRUE ("C26_promotion_publishes_url"): on SetHomeRelay(true) the
   connected actor publishes with my_relay.set(u, Connected) instead of the guarded set_status;
   refuted by NetworkChange(b); NetworkChange(c); Recv(b) (HomeIsChosen).

   conn[u] is the actor's real connection state, `alive` the actors that exist.  `hist` is the word
   of NetworkChange / Recv steps for the generator; harness/src/bin/vh_netrep.rs (c26sys) drives a
   real RelayActor against in-process relay servers along each word (a pause point holds an
   ActiveRelayActor before it handles SetHomeRelay) and Trace_HomeRelaySystem.tla validates what
   really happened. *)
EXTENDS Naturals, Sequences, FiniteSets, TLC, Json
CONSTANTS Urls, NoUrl, MaxChanges, MaxSteps,
          PromotedSetsUrl,   \* FALSE: the code; TRUE: the deviation above
          StartHome,         \* generator: start with this relay as connected home relay (NoUrl: empty system)
          StartOthers,       \* generator: further relays already connected (not home)
          LateOnly,          \* generator: only words in which a connected actor handles its promotion late
          KeepHist
VARIABLES home, chosen, nchanges, inbox, isHome, conn, nsteps, alive,
          late,     \* ghost: a connected actor handled SetHomeRelay(true) after another home relay was chosen
          hist
vars == <<home, chosen, nchanges, inbox, isHome, conn, nsteps, alive, late, hist>>

None == [url |-> NoUrl, state |-> "none"]
Log(op, u) == hist' = IF KeepHist THEN Append(hist, [op |-> op, url |-> u]) ELSE hist

Init == /\ nchanges = 0 /\ nsteps = 0 /\ hist = <<>> /\ late = FALSE
        /\ inbox = [u \in Urls |-> <<>>]
        /\ IF StartHome = NoUrl
             THEN /\ home = None /\ chosen = NoUrl /\ alive = {}
                  /\ isHome = [u \in Urls |-> FALSE] /\ conn = [u \in Urls |-> "Connecting"]
             ELSE /\ home = [url |-> StartHome, state |-> "Connected"] /\ chosen = StartHome
                  /\ alive = {StartHome} \cup StartOthers
                  /\ isHome = [u \in Urls |-> u = StartHome]
                  /\ conn = [u \in Urls |-> IF u \in {StartHome} \cup StartOthers THEN "Connected" ELSE "Connecting"]

\* HomeRelayWatch::set_status, atomic
StatusResult(u, s) == IF home.url = u THEN [url |-> u, state |-> s] ELSE home

NetworkChange(p) ==
  /\ nchanges < MaxChanges /\ nchanges' = nchanges + 1
  /\ KeepHist => p # home.url        \* the generator leaves out reports that change nothing
  /\ IF p = home.url THEN UNCHANGED <<home, chosen, inbox, alive>>
     ELSE IF p # NoUrl
       THEN /\ home' = [url |-> p, state |-> "Connecting"] /\ chosen' = p
            /\ alive' = alive \cup {p}
            /\ inbox' = [u \in Urls |-> IF u \in alive' THEN Append(inbox[u], u = p) ELSE inbox[u]]
       ELSE home' = None /\ chosen' = NoUrl /\ UNCHANGED <<inbox, alive>>
  /\ UNCHANGED <<isHome, conn, nsteps, late>> /\ Log("nc", p)

Recv(u) == /\ inbox[u] # <<>>
           /\ isHome' = [isHome EXCEPT ![u] = Head(inbox[u])]
           /\ inbox' = [inbox EXCEPT ![u] = Tail(@)]
           /\ home' = IF Head(inbox[u]) /\ conn[u] = "Connected"
                        THEN (IF PromotedSetsUrl THEN [url |-> u, state |-> "Connected"] ELSE StatusResult(u, "Connected"))
                        ELSE home
           /\ late' = (late \/ (Head(inbox[u]) /\ conn[u] = "Connected" /\ chosen # u))
           /\ UNCHANGED <<chosen, nchanges, conn, nsteps, alive>> /\ Log("recv", u)

Step(u, from, to) == /\ nsteps < MaxSteps /\ nsteps' = nsteps + 1 /\ u \in alive /\ conn[u] = from
                     /\ conn' = [conn EXCEPT ![u] = to] /\ home' = StatusResult(u, to)
                     /\ UNCHANGED <<chosen, nchanges, inbox, isHome, alive, late>> /\ Log(to, u)
Dialed(u) == Step(u, "Connecting", "Connected")
Lost(u)   == Step(u, "Connected", "Disconnected") \/ Step(u, "Connecting", "Disconnected")
Redial(u) == Step(u, "Disconnected", "Connecting")

Next == \/ \E p \in Urls \cup {NoUrl} : NetworkChange(p)
        \/ \E u \in Urls : Recv(u)
        \/ \E u \in Urls : Dialed(u)
        \/ \E u \in Urls : Lost(u)
        \/ \E u \in Urls : Redial(u)
Spec == Init /\ [][Next]_vars
\* messages only (the word generator: the actors' connections stay as they are)
NextMsgs == \/ \E p \in Urls \cup {NoUrl} : NetworkChange(p)
            \/ \E u \in Urls : Recv(u)
SpecMsgs == Init /\ [][NextMsgs]_vars

---------------------------------------------------------------------------
\* C26: the advertised home relay is always the relay most recently chosen
HomeIsChosen == home.url = chosen
\* once the messages are delivered the advertised state of the chosen relay is its actor's real
\* state (a relay chosen while its actor is backing off shows Connecting until the next attempt)
StatusFresh ==
  \A u \in Urls : (chosen = u /\ inbox[u] = <<>>) =>
      \/ home.state = conn[u]
      \/ conn[u] = "Disconnected" /\ home.state = "Connecting"
\* at most one actor believes it is the home relay once all messages are delivered ...
OneHomeBelief ==
  (\A u \in Urls : inbox[u] = <<>>) => Cardinality({u \in Urls : isHome[u]}) <= 1
\* ... and it is the chosen one, unless the home relay was cleared
BeliefMatchesChoice ==
  (\A u \in Urls : inbox[u] = <<>>) => \A u \in Urls : isHome[u] => (chosen = u \/ chosen = NoUrl)

\* word generator: words with every message delivered and at least one relay change handled late
Delivered == \A u \in Urls : inbox[u] = <<>>
Emit == (KeepHist /\ hist # <<>> /\ Delivered /\ (late \/ ~LateOnly)) =>
          PrintT(<<"REPLAY", ToJson([word |-> hist, final |-> home, chosen |-> chosen])>>)
=============================================================================
