------------------------- MODULE HomeRelaySystem -------------------------
(* Growth of HomeRelay.tla (C26): the RelayActor and the ActiveRelayActors around the
   HomeRelayWatch, with the messages between them
   (iroh/src/socket/transports/relay/actor.rs).  set_status is atomic here (the design C26
   requires); the question this module answers is what the advertised *status* is worth.

     NetworkChange(p)   RelayActor::on_network_change(report.preferred_relay = p):
                        prev = my_relay.get(); same URL -> nothing; Some(p) -> my_relay.set(p, Connecting)
                        and SetHomeRelay(u = p) to every active actor; None -> my_relay.clear()
                        (no message: the actors keep their is_home_relay flag)
     Recv(u)            ActiveRelayActor(u) takes SetHomeRelay(b) from its inbox: is_home_relay = b; in
                        run_connected and b: my_relay.set_status(u, Connected)
     Dialed(u)          run_once: dialing succeeded: set_status(u, Connected)
     Lost(u)            run: the connection failed: set_status(u, Disconnected{err}), then back-off
     Redial(u)          run_once starts again: set_status(u, Connecting)

   conn[u] is the actor's real connection state.  HomeIsChosen is inherited; StatusFresh says
   that once the messages are delivered the advertised state of the chosen relay is its
   actor's real state (except that a relay chosen while its actor is backing off shows
   Connecting until the next attempt). *)
EXTENDS Naturals, Sequences, FiniteSets, TLC
CONSTANTS Urls, NoUrl, MaxChanges, MaxSteps
VARIABLES home, chosen, nchanges, inbox, isHome, conn, nsteps
vars == <<home, chosen, nchanges, inbox, isHome, conn, nsteps>>

None == [url |-> NoUrl, state |-> "none"]
Init == /\ home = None /\ chosen = NoUrl /\ nchanges = 0 /\ nsteps = 0
        /\ inbox = [u \in Urls |-> <<>>] /\ isHome = [u \in Urls |-> FALSE]
        /\ conn = [u \in Urls |-> "Connecting"]

\* HomeRelayWatch::set_status, atomic
SetStatus(u, s) == home' = IF home.url = u THEN [url |-> u, state |-> s] ELSE home

NetworkChange(p) ==
  /\ nchanges < MaxChanges /\ nchanges' = nchanges + 1
  /\ IF p = home.url THEN UNCHANGED <<home, chosen, inbox>>
     ELSE IF p # NoUrl
       THEN /\ home' = [url |-> p, state |-> "Connecting"] /\ chosen' = p
            /\ inbox' = [u \in Urls |-> Append(inbox[u], u = p)]
       ELSE home' = None /\ chosen' = NoUrl /\ UNCHANGED inbox
  /\ UNCHANGED <<isHome, conn, nsteps>>

Recv(u) == /\ inbox[u] # <<>>
           /\ isHome' = [isHome EXCEPT ![u] = Head(inbox[u])]
           /\ inbox' = [inbox EXCEPT ![u] = Tail(@)]
           /\ IF Head(inbox[u]) /\ conn[u] = "Connected" THEN SetStatus(u, "Connected") ELSE UNCHANGED home
           /\ UNCHANGED <<chosen, nchanges, conn, nsteps>>

Step(u, from, to) == /\ nsteps < MaxSteps /\ nsteps' = nsteps + 1 /\ conn[u] = from
                     /\ conn' = [conn EXCEPT ![u] = to] /\ SetStatus(u, to)
                     /\ UNCHANGED <<chosen, nchanges, inbox, isHome>>
Dialed(u) == Step(u, "Connecting", "Connected")
Lost(u)   == Step(u, "Connected", "Disconnected") \/ Step(u, "Connecting", "Disconnected")
Redial(u) == Step(u, "Disconnected", "Connecting")

Next == \/ \E p \in Urls \cup {NoUrl} : NetworkChange(p)
        \/ \E u \in Urls : Recv(u)
        \/ \E u \in Urls : Dialed(u)
        \/ \E u \in Urls : Lost(u)
        \/ \E u \in Urls : Redial(u)
Spec == Init /\ [][Next]_vars

HomeIsChosen == home.url = chosen
StatusFresh ==
  \A u \in Urls : (chosen = u /\ inbox[u] = <<>>) =>
      \/ home.state = conn[u]
      \/ conn[u] = "Disconnected" /\ home.state = "Connecting"
\* at most one actor believes it is the home relay once all messages are delivered
OneHomeBelief ==
  (\A u \in Urls : inbox[u] = <<>>) => Cardinality({u \in Urls : isHome[u]}) <= 1
\* ... and it is the chosen one, unless the home relay was cleared
BeliefMatchesChoice ==
  (\A u \in Urls : inbox[u] = <<>>) => \A u \in Urls : isHome[u] => (chosen = u \/ chosen = NoUrl)
=============================================================================
