\* anti-vacuity: the pinned code's duplicate test (Fixed = FALSE) must be refuted
SPECIFICATION Spec
INVARIANT OrderIndependent
CHECK_DEADLOCK FALSE
CONSTANTS
  Families = {"v4", "v6"}
  DefaultFlags = {"unset", "true", "false"}
  Fixed = FALSE
