\* behaviour generator: sequential behaviours (arrivals between polls) of the required loop
SPECIFICATION Spec
INVARIANT OutIsPrefixOfExpected QuiescentMeansDrained SleepingHasWaker DrainedMeansAllDelivered BoundariesKept WakerOnlyWhenEmpty SlotsBounded ClosedLosesOnlyLastPoll Emit
CHECK_DEADLOCK FALSE
CONSTANTS
  ExactTail = TRUE
  Fixed = TRUE
  ArriveDuringPoll = FALSE
  Record = TRUE
