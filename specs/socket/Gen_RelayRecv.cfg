\* behaviour generator: sequential behaviours (arrivals between polls) of the required loop
SPECIFICATION Spec
INVARIANT OutIsPrefixOfExpected QuiescentMeansDrained SleepingHasWaker DrainedMeansAllDelivered WakerOnlyWhenEmpty SlotsBounded ClosedLosesOnlyLastPoll Emit
CHECK_DEADLOCK FALSE
CONSTANTS
  Fixed = TRUE
  ArriveDuringPoll = FALSE
  Record = TRUE
