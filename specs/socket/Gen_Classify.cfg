SPECIFICATION GSpec
INVARIANT ClassifyTotalAndExact EmitC
CHECK_DEADLOCK FALSE
CONSTANTS
  NoHost = "none"
  NoKey = "nokey"
  NoThread = "nobody"
  Threads = {"t1"}
  Kinds = {"relay"}
  Keys = {"k1"}
  Hosts = {"h1"}
  MaxCalls = 0
  Locked = TRUE
  SplitGet = FALSE
  Unique = TRUE
