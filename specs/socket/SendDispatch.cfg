\* exhaustive check of the dispatch rule against the statement (the code's table order)
SPECIFICATION Spec
INVARIANT RouteAllowed KindRespected TableSorted SendNeverFails
CHECK_DEADLOCK FALSE
CONSTANTS
  NBits = 4
  Descending = TRUE
  NRelay = 1
