\* the design C26 requires: set_status is one atomic compare-and-set
SPECIFICATION SpecAtomic
INVARIANT TypeOK HomeIsChosen WrittenByChosen
PROPERTY DemotedNeverVisible
CHECK_DEADLOCK FALSE
CONSTANTS
  Urls = {"a", "b"}
  States = {"Connecting", "Connected", "Disconnected"}
  NoUrl = "none"
  Atomic = TRUE
  KeepHist = FALSE
