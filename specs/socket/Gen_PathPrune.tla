--------------------------- MODULE Gen_PathPrune ---------------------------
(* C23 case generator at the real thresholds (MAXP = 30, MAXI = 10).

   One initial state per abstract case: a path set built by PathPrune!Mk from class counts
   drawn from boundary-value sets and a close-time pattern.  For every case TLC
     - checks that the required rule satisfies the clauses at the real thresholds (C23), and
     - prints one REPLAY line: the path set, the survivors the required rule predicts, and
       whether that prediction is the only admissible result (`unique`: no close-time tie
       across the keep/prune boundary and not the all-failed regime).
   The harness (vh_remote c23) runs the real prune_non_relay_paths on each path set. *)
EXTENDS PathPrune, Json

CONSTANTS GOpen, GUnknown, GFail, GInact, GRelay,   \* sets of counts per class
          GPat,                                     \* close-time patterns
          GMaxTotal                                 \* bound on the total number of paths
Pattern(p, n) == [i \in 1..n |-> CASE p = "distinct" -> i
                                   [] p = "equal"    -> 1
                                   [] p = "pairs"    -> (i + 1) \div 2
                                   [] p = "triples"  -> (i + 2) \div 3]
GInit == \E no \in GOpen, nu \in GUnknown, nf \in GFail, ni \in GInact, nr \in GRelay, p \in GPat :
           /\ no + nu + nf + ni + nr <= GMaxTotal
           /\ (ni <= 1 => p = "distinct")           \* patterns only differ from two inactive paths on
           /\ S = Mk(no, nu, nf, Pattern(p, ni), nr)

\* the required result is unique unless equal close times straddle the boundary or everything failed
Unique == /\ ~(Triggered(S) /\ AllFailed(S))
          /\ LET K == KeepInactRequired(S) IN \A p \in K : \A q \in Inact(S) \ K : p.t > q.t
Emit == PrintT(<<"REPLAY", ToJson([paths  |-> S,
                                   expect |-> {p.id : p \in Prune(S)},
                                   unique |-> Unique,
                                   trig   |-> Triggered(S),
                                   allfailed |-> AllFailed(S)])>>)
=============================================================================
