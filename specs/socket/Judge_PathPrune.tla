-------------------------- MODULE Judge_PathPrune --------------------------
(* C23 decision on real observations.

   Reads ndjson records [case, paths, kept] written by the harness: `paths` is the input
   path set handed to the real prune_non_relay_paths, `kept` the ids that survived.  For
   each record TLC evaluates every clause of C23 (the C_ operators of PathPrune) on the reconstructed
   (S, R) and prints one REPLAY verdict; `aswritten` says whether a failing result is
   exactly what the pinned split_off rule produces (the open known finding), so that any
   other deviation is told apart. *)
EXTENDS PathPrune, Json, IOUtils

Obs == ndJsonDeserialize(IOEnv.TRACE)
VARIABLE n
JInit == n = 1 /\ S = {}
JNext == n < Len(Obs) /\ n' = n + 1 /\ UNCHANGED S
In(k)  == {[id |-> p.id, relay |-> p.relay, st |-> p.st, t |-> p.t] : p \in {Obs[k].paths[j] : j \in 1..Len(Obs[k].paths)}}
Out(k) == LET ids == {Obs[k].kept[j] : j \in 1..Len(Obs[k].kept)} IN {p \in In(k) : p.id \in ids}
Extra(k) == LET ids == {Obs[k].kept[j] : j \in 1..Len(Obs[k].kept)} IN ids \ {p.id : p \in In(k)}
Verdict(k) == LET A == In(k)  B == Out(k) IN
  [case |-> Obs[k].case,
   subset |-> (C_Subset(A, B) /\ Extra(k) = {}),
   livekept |-> C_LiveKept(A, B), nonempty |-> C_NonEmpty(A, B), below |-> C_Below(A, B),
   failedgone |-> C_FailedGone(A, B), inactkept |-> C_InactKept(A, B), allfailed |-> C_AllFailed(A, B),
   aswritten |-> MatchesAsWritten(A, B),
   k |-> Cardinality(Inact(A)), keptinact |-> Cardinality(Inact(A) \cap B), nonrelay |-> Cardinality(NonRelay(A))]
Emit == n <= Len(Obs) => PrintT(<<"REPLAY", ToJson(Verdict(n))>>)
=============================================================================
