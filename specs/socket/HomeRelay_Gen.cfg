\* word generator: all complete words of the get-then-set structure (the harness forces each)
SPECIFICATION SpecCode
INVARIANT TypeOK Emit
CHECK_DEADLOCK FALSE
CONSTANTS
  Urls = {"a", "b"}
  NoUrl = "none"
  Atomic = FALSE
  KeepHist = TRUE
