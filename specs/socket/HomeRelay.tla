---------------------------- MODULE HomeRelay ----------------------------
(* C26 -- the advertised home relay: iroh::socket::transports::relay::actor::HomeRelayWatch
   (iroh/src/socket/transports/relay/actor.rs), a Watchable<Option<RelayStatus>> shared by the
   RelayActor (which chooses the home relay) and one ActiveRelayActor per relay URL (which
   report their connection state).

   Processes and actions (one per call / critical section of the code):

     RelayActor            SetHome(u)    on_network_change: my_relay.set(u, Connecting)
                                         (only when the preferred relay differs from the current one)
                           ClearHome     on_network_change: my_relay.clear()
     ActiveRelayActor(u)   my_relay.set_status(u, s) -- called from run_once (Connecting,
                           Connected), run (Disconnected{err}) and on SetHomeRelay(true):
                             design required by C26 (Atomic = TRUE):
                               SetStatusAtomic(u, s)   compare-and-set in one step
                             the pinned code (Atomic = FALSE) is get-then-set:
                               Read(u, s)    self.inner.get().url == Some(u)   -> continue to Write
                               Skip(u, s)    self.inner.get().url != Some(u)   -> return
                               Write(u)      self.inner.set(Some(RelayStatus::new(u, s)))
                           named deviation "C26_set_status_not_atomic".

   `chosen` (ghost) is the URL most recently chosen by the RelayActor, `src` (ghost) who wrote
   the advertised value.  `hist` is the word of steps taken, printed by `Emit` for the harness
   (harness/src/bin/vh_netrep.rs, c26) which forces each word on the real object with one real
   thread per actor and a pause point between the read and the write. *)
EXTENDS Naturals, Sequences, FiniteSets, TLC, Json
CONSTANTS Urls,        \* relay URLs (strings)
          States,      \* connection states an actor may report
          NoUrl,       \* "none"
          Atomic,      \* TRUE: the design C26 requires; FALSE: the code as written
          MaxChanges,  \* bound on home relay changes
          MaxStatus,   \* bound on set_status calls per actor
          KeepHist     \* keep the word (generator) or not (model checking)
VARIABLES home,      \* value of the watchable: [url, state] (url = NoUrl: None)
          chosen,    \* ghost: URL most recently chosen by the RelayActor (NoUrl if cleared)
          src,       \* ghost: who wrote `home`: "relay_actor" or the URL of an active actor
          nchanges,
          pc,        \* per active actor: "idle" | "read" (between the get and the set)
          want,      \* the state the actor is about to write
          ncalls,    \* set_status calls per actor
          hist
vars == <<home, chosen, src, nchanges, pc, want, ncalls, hist>>

HomeUrl == home.url
None == [url |-> NoUrl, state |-> "none"]

Log(op, u, s) == hist' = IF KeepHist THEN Append(hist, [op |-> op, url |-> u, state |-> s]) ELSE hist

Init == /\ home = None /\ chosen = NoUrl /\ src = "relay_actor" /\ nchanges = 0
        /\ pc = [u \in Urls |-> "idle"] /\ want = [u \in Urls |-> "Connecting"]
        /\ ncalls = [u \in Urls |-> 0] /\ hist = <<>>

\* RelayActor::on_network_change with a new preferred relay
SetHome(u) == /\ nchanges < MaxChanges /\ u # chosen
              /\ home' = [url |-> u, state |-> "Connecting"] /\ chosen' = u /\ src' = "relay_actor"
              /\ nchanges' = nchanges + 1
              /\ UNCHANGED <<pc, want, ncalls>> /\ Log("set_home", u, "Connecting")
\* RelayActor::on_network_change without a preferred relay
ClearHome == /\ nchanges < MaxChanges /\ chosen # NoUrl
             /\ home' = None /\ chosen' = NoUrl /\ src' = "relay_actor" /\ nchanges' = nchanges + 1
             /\ UNCHANGED <<pc, want, ncalls>> /\ Log("clear", NoUrl, "none")

\* ActiveRelayActor(u): set_status(u, s), atomic design
SetStatusAtomic(u, s) ==
  /\ Atomic /\ pc[u] = "idle" /\ ncalls[u] < MaxStatus
  /\ ncalls' = [ncalls EXCEPT ![u] = @ + 1]
  /\ IF HomeUrl = u THEN home' = [url |-> u, state |-> s] /\ src' = u ELSE UNCHANGED <<home, src>>
  /\ UNCHANGED <<chosen, nchanges, pc, want>> /\ Log("set_status", u, s)

\* get-then-set (the code at the pinned commit)
Read(u, s) == /\ ~Atomic /\ pc[u] = "idle" /\ ncalls[u] < MaxStatus /\ HomeUrl = u
              /\ ncalls' = [ncalls EXCEPT ![u] = @ + 1]
              /\ want' = [want EXCEPT ![u] = s] /\ pc' = [pc EXCEPT ![u] = "read"]
              /\ UNCHANGED <<home, chosen, src, nchanges>> /\ Log("read", u, s)
Skip(u, s) == /\ ~Atomic /\ pc[u] = "idle" /\ ncalls[u] < MaxStatus /\ HomeUrl # u
              /\ ncalls' = [ncalls EXCEPT ![u] = @ + 1]
              /\ UNCHANGED <<home, chosen, src, nchanges, pc, want>> /\ Log("skip", u, s)
Write(u) == /\ pc[u] = "read"
            /\ home' = [url |-> u, state |-> want[u]] /\ src' = u
            /\ pc' = [pc EXCEPT ![u] = "idle"]
            /\ UNCHANGED <<chosen, nchanges, want, ncalls>> /\ Log("write", u, want[u])

\* two next-state relations (plain disjunctions, so that TLC reports coverage per action)
NextAtomic == \/ \E u \in Urls : SetHome(u)
              \/ ClearHome
              \/ \E u \in Urls, s \in States : SetStatusAtomic(u, s)
NextCode   == \/ \E u \in Urls : SetHome(u)
              \/ ClearHome
              \/ \E u \in Urls, s \in States : Read(u, s)
              \/ \E u \in Urls, s \in States : Skip(u, s)
              \/ \E u \in Urls : Write(u)
SpecAtomic == Init /\ [][NextAtomic]_vars      \* use with Atomic = TRUE
SpecCode   == Init /\ [][NextCode]_vars        \* use with Atomic = FALSE

---------------------------------------------------------------------------
(* C26 *)
\* the advertised home relay is always the relay most recently chosen
HomeIsChosen == HomeUrl = chosen
\* whatever is advertised was written by the RelayActor or by the actor of the chosen relay
WrittenByChosen == src \in {"relay_actor", chosen}
\* a demoted relay connection can never make its URL or status the advertised one again:
\* a step of an actor whose relay is not the chosen one leaves the advertised value alone
DemotedNeverVisible ==
  [][~\E u \in Urls : u # chosen /\ src' = u /\ (src # u \/ home' # home)]_vars
TypeOK == /\ home.url \in Urls \cup {NoUrl} /\ chosen \in Urls \cup {NoUrl}
          /\ pc \in [Urls -> {"idle", "read"}]

\* word generator: complete words only (no set_status call in flight)
Quiescent == \A u \in Urls : pc[u] = "idle"
Emit == (KeepHist /\ Quiescent /\ hist # <<>>) =>
          PrintT(<<"REPLAY", ToJson([word |-> hist, final |-> home, chosen |-> chosen])>>)
=============================================================================
