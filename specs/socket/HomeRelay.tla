---------------------------- MODULE HomeRelay ----------------------------
(* C26: HomeRelayWatch.  RelayActor sets the URL; ActiveRelayActors update the
   status through set_status, which (in the code) is get-then-set. *)
EXTENDS Naturals, Sequences, FiniteSets, TLC
CONSTANTS Urls, States, NoUrl, Atomic, MaxChanges
VARIABLES home,      \* value of the watchable: NoUrl or <<url, state>>
          chosen,    \* URL most recently chosen by the RelayActor (NoUrl if cleared)
          nchanges,
          pc,        \* per active actor: "idle" | "read"
          seen,      \* what the active actor read
          wantState  \* the state it is about to write
vars == <<home, chosen, nchanges, pc, seen, wantState>>

HomeUrl == home.url

Init == /\ home = [url |-> NoUrl, state |-> "none"] /\ chosen = NoUrl /\ nchanges = 0
        /\ pc = [u \in Urls |-> "idle"] /\ seen = [u \in Urls |-> NoUrl]
        /\ wantState = [u \in Urls |-> "Connecting"]

\* RelayActor::on_network_change
SetHome(u) == /\ nchanges < MaxChanges /\ u # chosen
              /\ home' = [url |-> u, state |-> "Connecting"] /\ chosen' = u /\ nchanges' = nchanges + 1
              /\ UNCHANGED <<pc, seen, wantState>>
ClearHome == /\ nchanges < MaxChanges /\ chosen # NoUrl
             /\ home' = [url |-> NoUrl, state |-> "none"] /\ chosen' = NoUrl /\ nchanges' = nchanges + 1
             /\ UNCHANGED <<pc, seen, wantState>>

\* ActiveRelayActor(u)::set_status(u, s), atomic variant
SetStatusAtomic(u, s) == /\ Atomic /\ pc[u] = "idle"
                         /\ home' = IF HomeUrl = u THEN [url |-> u, state |-> s] ELSE home
                         /\ UNCHANGED <<chosen, nchanges, pc, seen, wantState>>
\* get-then-set variant (the code at the pinned commit)
Read(u, s) == /\ ~Atomic /\ pc[u] = "idle"
              /\ seen' = [seen EXCEPT ![u] = HomeUrl]
              /\ wantState' = [wantState EXCEPT ![u] = s]
              /\ pc' = [pc EXCEPT ![u] = "read"]
              /\ UNCHANGED <<home, chosen, nchanges>>
Write(u) == /\ pc[u] = "read"
            /\ home' = IF seen[u] = u THEN [url |-> u, state |-> wantState[u]] ELSE home
            /\ pc' = [pc EXCEPT ![u] = "idle"]
            /\ UNCHANGED <<chosen, nchanges, seen, wantState>>

Next == \/ \E u \in Urls : SetHome(u)
        \/ ClearHome
        \/ \E u \in Urls, s \in States : SetStatusAtomic(u, s) \/ Read(u, s)
        \/ \E u \in Urls : Write(u)
Spec == Init /\ [][Next]_vars

\* C26: the advertised home relay is always the one most recently chosen
HomeIsChosen == HomeUrl = chosen
=============================================================================
