SPECIFICATION Spec
INVARIANT RouteAllowed KindRespected TableSorted NeverFatal Emit
CHECK_DEADLOCK FALSE
CONSTANTS
  NBits = 4
  Descending = TRUE
  NRelay = 1
