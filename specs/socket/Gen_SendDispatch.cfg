SPECIFICATION Spec
INVARIANT RouteAllowed KindRespected TableSorted SendNeverFails Emit
CHECK_DEADLOCK FALSE
CONSTANTS
  NBits = 4
  Descending = TRUE
  NRelay = 1
