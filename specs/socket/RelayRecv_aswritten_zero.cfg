\* anti-vacuity: the loop as written at the pinned commit (Fixed = FALSE) must be refuted
SPECIFICATION Spec
INVARIANT OutIsPrefixOfExpected
CHECK_DEADLOCK FALSE
CONSTANTS
  ExactTail = TRUE
  Fixed = FALSE
  ArriveDuringPoll = FALSE
  MayClose = FALSE
  Record = FALSE
  MaxSteps = 0
