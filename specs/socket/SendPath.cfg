SPECIFICATION Spec
INVARIANT Bijection ReturnedInjective LookupCorrect ReturnedAddrReachesItsKey UnknownSyntheticDropped OrdinaryIsIp
PROPERTY Stable
CHECK_DEADLOCK FALSE
CONSTANTS
  NoHost = "none"
  NoKey = "nokey"
  NoThread = "nobody"
  Threads = {"t1", "t2"}
  Kinds = {"endpoint", "relay", "custom"}
  Keys = {"k1", "k2"}
  Hosts = {"h1", "h2"}
  MaxCalls = 2
  Locked = TRUE
  SplitGet = FALSE
  Unique = TRUE
