----------------------------- MODULE PathPrune -----------------------------
(* C23 — path pruning bounds stale paths without discarding live ones.

   Models `prune_non_relay_paths` (iroh/src/socket/remote_map/remote_state/path_state.rs),
   which `RemotePathState::prune_paths` runs after every `insert_multiple` /
   `insert_open_path`, as a pure operator on a path set.

   A path is a record [id, relay, st, t]:
     relay  TRUE for transports::Addr::Relay, FALSE for Ip / Custom addresses
     st     "open" | "unknown" | "unusable" | "inactive"          (PathStatus)
     t      close time, meaningful only for st = "inactive"       (PathStatus::Inactive(t))
   MAXP / MAXI are MAX_NON_RELAY_PATHS / MAX_INACTIVE_NON_RELAY_PATHS (30 / 10 in the
   code; scaled down for the exhaustive run, real values for the generated cases).

   Code structure -> operators
     `paths.len() < MAX` / `primary_paths.len() < MAX` early returns     ~Triggered(S)
     `failed.len() == paths.len()` (every path is a failed non-relay)    AllFailed(S)
        -> `failed.truncate(len - MAX)`: exactly MAXP survive            KeepWhenAllFailed
     `inactive.sort_by_key(Reverse(t))`                                  Rank (1 = newest)
     `inactive.split_off(len.saturating_sub(MAXI))` = the pruned tail    KeepInactAsWritten
     what the property (and the function's own doc comment) requires     KeepInactRequired
     `paths.retain(..)`                                                  PruneWith

   `CodeRule` selects which rule `Prune` uses: FALSE = the rule C23 requires ("keeps the
   MAXI most recently closed"), TRUE = the pinned code's `split_off(len - MAXI)`, which
   *prunes* the MAXI oldest and so keeps max(k - MAXI, 0) of k inactive paths.  The
   required rule is model checked against the clauses; the as-written rule is refuted
   (anti-vacuity; see PathPrune_code.cfg).

   The clauses C_* state C23 independently of `Prune`; they are also what decides on the
   real code: Judge_PathPrune.tla evaluates them on (input, survivors) pairs observed from
   the real function.  Close-time ties are allowed to be broken either way. *)
EXTENDS Naturals, FiniteSets, Sequences, TLC

CONSTANTS MAXP, MAXI, CodeRule

Min(a, b) == IF a < b THEN a ELSE b
NonRelay(S) == {p \in S : ~p.relay}
Inact(S)    == {p \in NonRelay(S) : p.st = "inactive"}
Failed(S)   == {p \in NonRelay(S) : p.st = "unusable"}
Triggered(S) == Cardinality(NonRelay(S)) >= MAXP
AllFailed(S) == S # {} /\ Failed(S) = S       \* every path is a non-relay path that failed hole punching

\* newest first; ties broken by id only so that Prune is a function (the clauses do not care)
Newer(p, q) == p.t > q.t \/ (p.t = q.t /\ p.id < q.id)
Rank(S, p)  == Cardinality({q \in Inact(S) : Newer(q, p)}) + 1

KeepInactRequired(S)  == {p \in Inact(S) : Rank(S, p) <= MAXI}
AsWrittenCount(k)     == IF k > MAXI THEN k - MAXI ELSE 0
KeepInactAsWritten(S) == {p \in Inact(S) : Rank(S, p) <= AsWrittenCount(Cardinality(Inact(S)))}
\* which MAXP survive when everything failed is unspecified; the model keeps the lowest ids
KeepWhenAllFailed(S)  == {p \in S : Cardinality({q \in S : q.id < p.id}) < MAXP}

PruneWith(S, KeepI(_)) ==
  IF ~Triggered(S) THEN S
  ELSE IF AllFailed(S) THEN KeepWhenAllFailed(S)
  ELSE (S \ Failed(S)) \ (Inact(S) \ KeepI(S))

Prune(S) == IF CodeRule THEN PruneWith(S, KeepInactAsWritten) ELSE PruneWith(S, KeepInactRequired)

---------------------------------------------------------------------------
(* The clauses of C23 for an input set S and a result R. *)
C_Subset(S, R)     == R \subseteq S
C_LiveKept(S, R)   == \A p \in S : (p.relay \/ p.st \in {"open", "unknown"}) => p \in R
C_NonEmpty(S, R)   == S # {} => R # {}
C_Below(S, R)      == ~Triggered(S) => R = S
C_FailedGone(S, R) == (Triggered(S) /\ ~AllFailed(S)) => Failed(S) \cap R = {}
\* exactly the min(k, MAXI) most recently closed survive (any choice among equal close times)
KeptNewest(S, R, n) == LET K == Inact(S) \cap R IN
                         /\ Cardinality(K) = n
                         /\ \A p \in K : \A q \in Inact(S) \ K : p.t >= q.t
C_InactKept(S, R)  == (Triggered(S) /\ ~AllFailed(S)) => KeptNewest(S, R, Min(Cardinality(Inact(S)), MAXI))
C_AllFailed(S, R)  == (Triggered(S) /\ AllFailed(S)) => Cardinality(R) = MAXP

Clauses(S, R) == /\ C_Subset(S, R) /\ C_LiveKept(S, R) /\ C_NonEmpty(S, R) /\ C_Below(S, R)
                 /\ C_FailedGone(S, R) /\ C_InactKept(S, R) /\ C_AllFailed(S, R)

\* R is exactly what the as-written rule produces (up to ties).  For k <= MAXI inactive paths and no
\* open / unknown / relay path that result is the empty set: the same deviation then also breaks C_NonEmpty.
MatchesAsWritten(S, R) ==
  /\ Triggered(S) /\ ~AllFailed(S)
  /\ C_Subset(S, R) /\ C_LiveKept(S, R) /\ C_FailedGone(S, R)
  /\ KeptNewest(S, R, AsWrittenCount(Cardinality(Inact(S))))
  /\ R \ Inact(S) = {p \in S : p.relay \/ p.st \in {"open", "unknown"}}

---------------------------------------------------------------------------
(* Enumeration of path sets by class counts (ids are interchangeable).  tf[i] is the
   close time of the i-th inactive path; relay paths come with every status, because a
   relay path must survive whatever its status is. *)
RelaySt(i) == IF i % 3 = 1 THEN "unusable" ELSE IF i % 3 = 2 THEN "inactive" ELSE "unknown"
Mk(no, nu, nf, tf, nr) ==
       {[id |-> i,       relay |-> FALSE, st |-> "open",     t |-> 0]     : i \in 1..no}
  \cup {[id |-> 100 + i, relay |-> FALSE, st |-> "unknown",  t |-> 0]     : i \in 1..nu}
  \cup {[id |-> 200 + i, relay |-> FALSE, st |-> "unusable", t |-> 0]     : i \in 1..nf}
  \cup {[id |-> 300 + i, relay |-> FALSE, st |-> "inactive", t |-> tf[i]] : i \in 1..Len(tf)}
  \cup {[id |-> 400 + i, relay |-> TRUE,  st |-> RelaySt(i), t |-> i]     : i \in 1..nr}

CONSTANTS NLive,   \* open and unknown counts range over 0..NLive each
          NFail,   \* unusable count ranges over 0..NFail
          NInact,  \* inactive count ranges over 0..NInact
          NRelay   \* relay count ranges over 0..NRelay
VARIABLE S
\* close times 1..3 with multiplicities c1, c2, c3 (ids are interchangeable, so only the multiset matters)
Times(c1, c2, c3) == [i \in 1..(c1 + c2 + c3) |-> IF i <= c1 THEN 1 ELSE IF i <= c1 + c2 THEN 2 ELSE 3]
Init == \E no \in 0..NLive, nu \in 0..NLive, nf \in 0..NFail, nr \in 0..NRelay :
          \E c1 \in 0..NInact, c2 \in 0..NInact, c3 \in 0..NInact :
             c1 + c2 + c3 <= NInact /\ S = Mk(no, nu, nf, Times(c1, c2, c3), nr)
Next == UNCHANGED S
Spec == Init /\ [][Next]_S

C23 == Clauses(S, Prune(S))
=============================================================================
