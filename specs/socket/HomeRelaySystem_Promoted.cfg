\* deviation: a promoted connected actor publishes its URL with set() -- HomeIsChosen is refuted
SPECIFICATION Spec
INVARIANT HomeIsChosen
CHECK_DEADLOCK FALSE
CONSTANTS
  Urls = {"a", "b", "c"}
  NoUrl = "none"
  PromotedSetsUrl = TRUE
  StartHome = "none"
  StartOthers = {}
  LateOnly = FALSE
  KeepHist = FALSE
